"""Demo for C16: symbolic dimensions compute, print and re-parse with integer semantics.

Exercises SymbolicDim.evaluate / simplify / __neg__ / math.floor / math.ceil / math.trunc
(the area touched by the refactoring) through the public API only.
"""

from __future__ import annotations

import itertools
import math
import sys
from fractions import Fraction

import onnx_ir as ir

failures: list[str] = []


def check(cond: bool, msg: str) -> None:
    if not cond:
        failures.append(msg)


def trunc_exact(q: Fraction) -> int:
    return math.trunc(q)


# ---------------------------------------------------------------------------
# 1. Expression trees with exact reference semantics (Fractions)
# ---------------------------------------------------------------------------
N, M, K = ir.SymbolicDim("N"), ir.SymbolicDim("M"), ir.SymbolicDim("K")

# (builder on dims, reference on exact numbers)
CASES = [
    ("neg", lambda n, m, k: -(n + 2 * m) - k, lambda n, m, k: -(n + 2 * m) - k),
    ("floor", lambda n, m, k: math.floor((n * 3 + 1) / m), lambda n, m, k: math.floor(Fraction(n * 3 + 1, m))),
    ("ceil", lambda n, m, k: math.ceil((n + k) / 4), lambda n, m, k: math.ceil(Fraction(n + k, 4))),
    ("trunc", lambda n, m, k: math.trunc((n - 7 * m) / 3), lambda n, m, k: trunc_exact(Fraction(n - 7 * m, 3))),
    ("trunc_neg", lambda n, m, k: math.trunc(-(n / k)), lambda n, m, k: trunc_exact(-Fraction(n, k))),
    ("floordiv", lambda n, m, k: (n * m + 5) // k, lambda n, m, k: (n * m + 5) // k),
    ("rfloordiv", lambda n, m, k: 100 // (n + 1), lambda n, m, k: 100 // (n + 1)),
    ("mod", lambda n, m, k: (n * 7 + m) % k, lambda n, m, k: (n * 7 + m) % k),
    ("rmod", lambda n, m, k: 1000 % (m + k), lambda n, m, k: 1000 % (m + k)),
    ("rsub", lambda n, m, k: 3 - n * (2 - m), lambda n, m, k: 3 - n * (2 - m)),
    ("neg_floor_nested", lambda n, m, k: -math.floor(-(n / m)) + math.ceil(-(k / 2)),
     lambda n, m, k: -math.floor(-Fraction(n, m)) + math.ceil(-Fraction(k, 2))),
]

BINDINGS = [
    {"N": n, "M": m, "K": k}
    for n, m, k in itertools.product((1, 2, 5, 12), (1, 3, 7), (1, 2, 9))
]

for name, build, ref in CASES:
    dim = build(N, M, K)
    check(isinstance(dim, ir.SymbolicDim), f"{name}: not a SymbolicDim")
    simplified = dim.simplify()
    reparsed = ir.SymbolicDim(dim.value)  # what a saved model stores
    check(reparsed == dim, f"{name}: reparsed dim not equal")
    for b in BINDINGS:
        expected = ref(b["N"], b["M"], b["K"])
        got = dim.evaluate(b)
        check(type(got) is int and got == expected, f"{name} {b}: {got!r} != {expected}")
        got_s = simplified.evaluate(b)
        check(type(got_s) is int and got_s == expected, f"{name} simplify {b}: {got_s!r} != {expected}")
        got_r = reparsed.evaluate(b)
        check(type(got_r) is int and got_r == expected, f"{name} reparse {b}: {got_r!r} != {expected}")
        # Partial binding leaves a residual that evaluates consistently later,
        # in every order of binding.
        for first in (("N",), ("M",), ("K",), ("N", "K"), ()):
            partial = dim.evaluate({s: b[s] for s in first})
            if isinstance(partial, ir.SymbolicDim):
                rest = {s: v for s, v in b.items() if s not in first}
                final = partial.evaluate(rest)
                # and through the text of the residual as well
                final_txt = ir.SymbolicDim(partial.value).evaluate(rest)
            else:
                final = final_txt = partial
            check(final == expected, f"{name} partial {first} {b}: {final!r} != {expected}")
            check(final_txt == expected, f"{name} partial-text {first} {b}: {final_txt!r} != {expected}")

# ---------------------------------------------------------------------------
# 2. Unusual inputs
# ---------------------------------------------------------------------------
# 2a. Unknown dimension is absorbing for every unary operation and evaluate.
unknown = ir.SymbolicDim(None)
for label, result in [
    ("neg", -unknown),
    ("floor", math.floor(unknown)),
    ("ceil", math.ceil(unknown)),
    ("trunc", math.trunc(unknown)),
    ("simplify", unknown.simplify()),
    ("evaluate", unknown.evaluate({"N": 1})),
]:
    check(isinstance(result, ir.SymbolicDim) and result.value is None, f"unknown {label}: {result!r}")
check(unknown.free_symbols() == frozenset(), "unknown free_symbols")

# 2b. Empty bindings and bindings naming symbols that do not occur.
d = N * 2 + 1
r = d.evaluate({})
check(isinstance(r, ir.SymbolicDim) and r == d, f"empty bindings: {r!r}")
r = d.evaluate({"unrelated": 5, "M": 3})
check(isinstance(r, ir.SymbolicDim) and r == d, f"unrelated bindings: {r!r}")
check(d.evaluate({"N": 4, "unrelated": 5}) == 9, "extra names ignored")

# 2c. The same symbol occurring several times (duplicates) is bound once, everywhere.
dup = (N + N) * N - N // N
check(dup.evaluate({"N": 6}) == (6 + 6) * 6 - 1, f"duplicates: {dup.evaluate({'N': 6})!r}")

# 2d. A non-integral result stays symbolic (never silently rounded).
half = (N / 2).evaluate({"N": 3})
check(isinstance(half, ir.SymbolicDim) and half.value == "3/2", f"non-integral: {half!r}")
check(math.floor(half).evaluate({}) == 1, "floor(3/2)")
check(math.ceil(half).evaluate({}) == 2, "ceil(3/2)")
check(math.trunc(-half).evaluate({}) == -1, "trunc(-3/2)")

# 2e. A text that cannot be parsed is rejected with ValueError at the moment of use,
#     for every operation, and repeatedly (nothing half-cached).
bad = ir.SymbolicDim("N +* 2")
for label, op in [
    ("neg", lambda x: -x),
    ("floor", math.floor),
    ("ceil", math.ceil),
    ("trunc", math.trunc),
    ("simplify", lambda x: x.simplify()),
    ("evaluate", lambda x: x.evaluate({"N": 1})),
    ("evaluate2", lambda x: x.evaluate({"N": 1})),
    ("free_symbols", lambda x: x.free_symbols()),
]:
    try:
        op(bad)
    except ValueError:
        pass
    else:
        check(False, f"bad text {label}: no ValueError")
check(bad.value == "N +* 2", "bad text value unchanged")

# 2f. Rejected construction.
for arg in (3, True, 1.5):
    try:
        ir.SymbolicDim(arg)  # type: ignore[arg-type]
    except TypeError:
        pass
    else:
        check(False, f"SymbolicDim({arg!r}) accepted")

# 2g. A mapping that is not a dict is honoured (only membership and item access needed).
class Bindings(dict):
    def __init__(self, *a, **k):
        super().__init__(*a, **k)
        self.asked: list[str] = []

    def __contains__(self, key):
        self.asked.append(key)
        return super().__contains__(key)


bm = Bindings(N=2, M=3)
check(((N + M) * K).evaluate(bm).evaluate({"K": 4}) == 20, "custom mapping")
check(sorted(bm.asked) == ["K", "M", "N"], f"membership asked once per symbol: {bm.asked}")

# 2h. Operands are never mutated.
before = (N.value, M.value, K.value, d.value)
_ = -d, math.floor(d), d.simplify(), d.evaluate({"N": 1})
check(before == (N.value, M.value, K.value, d.value), "operands mutated")

if failures:
    print(f"{len(failures)} FAILURES")
    for f in failures[:20]:
        print("  ", f)
    sys.exit(1)
print("OK")
