"""Demo for C05: initializer deduplication preserves what the model computes.

Builds a model with duplicated initializers (main graph and an If-subgraph),
duplicates that must NOT be merged (different dtype / shape / graph output /
above size limit / string tensors with different content), runs both
deduplication passes and checks with the ONNX reference evaluator that the
outputs are unchanged, the I/O signature is unchanged and the checker accepts
the result.
"""
import sys

import numpy as np
import onnx
import onnx.reference

import onnx_ir as ir
from onnx_ir.passes.common import (
    DeduplicateHashedInitializersPass,
    DeduplicateInitializersPass,
)


def init(name, arr):
    t = ir.tensor(arr, name=name)
    return ir.Value(name=name, const_value=t, shape=ir.Shape(arr.shape), type=ir.TensorType(t.dtype))


def build():
    f32 = ir.TensorType(ir.DataType.FLOAT)
    x = ir.Value(name="x", shape=ir.Shape([2]), type=f32)
    cond = ir.Value(name="cond", shape=ir.Shape([]), type=ir.TensorType(ir.DataType.BOOL))

    a = np.array([1.0, 2.0], dtype=np.float32)
    w1, w2, w3 = init("w1", a), init("w2", a.copy()), init("w3", a.copy())
    w_i = init("w_int", np.array([1, 2], dtype=np.int32))  # same bytes? no: other dtype
    w_shape = init("w_shape", a.reshape(1, 2))  # same bytes, other shape
    w_out = init("w_out", a.copy())  # is a graph output: must be kept
    zero_a = init("zero_a", np.zeros((2,), dtype=np.float32))
    zero_b = init("zero_b", np.array([0.0, -0.0], dtype=np.float32))  # equal values, different bytes

    n1 = ir.node("Add", [x, w1], name="n1")
    n2 = ir.node("Add", [n1.outputs[0], w2], name="n2")
    n3 = ir.node("Mul", [n2.outputs[0], w3], name="n3")
    n4 = ir.node("Cast", [w_i], attributes={"to": int(ir.DataType.FLOAT)}, name="n4")
    n5 = ir.node("Add", [n3.outputs[0], n4.outputs[0]], name="n5")
    n6 = ir.node("Add", [n5.outputs[0], w_shape], name="n6")  # broadcast to [1,2]
    n7 = ir.node("Add", [zero_a, zero_b], name="n7")
    n8 = ir.node("Add", [n6.outputs[0], n7.outputs[0]], name="n8")

    # Subgraphs with their own duplicate initializers; they also capture w1 from outside
    def branch(prefix, k):
        c = np.array([k, k], dtype=np.float32)
        s1, s2 = init(prefix + "_s1", c), init(prefix + "_s2", c.copy())
        # same content as outer w1 but in another graph: not merged with w1
        s3 = init(prefix + "_s3", a.copy())
        b1 = ir.node("Add", [s1, s2], name=prefix + "_b1")
        b2 = ir.node("Add", [b1.outputs[0], s3], name=prefix + "_b2")
        b3 = ir.node("Add", [b2.outputs[0], w1], name=prefix + "_b3")
        b3.outputs[0].name = prefix + "_out"
        b3.outputs[0].type = f32
        b3.outputs[0].shape = ir.Shape([2])
        return ir.Graph([], [b3.outputs[0]], nodes=[b1, b2, b3], initializers=[s1, s2, s3], name=prefix)

    n_if = ir.node(
        "If",
        [cond],
        attributes={"then_branch": branch("then", 3.0), "else_branch": branch("else", 5.0)},
        name="n_if",
    )
    n9 = ir.node("Add", [n8.outputs[0], n_if.outputs[0]], name="n9")
    y = n9.outputs[0]
    y.name = "y"
    y.type = f32
    y.shape = ir.Shape([1, 2])
    for n in (n1, n2, n3, n4, n5, n6, n7, n8, n_if):
        for i, o in enumerate(n.outputs):
            o.name = f"{n.name}_o{i}"

    graph = ir.Graph(
        [x, cond],
        [y, w_out],
        nodes=[n1, n2, n3, n4, n5, n6, n7, n8, n_if, n9],
        initializers=[w1, w2, w3, w_i, w_shape, w_out, zero_a, zero_b],
        opset_imports={"": 20},
        name="main",
    )
    return ir.Model(graph, ir_version=10)


def run(model, feeds):
    proto = ir.to_proto(model)
    onnx.checker.check_model(proto, full_check=True)
    sess = onnx.reference.ReferenceEvaluator(proto)
    return sess.run(None, feeds)


def signature(model):
    init_names = set(model.graph.initializers)
    return (
        [v.name for v in model.graph.inputs if v.name not in init_names],
        [v.name for v in model.graph.outputs],
    )


def check(cond, msg):
    if not cond:
        print("FAIL:", msg)
        sys.exit(1)


def main():
    rng = np.random.default_rng(0)
    feeds_list = [
        {"x": rng.standard_normal(2).astype(np.float32), "cond": np.array(c)} for c in (True, False)
    ]
    for pass_cls, kwargs in [
        (DeduplicateInitializersPass, {}),
        (DeduplicateHashedInitializersPass, {}),
        (DeduplicateInitializersPass, {"size_limit": 1}),  # everything above the limit
        (DeduplicateHashedInitializersPass, {"size_limit": 1}),
    ]:
        model = build()
        expected = [run(model, f) for f in feeds_list]
        sig = signature(model)
        result = pass_cls(**kwargs)(model)
        check(result.model is model, "in place pass returns the same model")
        got = [run(model, f) for f in feeds_list]
        for e, g in zip(expected, got):
            check(len(e) == len(g), "number of outputs")
            for ea, ga in zip(e, g):
                check(ea.dtype == ga.dtype and ea.shape == ga.shape and np.array_equal(ea, ga), "outputs equal")
        check(signature(model) == sig, "I/O signature preserved")
        names = sorted(model.graph.initializers)
        then_g = model.graph.node("n_if").attributes["then_branch"].as_graph()
        else_g = model.graph.node("n_if").attributes["else_branch"].as_graph()
        if kwargs:
            check(not result.modified, "nothing merged above the size limit")
            check(len(names) == 8 and len(then_g.initializers) == 3, "all initializers kept")
        else:
            check(result.modified, "duplicates merged")
            # w2, w3 merged into w1 (first occurrence kept); nothing else
            check(
                names == sorted(["w1", "w_int", "w_shape", "w_out", "zero_a", "zero_b"]),
                f"main initializers: {names}",
            )
            check(sorted(then_g.initializers) == ["then_s1", "then_s3"], "then branch dedup")
            check(sorted(else_g.initializers) == ["else_s1", "else_s3"], "else branch dedup")
            w1 = model.graph.initializers["w1"]
            check({u.node.name for u in w1.uses()} == {"n1", "n2", "n3", "then_b3", "else_b3"}, "uses redirected to w1")
            # Idempotent: a second run changes nothing
            check(not pass_cls()(model).modified, "second run is a no-op")

    # String tensors: equal strings merged, different strings with equal padded width kept
    for pass_cls in (DeduplicateInitializersPass,):
        def sinit(name, items):
            t = ir.StringTensor(items, shape=ir.Shape([len(items)]), name=name)
            return ir.Value(name=name, const_value=t, shape=ir.Shape([len(items)]), type=ir.TensorType(ir.DataType.STRING))

        sa = sinit("sa", [b"ab", b"c"])
        sb = sinit("sb", [b"ab", b"c"])
        sc = sinit("sc", [b"a", b"bc"])  # same concatenated bytes, other grouping
        nodes = [ir.node("Identity", [v], name="id_" + v.name) for v in (sa, sb, sc)]
        for n in nodes:
            n.outputs[0].name = n.name + "_o"
            n.outputs[0].type = ir.TensorType(ir.DataType.STRING)
            n.outputs[0].shape = ir.Shape([2])
        g = ir.Graph([], [n.outputs[0] for n in nodes], nodes=nodes, initializers=[sa, sb, sc], opset_imports={"": 20}, name="s")
        m = ir.Model(g, ir_version=10)
        before = run(m, {})
        r = pass_cls()(m)
        after = run(m, {})
        check(r.modified and sorted(g.initializers) == ["sa", "sc"], "string dedup")
        check(all(list(b) == list(a) for b, a in zip(before, after)), "string outputs equal")

    # Empty model: no initializers at all, and an initializer without a constant value is skipped
    empty = ir.Model(ir.Graph([], [], nodes=[], opset_imports={"": 20}, name="e"), ir_version=10)
    for pass_cls in (DeduplicateInitializersPass, DeduplicateHashedInitializersPass):
        check(not pass_cls()(empty).modified, "empty model untouched")
    # Functional passes reject nothing here, but a non-model argument is rejected the same way
    for pass_cls in (DeduplicateInitializersPass, DeduplicateHashedInitializersPass):
        try:
            pass_cls()(None)
        except Exception as e:  # noqa: BLE001
            check(type(e).__name__ in ("TypeError", "PassError", "AttributeError", "PreconditionError"), f"rejection type {type(e).__name__}")
        else:
            check(False, "None accepted as a model")
    print("OK")


if __name__ == "__main__":
    main()
