"""Demo for C03: IR -> proto -> IR preserves shapes (incl. nested types, denotations,
empty shapes, unknown dims); serialization is idempotent and side-effect free."""
import logging
import sys

import onnx

import onnx_ir as ir
from onnx_ir import serde


def check(cond, msg):
    if not cond:
        print("FAIL:", msg)
        sys.exit(1)


class _Collect(logging.Handler):
    def __init__(self):
        super().__init__()
        self.records = []

    def emit(self, record):
        self.records.append(record)


collector = _Collect()
logging.getLogger("onnx_ir.serde").addHandler(collector)
logging.getLogger("onnx_ir.serde").setLevel(logging.WARNING)


def shape_sig(shape):
    if shape is None:
        return None
    out = []
    for i, d in enumerate(shape):
        if isinstance(d, int):
            out.append(("int", d, shape.get_denotation(i)))
        else:
            out.append(("sym", d.value, shape.get_denotation(i)))
    return tuple(out)


# ---- 1. shape <-> TensorShapeProto, incl. empty shape, unknown dim, denotations
shape = ir.Shape([2, "N", None, 0], denotations=["DATA_BATCH", None, "X", None])
tp = onnx.TypeProto()
serde.serialize_type_into(tp, ir.TensorType(ir.DataType.FLOAT))
serde.serialize_shape_into(tp, shape)
check(len(tp.tensor_type.shape.dim) == 4, "4 dims")
check(tp.tensor_type.shape.dim[0].dim_value == 2, "dim0")
check(tp.tensor_type.shape.dim[0].denotation == "DATA_BATCH", "denotation0")
check(tp.tensor_type.shape.dim[1].dim_param == "N", "dim1")
check(tp.tensor_type.shape.dim[2].WhichOneof("value") is None, "dim2 unknown")
check(tp.tensor_type.shape.dim[2].denotation == "X", "denotation2")
check(tp.tensor_type.shape.dim[3].dim_value == 0, "dim3 zero")
back = serde.deserialize_type_proto_for_shape(tp)
check(shape_sig(back) == shape_sig(shape), f"shape roundtrip {back} vs {shape}")
check(back.frozen, "deserialized shape is frozen")
direct = serde.deserialize_tensor_shape(tp.tensor_type.shape)
check(shape_sig(direct) == shape_sig(shape), "deserialize_tensor_shape")

# empty shape (rank 0) must be distinguishable from no shape
tp0 = onnx.TypeProto()
serde.serialize_type_into(tp0, ir.TensorType(ir.DataType.INT64))
check(serde.deserialize_type_proto_for_shape(tp0) is None, "no shape -> None")
serde.serialize_shape_into(tp0, ir.Shape([]))
check(tp0.tensor_type.HasField("shape"), "empty shape is written")
s0 = serde.deserialize_type_proto_for_shape(tp0)
check(s0 is not None and len(s0) == 0, "rank-0 shape roundtrip")
check(shape_sig(serde.deserialize_tensor_shape(onnx.TensorShapeProto())) == (), "empty proto")

# writing the shape a second time overwrites instead of appending
serde.serialize_shape_into(tp, shape)
check(len(tp.tensor_type.shape.dim) == 4, "rewrite does not append")

# ---- 2. nested types: the shape is written to the leaf
nested = ir.OptionalType(ir.SequenceType(ir.SequenceType(ir.TensorType(ir.DataType.INT32))))
tpn = onnx.TypeProto()
serde.serialize_type_into(tpn, nested)
serde.serialize_shape_into(tpn, ir.Shape(["a", 3]))
leaf = tpn.optional_type.elem_type.sequence_type.elem_type.sequence_type.elem_type
check(leaf.WhichOneof("value") == "tensor_type", "leaf is tensor")
check([d.WhichOneof("value") for d in leaf.tensor_type.shape.dim] == ["dim_param", "dim_value"], "leaf dims")
check(shape_sig(serde.deserialize_type_proto_for_shape(tpn)) == (("sym", "a", None), ("int", 3, None)), "nested roundtrip")
check(serde.deserialize_type_proto_for_type(tpn) == nested, "nested type roundtrip")

sp = onnx.TypeProto()
serde.serialize_type_into(sp, ir.SequenceType(ir.SparseTensorType(ir.DataType.DOUBLE)))
serde.serialize_shape_into(sp, ir.Shape([5]))
check(sp.sequence_type.elem_type.sparse_tensor_type.shape.dim[0].dim_value == 5, "sparse leaf")

# ---- 3. unusual: no type known -> warning, nothing written (top level and half-way down)
collector.records.clear()
empty = onnx.TypeProto()
serde.serialize_shape_into(empty, ir.Shape([1, 2]))
check(empty == onnx.TypeProto(), "untyped proto untouched")
check(len(collector.records) == 1, f"one warning, got {len(collector.records)}")
check(collector.records[0].funcName == "serialize_shape_into", "warning origin")
check("is not known" in collector.records[0].getMessage(), "warning text")

collector.records.clear()
half = onnx.TypeProto()
half.sequence_type.elem_type.optional_type.SetInParent()  # optional with no elem type
before = half.SerializeToString()
serde.serialize_shape_into(half, ir.Shape([1]))
check(half.SerializeToString() == before, "half-typed proto untouched")
check(len(collector.records) == 1, "one warning for half-typed proto")

# ---- 3b. rejected: map / opaque types have no elem_type -> SerdeError from AttributeError
for field in ("map_type", "opaque_type"):
    bad = onnx.TypeProto()
    getattr(bad, field).SetInParent()
    try:
        serde.serialize_shape_into(bad, ir.Shape([1]))
    except serde.SerdeError as e:
        check(isinstance(e.__cause__, AttributeError), f"{field}: cause {type(e.__cause__)}")
        check("serialize_shape_into" in str(e), "error names the function")
    else:
        check(False, f"{field} should be rejected")

# ---- 4. whole-model round trip with nested graph, missing shape/type, shared outer value
x = ir.Value(name="x", type=ir.TensorType(ir.DataType.FLOAT),
             shape=ir.Shape(["B", 3, None], denotations=["DATA_BATCH", None, None]))
seq = ir.Value(name="seq", type=ir.SequenceType(ir.TensorType(ir.DataType.FLOAT)), shape=ir.Shape([1, "K"]))
untyped = ir.Value(name="untyped")
shape_only = ir.Value(name="shape_only", shape=ir.Shape([7]))  # shape but no type: cannot be written

inner_out = ir.Value(name="inner_out", type=ir.TensorType(ir.DataType.FLOAT), shape=ir.Shape([]))
inner_node = ir.Node("", "Identity", [x], outputs=[inner_out], name="inner_id")
inner = ir.Graph([], [inner_out], nodes=[inner_node], name="then")
inner_out2 = ir.Value(name="inner_out2", type=ir.TensorType(ir.DataType.FLOAT))
inner2 = ir.Graph([], [inner_out2], nodes=[ir.Node("", "Neg", [x], outputs=[inner_out2], name="neg")], name="else")

cond = ir.Value(name="cond", type=ir.TensorType(ir.DataType.BOOL), shape=ir.Shape([]))
if_out = ir.Value(name="if_out", type=ir.TensorType(ir.DataType.FLOAT), shape=ir.Shape(["B", 3, "M"]))
if_node = ir.Node("", "If", [cond], [ir.AttrGraph("then_branch", inner), ir.AttrGraph("else_branch", inner2),
                                      ir.AttrTypeProto("tp", ir.TypeAndShape(ir.OptionalType(ir.TensorType(ir.DataType.INT8)), ir.Shape([4, "q"])))],
                  outputs=[if_out], name="if")
opt_out_a = ir.Value(name="a", type=ir.TensorType(ir.DataType.FLOAT), shape=ir.Shape([0]))
opt_out_b = ir.Value(name="")
opt_out_c = ir.Value(name="c")
multi = ir.Node("custom", "Multi", [if_out, None, seq, untyped, shape_only], outputs=[opt_out_a, opt_out_b, opt_out_c], name="multi")
graph = ir.Graph([x, cond, seq, untyped, shape_only], [opt_out_a, opt_out_c], nodes=[if_node, multi],
                 name="main", opset_imports={"": 20, "custom": 1})
model = ir.Model(graph, ir_version=10)


def model_sig(m):
    def val(v):
        return None if v is None else (v.name, repr(v.type), shape_sig(v.shape))

    def g_sig(g):
        nodes = []
        for n in g:
            attrs = []
            for a in n.attributes.values():
                if a.type == ir.AttributeType.GRAPH:
                    attrs.append((a.name, g_sig(a.value)))
                elif a.type == ir.AttributeType.TYPE_PROTO:
                    attrs.append((a.name, repr(a.value.type), shape_sig(a.value.shape)))
                else:
                    attrs.append((a.name, repr(a.value)))
            nodes.append((n.name, n.domain, n.op_type, tuple(val(i) for i in n.inputs),
                          tuple(val(o) for o in n.outputs), tuple(attrs)))
        return (g.name, tuple(val(i) for i in g.inputs), tuple(val(o) for o in g.outputs), tuple(nodes))

    return (m.ir_version, dict(m.opset_imports), g_sig(m.graph))


sig_before = model_sig(model)
collector.records.clear()
p1 = ir.to_proto(model)
n_warn = len(collector.records)
check(n_warn >= 1, "shape-without-type gives a warning")
p2 = ir.to_proto(model)
check(p1 == p2 and p1.SerializeToString(deterministic=True) == p2.SerializeToString(deterministic=True), "serialize twice")
check(model_sig(model) == sig_before, "serialization has no side effects")
m2 = ir.from_proto(p1)
sig_after = model_sig(m2)
# the only expected loss: a shape with no type cannot be stored (warned about above)
expected = eval(repr(sig_before).replace("('shape_only', 'None', (('int', 7, None),))", "('shape_only', 'None', None)"))
check(expected != sig_before, "expected loss is modelled")
check(sig_after == expected, f"model roundtrip:\n{sig_after}\n{expected}")
p3 = ir.to_proto(m2)
check(p3 == ir.to_proto(ir.from_proto(p3)), "fixpoint after one round trip")
# captured outer value is shared by both branches after deserialization
m2_if = m2.graph[0]
m2_x = m2.graph.inputs[0]
check(m2_if.attributes["then_branch"].value[0].inputs[0] is m2_x, "then captures outer x")
check(m2_if.attributes["else_branch"].value[0].inputs[0] is m2_x, "else captures outer x")

print("OK")
