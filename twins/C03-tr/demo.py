"""Round trip of multi-device (IR version 11) configurations: IR -> proto -> IR.

Exercises the binding of node configuration_id placeholders to the model's
configuration objects on deserialization and the type validation done on
serialization, including unusual inputs (wrong element types, dangling ids,
duplicate configuration names, no configurations, old IR version).
"""

import logging
import sys

import onnx

import onnx_ir as ir
from onnx_ir import serde

logging.disable(logging.CRITICAL)


def check(cond, msg):
    if not cond:
        print("FAIL:", msg)
        sys.exit(1)


def root_cause(exc):
    while exc.__cause__ is not None:
        exc = exc.__cause__
    return exc


def build(ir_version=11):
    x = ir.Value(name="x", type=ir.TensorType(ir.DataType.FLOAT), shape=ir.Shape([8, 4]))
    cond = ir.Value(name="cond", type=ir.TensorType(ir.DataType.BOOL), shape=ir.Shape([]))

    # subgraph capturing the outer value x
    inner = ir.Node("", "Relu", [x], name="inner_relu")
    inner.outputs[0].name = "inner_out"
    then_graph = ir.Graph([], [inner.outputs[0]], nodes=[inner], name="then")
    inner2 = ir.Node("", "Neg", [x], name="inner_neg")
    inner2.outputs[0].name = "inner_out2"
    else_graph = ir.Graph([], [inner2.outputs[0]], nodes=[inner2], name="else")

    a = ir.Node("", "Abs", [x], name="abs")
    a.outputs[0].name = "a_out"
    a.outputs[0].shape = ir.Shape([8, 4])
    a.outputs[0].type = ir.TensorType(ir.DataType.FLOAT)
    iff = ir.Node(
        "",
        "If",
        [cond],
        attributes=[
            ir.Attr("then_branch", ir.AttributeType.GRAPH, then_graph),
            ir.Attr("else_branch", ir.AttributeType.GRAPH, else_graph),
        ],
        name="if",
    )
    iff.outputs[0].name = "if_out"
    call = ir.Node("custom", "F", [a.outputs[0], iff.outputs[0]], name="call")
    call.outputs[0].name = "y"
    plain = ir.Node("", "Identity", [call.outputs[0]], name="plain")
    plain.outputs[0].name = "z"
    graph = ir.Graph(
        [x, cond],
        [plain.outputs[0]],
        nodes=[a, iff, call, plain],
        opset_imports={"": 21, "custom": 1},
        name="main",
    )

    fa = ir.Value(name="fa")
    fb = ir.Value(name="fb")
    fadd = ir.Node("", "Add", [fa, fb], name="fadd")
    fadd.outputs[0].name = "fy"
    fgraph = ir.Graph([fa, fb], [fadd.outputs[0]], nodes=[fadd], opset_imports={"": 21})
    func = ir.Function("custom", "F", graph=fgraph, attributes=[])

    model = ir.Model(graph, ir_version=ir_version, functions=[func])
    cfg_a = model.add_device_configuration("cfgA", device_names=("CPU", "CUDA:0"))
    cfg_b = model.add_device_configuration("cfgB", num_devices=4)

    # rejected public calls leave the model untouched
    for bad in (
        lambda: model.add_device_configuration("cfgA", num_devices=2),
        lambda: model.add_device_configuration("", num_devices=2),
        lambda: a.shard(plain.outputs[0], configuration=cfg_a, axis=0, num_shards=2),
        lambda: a.shard(x, configuration=cfg_a, axis=0, num_shards=0),
    ):
        try:
            bad()
        except ValueError:
            pass
        else:
            check(False, "expected ValueError")
    check(model.device_configurations == (cfg_a, cfg_b), "rejected calls changed the model")
    check(a.device_configurations == (), "rejected shard changed the node")

    # one node with two configurations (both axes for cfgA)
    a.shard(x, configuration=cfg_a, axis=0, num_shards=2, device_indices=(0, 1), pipeline_stage=0)
    a.shard(x, configuration=cfg_a, axis=1, num_shards=2)
    a.shard(a.outputs[0], configuration=cfg_b, axis=-1, num_shards=4, device_indices=(3, 1))
    # node inside a subgraph, sharing the configuration object, captured value
    inner.shard(x, configuration=cfg_b, axis=0, num_shards=4)
    # function body node
    fadd.shard(fa, configuration=cfg_a, axis=0, num_shards=2, pipeline_stage=1)
    # dangling reference: a configuration not registered with the model,
    # plus a spec pointing at a value nobody declares
    ghost = ir.ModelConfiguration(name="ghost", num_devices=3)
    call.device_configurations = (
        ir.NodeDeviceConfiguration(
            configuration=ghost,
            sharding_specs=(
                ir.ShardingSpec(value=ir.Value(name="nowhere"), device=(-1,)),
            ),
        ),
        ir.NodeDeviceConfiguration(configuration=cfg_b, pipeline_stage=2),
    )
    return model


def all_nodes(model):
    nodes = list(model.graph.all_nodes())
    for f in model.functions.values():
        nodes.extend(f.all_nodes())
    return nodes


def describe(model):
    """Structure of the multi-device data, names instead of objects."""
    out = [tuple((c.name, c.num_devices, c.device_names) for c in model.device_configurations)]
    for node in all_nodes(model):
        out.append(
            (
                node.name,
                tuple(
                    (
                        c.configuration.name if c.configuration is not None else None,
                        tuple(
                            (
                                s.value.name if s.value is not None else None,
                                s.device,
                                s.index_to_device_group_map,
                                s.sharded_dims,
                            )
                            for s in c.sharding_specs
                        ),
                        c.pipeline_stage,
                    )
                    for c in node.device_configurations
                ),
            )
        )
    return out


def main():
    model = build()
    before = describe(model)
    ident_before = [(n, n.device_configurations) for n in all_nodes(model)]
    p1 = ir.to_proto(model)
    p2 = ir.to_proto(model)
    check(p1 == p2, "serializing twice gives different protos")
    check(p1.SerializeToString(deterministic=True) == p2.SerializeToString(deterministic=True), "bytes differ")
    check(describe(model) == before, "serialization changed the IR")
    for n, dc in ident_before:
        check(n.device_configurations is dc, "serialization replaced device_configurations")
    check(len(p1.configuration) == 2, "model configurations not serialized")
    by_name = {n.name: n for n in p1.graph.node}
    check(len(by_name["abs"].device_configurations) == 2, "node configurations not serialized")
    check(len(by_name["plain"].device_configurations) == 0, "unexpected node configuration")

    back = ir.from_proto(p1)
    check(describe(back) == before, f"round trip differs:\n{describe(back)}\n{before}")
    known = {c.name: c for c in back.device_configurations}
    check(list(known) == ["cfgA", "cfgB"], "configuration order")
    n_bound = 0
    for node in all_nodes(back):
        check(isinstance(node.device_configurations, tuple), "device_configurations is not a tuple")
        for c in node.device_configurations:
            if c.configuration.name in known:
                check(c.configuration is known[c.configuration.name], f"{node.name}: not bound by identity")
                n_bound += 1
            else:
                check(c.configuration == ir.ModelConfiguration(name="ghost", num_devices=0), "placeholder lost")
    check(n_bound == 5, f"expected 5 bound node configurations, got {n_bound}")
    # sharded values are the very objects of the graph (captured value x in the subgraph)
    back_nodes = {n.name: n for n in all_nodes(back)}
    bx = back.graph.inputs[0]
    check(back_nodes["abs"].device_configurations[0].sharding_specs[0].value is bx, "x not bound")
    check(back_nodes["inner_relu"].device_configurations[0].sharding_specs[0].value is bx, "captured x not bound")
    check(back_nodes["inner_relu"].inputs[0] is bx, "captured x not shared")
    check(back_nodes["plain"].device_configurations == (), "plain node got configurations")
    check(ir.to_proto(back) == p1, "proto -> IR -> proto differs")

    # duplicate configuration names in the proto: nodes bind to the last one
    p_dup = onnx.ModelProto()
    p_dup.CopyFrom(p1)
    extra = p_dup.configuration.add()
    extra.name = "cfgA"
    extra.num_devices = 7
    dup = ir.from_proto(p_dup)
    check(len(dup.device_configurations) == 3, "duplicate configuration dropped")
    dup_nodes = {n.name: n for n in all_nodes(dup)}
    check(dup_nodes["abs"].device_configurations[0].configuration is dup.device_configurations[2], "dup: abs")
    check(dup_nodes["fadd"].device_configurations[0].configuration is dup.device_configurations[2], "dup: fadd")
    check(dup_nodes["abs"].device_configurations[1].configuration is dup.device_configurations[1], "dup: cfgB")
    check(ir.to_proto(dup) == p_dup, "dup: proto -> IR -> proto differs")

    # no model configurations at all: every node keeps its placeholder
    p_none = onnx.ModelProto()
    p_none.CopyFrom(p1)
    del p_none.configuration[:]
    none = ir.from_proto(p_none)
    check(none.device_configurations == (), "configurations appeared")
    for node in all_nodes(none):
        for c in node.device_configurations:
            check(c.configuration.num_devices == 0, "placeholder expected")
    check(ir.to_proto(none) == p_none, "none: proto -> IR -> proto differs")

    # stand-alone node deserialization keeps placeholders
    lone = serde.deserialize_node(by_name["abs"])
    check([c.configuration.num_devices for c in lone.device_configurations] == [0, 0], "lone node")
    check(serde.serialize_node(lone).device_configurations == by_name["abs"].device_configurations, "lone rt")

    # rejected: wrong element types, reported for the first offender, before the version check
    for version in (11, 10):
        m = build(version)
        m.device_configurations = (m.device_configurations[0], "cfgB", 3)
        try:
            ir.to_proto(m)
        except serde.SerdeError as e:
            cause = root_cause(e)
            check(type(cause) is TypeError, f"cause {cause!r}")
            check(str(cause) == "Expected ModelConfiguration, got <class 'str'>", str(cause))
        else:
            check(False, "wrong model configuration type accepted")
        m = build(version)
        good = m.graph[0].device_configurations
        m.graph[0].device_configurations = [good[0], 5, "s"]
        try:
            ir.to_proto(m)
        except serde.SerdeError as e:
            cause = root_cause(e)
            check(type(cause) is TypeError, f"cause {cause!r}")
            check(str(cause) == "Expected NodeDeviceConfiguration, got <class 'int'>", str(cause))
        else:
            check(False, "wrong node configuration type accepted")
        check(m.graph[0].device_configurations[0] is good[0], "failed call changed the node")
        # a list instead of a tuple is serialized all the same
        m.graph[0].device_configurations = list(good)
        pl = ir.to_proto(m)
        check(len(pl.graph.node[0].device_configurations) == (2 if version >= 11 else 0), "list of configurations")

    # rejected: configuration None / unnamed cannot be serialized
    m = build()
    m.graph[3].device_configurations = (ir.NodeDeviceConfiguration(configuration=None),)
    try:
        ir.to_proto(m)
    except serde.SerdeError as e:
        check(type(root_cause(e)) is ValueError, "None configuration")
    else:
        check(False, "None configuration accepted")

    # IR version 10: nothing about devices is written, the rest round-trips
    m10 = build(10)
    d10 = describe(m10)
    p10 = ir.to_proto(m10)
    check(len(p10.configuration) == 0, "ir10 wrote configurations")
    check(all(len(n.device_configurations) == 0 for n in p10.graph.node), "ir10 wrote node configurations")
    check(describe(m10) == d10, "ir10 serialization changed the IR")
    b10 = ir.from_proto(p10)
    check(b10.device_configurations == (), "ir10 configurations")
    check([n.name for n in b10.graph] == ["abs", "if", "call", "plain"], "ir10 node order")
    check(ir.to_proto(b10) == p10, "ir10 proto -> IR -> proto differs")

    # empty input: a model without anything multi-device
    empty = ir.Model(ir.Graph([], [], nodes=[], name="e"), ir_version=11)
    pe = ir.to_proto(empty)
    check(len(pe.configuration) == 0, "empty")
    check(ir.to_proto(ir.from_proto(pe)) == pe, "empty round trip")

    print("OK")


if __name__ == "__main__":
    main()
