"""Demo for C08: an interrupted external-data save never damages an existing data file.

Exercises the single-file layout/write path and the sharded planning path through
the public API (onnx_ir.external_data.unload_from_model / convert_tensors_to_external).
Exits 0 when every check holds.
"""

from __future__ import annotations

import os
import sys
import tempfile

import numpy as np

import onnx_ir as ir
from onnx_ir import external_data


class Boom(Exception):
    pass


def make_model(arrays: dict[str, np.ndarray]) -> ir.Model:
    values = []
    for name, arr in arrays.items():
        v = ir.Value(name=name, const_value=ir.tensor(arr, name=name))
        values.append(v)
    graph = ir.Graph(inputs=[], outputs=[], nodes=[], initializers=values, name="g")
    return ir.Model(graph, ir_version=10)


def listing(d: str) -> list[str]:
    out = []
    for root, dirs, files in os.walk(d):
        for n in dirs + files:
            out.append(os.path.relpath(os.path.join(root, n), d))
    return sorted(out)


def read(path: str) -> bytes:
    with open(path, "rb") as f:
        return f.read()


def check(cond: bool, msg: str) -> None:
    if not cond:
        print("FAIL:", msg)
        sys.exit(1)
    print("ok:", msg)


def arrays3() -> dict[str, np.ndarray]:
    return {
        "a": np.arange(64, dtype=np.float32),
        "b": np.arange(100, dtype=np.int64),
        "c": np.full((33,), 7, dtype=np.uint8),
    }


def single_file_cases(d: str) -> None:
    data = os.path.join(d, "w.data")
    # 1. First save, then a second complete save over the existing file.
    model = make_model(arrays3())
    external_data.unload_from_model(model, d, "w.data")
    old = read(data)
    expected = b"".join(a.tobytes() for a in arrays3().values())
    check(old == expected, "dense layout in declaration order")
    check(listing(d) == ["w.data"], "no temporary left after a successful save")
    ext = [v.const_value for v in model.graph.initializers.values()]
    check(all(isinstance(t, ir.ExternalTensor) and t.valid() for t in ext), "external tensors valid")
    check([(t.offset, t.length) for t in ext] == [(0, 256), (256, 800), (1056, 33)], "offsets/lengths")

    # 2. Callback fails half-way (serial and parallel): destination unchanged, nothing left,
    #    tensors reading from the destination still valid and readable.
    for workers in (None, 3):
        seen = []

        def cb(tensor, info, seen=seen):
            seen.append(info.index)
            if len(seen) == 2:
                raise Boom("callback")

        try:
            external_data.unload_from_model(model, d, "w.data", callback=cb, max_workers=workers)
        except Boom:
            pass
        else:
            check(False, "callback exception must propagate")
        check(read(data) == old, f"destination unchanged after failing callback (workers={workers})")
        check(listing(d) == ["w.data"], f"no temporary remains (workers={workers})")
        cur = [v.const_value for v in model.graph.initializers.values()]
        check(all(a is b for a, b in zip(cur, ext)), "model initializers not replaced on failure")
        check(all(t.valid() for t in ext), "external tensors still valid after failure")
        np.testing.assert_array_equal(ext[1].numpy(), arrays3()["b"])
        ext[1].release()

    # 3. A tensor that fails mid-write via convert_tensors_to_external.
    class Bad:
        name = "bad"
        dtype = ir.DataType.UINT8
        shape = ir.Shape([10])
        nbytes = 10
        size = 10

        def tofile(self, file):
            file.write(b"\x01\x02\x03")
            raise Boom("mid tensor")

    good = ir.tensor(np.arange(5, dtype=np.int32), name="good")
    try:
        external_data.convert_tensors_to_external([good, Bad(), good], d, "w.data")
    except Boom:
        pass
    else:
        check(False, "tensor exception must propagate")
    check(read(data) == old and listing(d) == ["w.data"], "mid-tensor failure leaves old bytes only")

    # 4. Layout failure (nbytes raising) happens before anything touches the disk.
    class NoSize:
        name = "nosize"

        @property
        def nbytes(self):
            raise Boom("nbytes")

    try:
        external_data.convert_tensors_to_external([good, NoSize()], d, "w.data")
    except Boom:
        pass
    else:
        check(False, "nbytes exception must propagate")
    check(read(data) == old and listing(d) == ["w.data"], "layout failure leaves old bytes only")

    # 5. Rejected options: no effect at all.
    for kwargs in ({"max_workers": 0}, {"alignment": 0}, {"align_threshold": -1}, {"max_in_flight_bytes": 0}):
        try:
            external_data.convert_tensors_to_external([good], d, "w.data", **kwargs)
        except ValueError:
            pass
        else:
            check(False, f"{kwargs} must be rejected")
    check(read(data) == old and listing(d) == ["w.data"], "rejected calls change nothing")

    # 6. Unusual inputs: empty list and duplicated tensor object, with alignment.
    res = external_data.convert_tensors_to_external([], d, "empty.data")
    check(res == [] and read(os.path.join(d, "empty.data")) == b"", "empty input writes an empty file")
    big = ir.tensor(np.arange(3000, dtype=np.uint8) .astype(np.uint8), name="big")
    res = external_data.convert_tensors_to_external(
        [good, big, good, big], d, "dup.data", alignment=4096, align_threshold=100, max_workers=2
    )
    check(
        [(t.offset, t.length) for t in res] == [(0, 20), (4096, 3000), (7096, 20), (8192, 3000)],
        "aligned layout with duplicates",
    )
    blob = read(os.path.join(d, "dup.data"))
    check(len(blob) == 8192 + 3000 and blob[4096:7096] == big.tobytes() and blob[7096:7116] == good.tobytes(),
          "aligned bytes with duplicates")
    check(listing(d) == ["dup.data", "empty.data", "w.data"], "only data files in the directory")

    # 7. Complete re-save replaces the file, and only then invalidates the readers.
    new_model = make_model({"z": np.arange(10, dtype=np.int16), "a": model.graph.initializers["a"].const_value.numpy().copy()})
    model.graph.initializers["a"].const_value.release()
    new_model.graph.initializers["z"].const_value = ir.Tensor(np.arange(10, dtype=np.int16), name="z")
    # mix: one of the old external tensors is re-saved into its own backing file
    new_model.graph.initializers["a"].const_value = ext[0]
    external_data.unload_from_model(new_model, d, "w.data")
    check(read(data) == np.arange(10, dtype=np.int16).tobytes() + arrays3()["a"].tobytes(), "complete new bytes")
    check(not ext[0].valid(), "re-saved reader of the replaced file invalidated")
    check(ext[1].valid() and ext[2].valid(), "tensors not part of the save left alone")
    check(listing(d) == ["dup.data", "empty.data", "w.data"], "no temporary after replacement")


def sharded_cases(d: str) -> None:
    arrays = {f"t{i}": np.full((100,), i, dtype=np.uint8) for i in range(5)}
    model = make_model(arrays)
    calls = []
    external_data.unload_from_model(
        model, d, "s.data", max_shard_size_bytes=200, callback=lambda t, i: calls.append(i)
    )
    names = ["s-00001-of-00003.data", "s-00002-of-00003.data", "s-00003-of-00003.data"]
    check(listing(d) == names, "three shards written")
    check([(c.index, c.total, c.shard_index, c.shard_total, c.filename) for c in calls] == [
        (0, 5, 0, 2, names[0]), (1, 5, 1, 2, names[0]),
        (2, 5, 0, 2, names[1]), (3, 5, 1, 2, names[1]),
        (4, 5, 0, 1, names[2]),
    ], "callback infos are globally contiguous")
    locs = [v.const_value.location for v in model.graph.initializers.values()]
    check(locs == [names[0], names[0], names[1], names[1], names[2]], "locations per shard")
    before = {n: read(os.path.join(d, n)) for n in names}
    check(before[names[1]] == bytes([2]) * 100 + bytes([3]) * 100, "shard contents")

    # Collision on the LAST shard only: rejected before anything is written, serial and parallel.
    for workers in (None, 4):
        os.remove(os.path.join(d, names[0]))
        os.remove(os.path.join(d, names[1]))
        fresh = make_model(arrays)
        calls.clear()
        try:
            external_data.unload_from_model(
                fresh, d, "s.data", max_shard_size_bytes=200, max_workers=workers,
                callback=lambda t, i: calls.append(i),
            )
        except FileExistsError as e:
            check(names[2] in str(e) and names[0] not in str(e), "error names only the existing shard")
        else:
            check(False, "sharded save must refuse an existing shard")
        check(listing(d) == [names[2]] and read(os.path.join(d, names[2])) == before[names[2]],
              f"refused sharded save wrote nothing (workers={workers})")
        check(calls == [], "no callback before the refusal")
        check(all(isinstance(v.const_value, ir.Tensor) for v in fresh.graph.initializers.values()),
              "model untouched by refused save")
        for n in names[:2]:
            with open(os.path.join(d, n), "wb") as f:
                f.write(before[n])

    # A shard whose callback fails: pre-existing foreign files unchanged, no temporaries.
    with open(os.path.join(d, "foreign.bin"), "wb") as f:
        f.write(b"foreign")
    fresh = make_model(arrays)

    def cb(tensor, info):
        if info.index == 3:
            raise Boom("shard callback")

    try:
        external_data.unload_from_model(fresh, d, "q.data", max_shard_size_bytes=200, callback=cb)
    except Boom:
        pass
    else:
        check(False, "shard callback exception must propagate")
    left = listing(d)
    check(all(not n.startswith(".") for n in left), "no temporary left by failed sharded save")
    check("q-00002-of-00003.data" not in left and "q-00003-of-00003.data" not in left, "failed shard not published")
    check(read(os.path.join(d, "foreign.bin")) == b"foreign", "foreign file unchanged")
    for n in names:
        check(read(os.path.join(d, n)) == before[n], f"pre-existing {n} unchanged")
    for v in model.graph.initializers.values():
        check(v.const_value.valid(), f"reader {v.name} of untouched shard still valid")

    # One shard only: sharded option but a single file keeps the plain name; existing file refused.
    small = make_model({"x": np.arange(10, dtype=np.uint8)})
    external_data.unload_from_model(small, d, "one.data", max_shard_size_bytes=1000)
    check(read(os.path.join(d, "one.data")) == bytes(range(10)), "single shard uses the plain name")
    try:
        external_data.unload_from_model(make_model({"x": np.zeros(10, dtype=np.uint8)}), d, "one.data", max_shard_size_bytes=1000)
    except FileExistsError:
        pass
    else:
        check(False, "sharded save over one.data must be refused")
    check(read(os.path.join(d, "one.data")) == bytes(range(10)), "one.data unchanged after refusal")

    # Rejected option.
    try:
        external_data.unload_from_model(small, d, "one.data", max_shard_size_bytes=0)
    except ValueError:
        pass
    else:
        check(False, "max_shard_size_bytes=0 must be rejected")


def main() -> None:
    with tempfile.TemporaryDirectory() as d1:
        single_file_cases(d1)
    with tempfile.TemporaryDirectory() as d2:
        sharded_cases(d2)
    print("ALL OK")


if __name__ == "__main__":
    main()
