"""Demo for C06: a rejected edit of graph inputs/outputs leaves everything unchanged."""
import copy
import sys

import onnx_ir as ir

print("onnx_ir from", ir.__file__)


def snap_value(v):
    return (
        id(v), v.name, id(v.graph) if v.graph is not None else None,
        v.is_graph_input(), v.is_graph_output(), v.is_initializer(),
        id(v.producer()) if v.producer() is not None else None, v.index(),
        tuple((id(n), i) for n, i in v.uses()),
    )


def snap_graph(g):
    return (
        id(g), g.name,
        tuple(id(v) for v in g.inputs), tuple(id(v) for v in g.outputs),
        tuple(sorted((k, id(v)) for k, v in g.initializers.items())),
        tuple((id(n), n.name, n.op_type, tuple(id(x) if x is not None else None for x in n.inputs),
               tuple(id(x) for x in n.outputs), id(n.graph) if n.graph is not None else None) for n in g),
    )


def snapshot(graphs, values):
    return (tuple(snap_graph(g) for g in graphs), tuple(snap_value(v) for v in values))


def build():
    a, b, c = ir.Value(name="a"), ir.Value(name="b"), ir.Value(name="c")
    n1 = ir.Node("", "Add", [a, b], name="n1")
    n1.outputs[0].name = "y"
    n2 = ir.Node("", "Relu", [n1.outputs[0]], name="n2")
    n2.outputs[0].name = "z"
    # duplicated input a and duplicated output z are allowed in the list
    g = ir.Graph([a, b, a], [n2.outputs[0], n2.outputs[0]], nodes=[n1, n2], name="g")
    w = ir.Value(name="w", const_value=ir.tensor([1.0], name="w"))
    g.initializers.add(w)
    # a second graph owning foreign values
    fa = ir.Value(name="fa")
    fn = ir.Node("", "Neg", [fa], name="fn")
    fn.outputs[0].name = "fo"
    other = ir.Graph([fa], [fn.outputs[0]], nodes=[fn], name="other")
    free1, free2 = ir.Value(name="free1"), ir.Value(name="free2")
    values = [a, b, c, n1.outputs[0], n2.outputs[0], w, fa, fn.outputs[0], free1, free2]
    return g, other, values


failures = []


def expect_rejected(label, exc_types, fn):
    g, other, values = build()
    before = snapshot([g, other], values)
    try:
        fn(g, other, values)
    except exc_types as e:
        after = snapshot([g, other], values)
        if before != after:
            failures.append(f"{label}: state changed after rejected call ({type(e).__name__})")
        else:
            print(f"ok   rejected {label}: {type(e).__name__}")
        return
    failures.append(f"{label}: call was not rejected")


def V(values, name):
    return next(v for v in values if v.name == name)


# --- rejected calls, bad element at every position of a multi-element argument
for pos in range(3):
    def ext_in(g, other, values, pos=pos):
        args = [V(values, "free1"), V(values, "free2"), V(values, "c")]
        args[pos] = V(values, "fa")  # owned by the other graph
        g.inputs.extend(iter(args))  # generator-like argument
    expect_rejected(f"inputs.extend foreign@{pos}", ValueError, ext_in)

    def ext_in_prod(g, other, values, pos=pos):
        args = [V(values, "free1"), V(values, "free1"), V(values, "c")]  # duplicate free1
        args[pos] = V(values, "y")  # produced by a node
        g.inputs.extend(args)
    expect_rejected(f"inputs.extend produced@{pos}", ValueError, ext_in_prod)

    def ext_out(g, other, values, pos=pos):
        args = [V(values, "y"), V(values, "free2"), V(values, "y")]
        args[pos] = V(values, "fo")
        g.outputs.extend(args)
    expect_rejected(f"outputs.extend foreign@{pos}", ValueError, ext_out)

    def set_slice(g, other, values, pos=pos):
        args = [V(values, "free1"), V(values, "a"), V(values, "free2")]
        args[pos] = V(values, "fa")
        g.inputs[0:2] = args
    expect_rejected(f"inputs[0:2]= foreign@{pos}", ValueError, set_slice)

    def set_ext_slice(g, other, values, pos=pos):
        args = [V(values, "free1"), V(values, "free2")]
        args[pos % 2] = V(values, "fo")
        g.outputs[::-1] = args
    expect_rejected(f"outputs[::-1]= foreign@{pos % 2}", ValueError, set_ext_slice)

    def new_graph(g, other, values, pos=pos):
        args = [V(values, "free1"), V(values, "free2"), V(values, "c")]
        args[pos] = V(values, "fa")
        ir.Graph(args, [], nodes=[], name="never")
    expect_rejected(f"Graph(inputs=...) foreign@{pos}", ValueError, new_graph)

expect_rejected("inputs[::2]= wrong size", ValueError,
                lambda g, o, vs: g.inputs.__setitem__(slice(None, None, 2), [V(vs, "free1")]))
expect_rejected("inputs[1]= foreign", ValueError,
                lambda g, o, vs: g.inputs.__setitem__(1, V(vs, "fa")))
expect_rejected("inputs[-1]= produced", ValueError,
                lambda g, o, vs: g.inputs.__setitem__(-1, V(vs, "z")))
expect_rejected("outputs[0]= foreign", ValueError,
                lambda g, o, vs: g.outputs.__setitem__(0, V(vs, "fo")))
expect_rejected("inputs[7]= out of range", IndexError,
                lambda g, o, vs: g.inputs.__setitem__(7, V(vs, "free1")))
expect_rejected("inputs['x']= bad index type", TypeError,
                lambda g, o, vs: g.inputs.__setitem__("x", V(vs, "free1")))
expect_rejected("inputs[0:1]= non-iterable", TypeError,
                lambda g, o, vs: g.inputs.__setitem__(slice(0, 1), V(vs, "free1")))
expect_rejected("del inputs[9]", IndexError, lambda g, o, vs: g.inputs.__delitem__(9))
expect_rejected("inputs.append foreign", ValueError, lambda g, o, vs: g.inputs.append(V(vs, "fa")))
expect_rejected("inputs.insert produced", ValueError, lambda g, o, vs: g.inputs.insert(0, V(vs, "y")))
expect_rejected("inputs.remove absent", ValueError, lambda g, o, vs: g.inputs.remove(V(vs, "free1")))
expect_rejected("outputs.pop(5)", IndexError, lambda g, o, vs: g.outputs.pop(5))
expect_rejected("inputs + list", RuntimeError, lambda g, o, vs: g.inputs + [V(vs, "free1")])


def failing_gen(g, o, vs):
    def gen():
        yield V(vs, "free1")
        raise KeyError("generator fails half-way")
    g.inputs[0:1] = gen()


expect_rejected("inputs[0:1]= failing generator", KeyError, failing_gen)

# --- accepted calls: results and ownership bookkeeping (duplicates, empty inputs, aliasing)
g, other, values = build()
a, b, c, y, z, w, fa, fo, free1, free2 = values
g.inputs.extend([])                      # empty
g.inputs[0:0] = ()                       # empty slice, empty argument
assert list(g.inputs) == [a, b, a]
g.inputs[0:1] = [free1, free1]           # duplicates; a is still referenced once
assert list(g.inputs) == [free1, free1, b, a]
assert a.is_graph_input() and a.graph is g and free1.graph is g and free1.is_graph_input()
del g.inputs[0]
assert free1.is_graph_input() and free1.graph is g
del g.inputs[0:1]
assert not free1.is_graph_input() and free1.graph is None
g.inputs[1] = a                          # replace by itself
assert list(g.inputs) == [b, a] and a.is_graph_input() and a.graph is g
g.inputs[0:2] = g.inputs                 # aliasing: assign the container to its own slice
assert list(g.inputs) == [b, a] and a.graph is g and b.graph is g
g.inputs[::-1] = [b, a]                  # extended slice, same size -> order [a, b]
assert list(g.inputs) == [a, b]
g.outputs[1:] = [y]
assert list(g.outputs) == [z, y] and y.is_graph_output() and z.is_graph_output()
g.outputs.extend(v for v in (y, free2))  # generator
assert list(g.outputs) == [z, y, y, free2] and free2.graph is g
g.outputs.pop()
assert free2.graph is None and not free2.is_graph_output()
g.outputs.remove(y)
assert y.is_graph_output()
g.outputs.remove(y)
assert not y.is_graph_output() and y.graph is g  # still produced by a node of g
plain = copy.copy(g.inputs)
assert type(plain) is list and plain == [a, b]
g.inputs.clear()
assert list(g.inputs) == [] and not a.is_graph_input() and a.graph is None and b.graph is None
g.inputs.clear()                         # clearing an empty container
other.inputs.clear()
g.inputs.append(fa)                      # now free, can be taken
assert fa.graph is g and fa.is_graph_input()
g2 = ir.Graph(iter([a, b, a]), [], nodes=[], name="g2")
assert list(g2.inputs) == [a, b, a] and a.graph is g2
g2.inputs[:] = []
assert a.graph is None and not a.is_graph_input() and list(g2.inputs) == []
print("ok   accepted calls behave as expected")

if failures:
    print("\n".join("FAIL " + f for f in failures))
    sys.exit(1)
print("ALL OK")
