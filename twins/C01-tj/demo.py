"""Demo for property C01: use-def and ownership links stay consistent.

Exercises Node.replace_input_with / resize_inputs / resize_outputs,
Value.replace_all_uses_with and Graph.append / extend / insert_after /
insert_before / remove, including rejected calls, duplicates, empty inputs
and a nested subgraph, and checks both directions of every link after
every step.
"""

import sys

import onnx_ir as ir

CHECKS = 0


def check(graphs, nodes, values):
    """Assert the two-way consistency of all links among the given objects."""
    global CHECKS
    CHECKS += 1
    # value.uses() <-> node.inputs
    for v in values:
        uses = list(v.uses())
        assert len(uses) == len(set(uses)), f"duplicate use on {v!r}"
        for n, i in uses:
            assert 0 <= i < len(n.inputs) and n.inputs[i] is v, (v, n, i)
    for n in nodes:
        for i, v in enumerate(n.inputs):
            if v is not None:
                assert any(un is n and ui == i for un, ui in v.uses()), (n, i)
                assert v in values, "demo bookkeeping: unknown value"
        # outputs <-> producer
        for i, o in enumerate(n.outputs):
            assert o.producer() is n and o.index() == i, (n, i)
        # node.graph <-> membership
        count = sum(1 for g in graphs for m in g if m is n)
        if n.graph is None:
            assert count == 0, n
        else:
            assert count == 1 and sum(1 for m in n.graph if m is n) == 1, n
    for v in values:
        p = v.producer()
        if p is not None:
            assert p.outputs[v.index()] is v
    for g in graphs:
        for m in g:
            assert m.graph is g
        for v in g.inputs:
            assert v.is_graph_input() and v.graph is g and v.producer() is None
        for v in g.outputs:
            assert v.is_graph_output()
        for name, v in g.initializers.items():
            assert v.is_initializer() and v.name == name and v.producer() is None
    for v in values:
        if v.is_graph_input():
            assert any(w is v for g in graphs for w in g.inputs)
        if v.is_graph_output():
            assert any(w is v for g in graphs for w in g.outputs)
        if v.is_initializer():
            assert any(w is v for g in graphs for w in g.initializers.values())


def expect_raises(exc, fn, *args, **kwargs):
    try:
        fn(*args, **kwargs)
    except exc:
        return
    raise AssertionError(f"{fn} did not raise {exc}")


def main():
    a = ir.Value(name="a")
    b = ir.Value(name="b")
    w = ir.Value(name="w", const_value=ir.tensor([1.0], name="w"))
    n1 = ir.Node("", "Add", [a, a, None, b], name="n1")  # duplicate + None input
    n2 = ir.Node("", "Mul", [n1.outputs[0], a], num_outputs=2, name="n2")
    n3 = ir.Node("", "Relu", [n2.outputs[1]], name="n3")
    n4 = ir.Node("", "Neg", [], name="n4")  # no inputs at all

    # Nested subgraph that refers to an outer value
    inner_in = ir.Value(name="inner_in")
    inner_node = ir.Node("", "Sub", [inner_in, n1.outputs[0]], name="inner")
    inner = ir.Graph(
        [inner_in], [inner_node.outputs[0]], nodes=[inner_node], name="inner_graph"
    )
    n5 = ir.Node(
        "", "If", [b], attributes=[ir.AttrGraph("then_branch", inner)], name="n5"
    )

    g = ir.Graph(
        [a, b], [n3.outputs[0]], nodes=[n1, n2], initializers=[w], name="main"
    )
    other = ir.Graph([], [], nodes=[], name="other")
    graphs = [g, other, inner]
    nodes = [n1, n2, n3, n4, n5, inner_node]
    values = [a, b, w, inner_in]

    def refresh_values():
        for n in nodes:
            for o in n.outputs:
                if not any(o is v for v in values):
                    values.append(o)

    def step():
        refresh_values()
        check(graphs, nodes, values)

    step()

    # --- Graph.append / extend / insert_* -------------------------------
    g.append(n3)
    step()
    g.extend([])  # empty input
    step()
    other.append(n4)
    step()
    # rejected: one node of the batch belongs to another graph; nothing may change
    before = (list(g), n5.graph, n4.graph)
    expect_raises(ValueError, g.extend, iter([n5, n4]))
    assert (list(g), n5.graph, n4.graph) == before
    step()
    expect_raises(ValueError, g.insert_after, n1, [n5, n4])
    assert (list(g), n5.graph, n4.graph) == before
    step()
    expect_raises(ValueError, g.insert_before, n1, (x for x in [n5, n4]))
    assert (list(g), n5.graph, n4.graph) == before
    step()
    # rejected: anchor not in this graph
    expect_raises(ValueError, g.insert_after, n4, [n5])
    assert n5.graph is None
    step()
    expect_raises(ValueError, g.insert_before, n5, n5)
    assert n5.graph is None
    step()
    # accepted: single node, not wrapped in a list
    g.insert_before(n2, n5)
    assert [n.name for n in g] == ["n1", "n5", "n2", "n3"]
    step()
    # move a node that is already in this graph
    g.insert_after(n3, [n1])
    assert [n.name for n in g] == ["n5", "n2", "n3", "n1"]
    step()
    g.insert_before(n5, [n1])
    assert [n.name for n in g] == ["n1", "n5", "n2", "n3"]
    step()
    g.insert_after(n1, [])  # empty input
    g.insert_before(n1, ())
    step()
    # re-appending and extending with members moves them to the end
    g.append(n1)
    g.extend([n5, n1])
    assert [n.name for n in g] == ["n2", "n3", "n5", "n1"]
    step()
    g.insert_before(n2, [n1, n5])
    assert [n.name for n in g] == ["n1", "n5", "n2", "n3"]
    step()
    # move between graphs the legal way
    other.remove(n4)
    assert n4.graph is None
    step()
    g.insert_after(n3, n4)
    assert n4.graph is g and list(other) == []
    step()

    # --- Node.replace_input_with -----------------------------------------
    expect_raises(ValueError, n1.replace_input_with, 4, b)
    expect_raises(ValueError, n1.replace_input_with, -1, b)
    expect_raises(ValueError, n4.replace_input_with, 0, b)  # node without inputs
    step()
    n1.replace_input_with(0, a)  # replace with itself: exactly one use stays
    assert list(a.uses()).count((n1, 0)) == 1
    step()
    n1.replace_input_with(2, w)  # None -> value
    step()
    n1.replace_input_with(1, None)  # value -> None (other duplicate use remains)
    assert (n1, 0) in a.uses() and (n1, 1) not in a.uses()
    step()
    n1.replace_input_with(1, None)  # None -> None
    step()
    n1.replace_input_with(3, a)  # b -> a, a now used at 0 and 3
    assert not any(un is n1 for un, _ in b.uses())
    step()

    # --- resize_inputs / resize_outputs ----------------------------------
    n1.resize_inputs(6)
    assert n1.inputs[4] is None and n1.inputs[5] is None
    step()
    n1.replace_input_with(5, b)
    n1.resize_inputs(1)
    assert len(n1.inputs) == 1 and not any(un is n1 for un, _ in b.uses())
    assert [tuple(u) for u in a.uses() if u[0] is n1] == [(n1, 0)]
    step()
    n1.resize_inputs(1)
    n4.resize_inputs(0)
    step()
    expect_raises(ValueError, n2.resize_outputs, 1)  # removed output still has a use
    assert len(n2.outputs) == 2 and n2.outputs[1].producer() is n2
    step()
    n2.resize_outputs(4)
    extra = list(n2.outputs[2:])
    step()
    n2.resize_outputs(2)
    assert all(o.producer() is None for o in extra)
    step()
    n2.resize_outputs(2)
    step()

    # --- replace_all_uses_with -------------------------------------------
    n1_out = n1.outputs[0]
    n1_out.replace_all_uses_with(a)  # also rewrites the use inside the subgraph
    assert not n1_out.uses() and inner_node.inputs[1] is a
    step()
    expect_raises(ValueError, n3.outputs[0].replace_all_uses_with, a)  # graph output
    step()
    a.replace_all_uses_with(a)  # onto itself
    step()
    n2.outputs[1].replace_all_uses_with(n2.outputs[0])
    n2.resize_outputs(1)
    step()

    # --- Graph.remove ------------------------------------------------------
    expect_raises(ValueError, other.remove, n1)  # wrong graph
    expect_raises(ValueError, g.remove, [n4, inner_node])  # one foreign node
    assert n4.graph is g
    expect_raises(ValueError, g.remove, n2, safe=True)  # still used by n3
    assert n2.graph is g
    step()
    g.remove([n4, n4])  # duplicates in the argument
    assert n4.graph is None
    step()
    g.remove([n2, n3, n5][:0])  # empty
    g.outputs.clear()
    step()
    g.remove([n2, n3], safe=True)
    assert n2.graph is None and n3.graph is None
    assert all(v is None for v in n2.inputs) and all(v is None for v in n3.inputs)
    assert [n.name for n in g] == ["n1", "n5"]
    step()
    other.extend([n3, n2])
    assert [n.name for n in other] == ["n3", "n2"]
    step()

    print(f"OK: {CHECKS} consistency checks passed")
    return 0


if __name__ == "__main__":
    sys.exit(main())
