"""Demo for C01: ownership links of graph inputs/outputs/initializers and replace_all_uses_with."""
import onnx_ir as ir


def check(graphs, values, nodes):
    """Both directions of every relationship agree."""
    for g in graphs:
        ins, outs, inits = list(g.inputs), list(g.outputs), dict(g.initializers)
        for name, v in inits.items():
            assert v.name == name, (name, v.name)
        for v in values:
            in_g = v._graph is g
            assert (v.is_graph_input() and in_g) == any(x is v for x in ins), v
            assert (v.is_graph_output() and in_g) == any(x is v for x in outs), v
            assert (v.is_initializer() and in_g) == any(x is v for x in inits.values()), v
        for v in ins + list(inits.values()):
            assert v.producer() is None
        seq = list(g)
        assert len(seq) == len({id(n) for n in seq})
        for n in nodes:
            assert (n.graph is g) == any(m is n for m in seq)
    for v in values:
        owned = v.is_graph_input() or v.is_graph_output() or v.is_initializer()
        assert owned == (v._graph is not None), v
        assert len(set(v.uses())) == len(v.uses())
        for node, idx in v.uses():
            assert node.inputs[idx] is v
    for n in nodes:
        for i, x in enumerate(n.inputs):
            if x is not None:
                assert (n, i) in x.uses()
        for i, o in enumerate(n.outputs):
            assert o.producer() is n and o.index() == i


def expect(exc, fn):
    try:
        fn()
    except exc:
        return
    raise AssertionError(f"{exc.__name__} not raised")


def main():
    a = ir.Value(name="a")
    b = ir.Value(name="b")
    w = ir.Value(name="w", const_value=ir.tensor([1.0], name="w"))
    n1 = ir.Node("", "Add", [a, w])
    n2 = ir.Node("", "Mul", [n1.outputs[0], n1.outputs[0]])
    y = n2.outputs[0]
    # 'a' is input, output (twice) and initializer at the same time
    g = ir.Graph([a, b], [y, a, a], nodes=[n1, n2], initializers=[w], name="g")
    g.initializers["a"] = a
    other = ir.Graph([], [], nodes=[], name="other")
    values = [a, b, w, y, n1.outputs[0]]
    nodes = [n1, n2]
    graphs = [g, other]
    check(graphs, values, nodes)

    # Roles are dropped one by one; the graph link stays until the last one is gone
    g.inputs.remove(a)
    check(graphs, values, nodes)
    assert a.graph is g and not a.is_graph_input()
    del g.initializers["a"]
    check(graphs, values, nodes)
    assert a.graph is g and a.is_graph_output()
    g.outputs.pop()  # one of the two listings
    check(graphs, values, nodes)
    assert a.is_graph_output() and a.graph is g

    # Rejected calls change nothing
    expect(KeyError, lambda: g.initializers.__delitem__("missing"))
    expect(TypeError, lambda: g.initializers.__delitem__([]))
    expect(ValueError, lambda: other.initializers.__setitem__("w", w))
    expect(ValueError, lambda: g.initializers.__setitem__("w", y))  # produced by a node
    expect(ValueError, lambda: g.initializers.__setitem__("zzz", w))  # key != name
    expect(ValueError, lambda: other.outputs.append(a))
    check(graphs, values, nodes)

    # Overwrite an entry: the old occupant is released, also when it is the same object
    w2 = ir.Value(name="w", const_value=ir.tensor([2.0], name="w"))
    values.append(w2)
    g.initializers["w"] = w2
    check(graphs, values, nodes)
    assert w.graph is None and not w.is_initializer() and w2.graph is g
    g.initializers["w"] = w2
    check(graphs, values, nodes)
    assert w2.is_initializer() and w2.graph is g
    # an unnamed value is named after its key
    u = ir.Value()
    values.append(u)
    g.initializers["u"] = u
    assert u.name == "u"
    check(graphs, values, nodes)
    g.initializers.pop("u")
    assert u.graph is None
    check(graphs, values, nodes)

    # replace_all_uses_with: refused for a graph output unless asked for
    expect(ValueError, lambda: a.replace_all_uses_with(b))
    check(graphs, values, nodes)
    assert list(g.outputs) == [y, a] and a.uses() == ((n1, 0),)
    # 'a' listed twice again, then replaced everywhere
    g.outputs.append(a)
    a.replace_all_uses_with(b, replace_graph_outputs=True)
    check(graphs, values, nodes)
    assert [o is b for o in g.outputs] == [False, True, True]
    assert a.graph is None and not a.uses() and n1.inputs[0] is b
    # the replacement belongs to another graph: rejected half-way, links still agree
    foreign = ir.Value(name="foreign")
    values.append(foreign)
    other.inputs.append(foreign)
    expect(ValueError, lambda: b.replace_all_uses_with(foreign, replace_graph_outputs=True))
    check(graphs, values, nodes)
    # value used twice by the same node, not an output
    t = n1.outputs[0]
    assert len(t.uses()) == 2
    t.replace_all_uses_with(w2)
    check(graphs, values, nodes)
    assert n2.inputs == (w2, w2) and not t.uses() and len(w2.uses()) == 2
    # replacing with itself and a value without uses are no-ops
    w2.replace_all_uses_with(w2)
    t.replace_all_uses_with(b)
    check(graphs, values, nodes)

    g.initializers.clear()
    g.outputs.clear()
    g.inputs.clear()
    check(graphs, values, nodes)
    assert all(v.graph is None for v in (a, b, w, w2, u))
    print("demo OK")


if __name__ == "__main__":
    main()
