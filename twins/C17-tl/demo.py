"""Demo for C17: deserialization of types, shapes and external tensors terminates
with an error or a consistent IR, and touches no file."""
import sys

import onnx
from onnx import TensorProto, TensorShapeProto, TypeProto, helper

import onnx_ir as ir
from onnx_ir import serde

# ---- file-access watchdog -------------------------------------------------
_watch = {"on": False, "events": []}


def _hook(event, args):
    if _watch["on"] and event in ("open", "os.listdir", "os.scandir", "os.mkdir", "os.remove"):
        _watch["events"].append((event, args[0] if args else None))


sys.addaudithook(_hook)


class no_file_access:
    def __enter__(self):
        _watch["events"].clear()
        _watch["on"] = True

    def __exit__(self, *exc):
        _watch["on"] = False
        assert not _watch["events"], f"file access: {_watch['events']}"
        return False


def expect_serde_error(fn, *args, cause=None):
    try:
        fn(*args)
    except serde.SerdeError as e:
        if cause is not None:
            root = e
            while root.__cause__ is not None:
                root = root.__cause__
            assert isinstance(root, cause), (type(root), root)
        return e
    raise AssertionError(f"{fn.__name__} did not raise")


# ---- shapes ---------------------------------------------------------------
def make_shape(*dims):
    sp = TensorShapeProto()
    for d in dims:
        dp = sp.dim.add()
        if isinstance(d, tuple):
            d, den = d
            dp.denotation = den
        if isinstance(d, int):
            dp.dim_value = d
        elif isinstance(d, str):
            dp.dim_param = d
        # None: neither set
    return sp


with no_file_access():
    s = serde.deserialize_tensor_shape(make_shape())
    assert s.rank() == 0 and list(s) == [] and s.frozen
    s = serde.deserialize_tensor_shape(make_shape(2, "N", None, (3, "CH"), ("", "E"), -7, 2, "N"))
    assert s.rank() == 8 and s.frozen
    assert s[0] == 2 and s[3] == 3 and s[5] == -7 and s[6] == 2
    assert isinstance(s[1], ir.SymbolicDim) and s[1].value == "N" and s[7].value == "N"
    assert isinstance(s[2], ir.SymbolicDim) and s[2].value is None
    assert isinstance(s[4], ir.SymbolicDim) and s[4].value == ""
    assert [s.get_denotation(i) for i in range(8)] == [None, None, None, "CH", "E", None, None, None]


# ---- type protos ----------------------------------------------------------
def tensor_tp(elem=None, shape=None, sparse=False, denotation=None):
    tp = TypeProto()
    sub = tp.sparse_tensor_type if sparse else tp.tensor_type
    sub.SetInParent()
    if elem is not None:
        sub.elem_type = elem
    if shape is not None:
        sub.shape.CopyFrom(shape)
    if denotation is not None:
        tp.denotation = denotation
    return tp


def wrap(kind, inner=None):
    tp = TypeProto()
    sub = getattr(tp, kind)
    sub.SetInParent()
    if inner is not None:
        sub.elem_type.CopyFrom(inner)
    return tp


with no_file_access():
    f_shape, f_type = serde.deserialize_type_proto_for_shape, serde.deserialize_type_proto_for_type
    # empty TypeProto: nothing known
    assert f_shape(TypeProto()) is None and f_type(TypeProto()) is None
    # tensor type present but both elem_type and shape missing
    assert f_shape(tensor_tp()) is None and f_type(tensor_tp()) is None
    # tensor / sparse tensor with shape
    for sparse in (False, True):
        tp = tensor_tp(TensorProto.FLOAT, make_shape(1, "M"), sparse=sparse, denotation="D")
        sh, ty = f_shape(tp), f_type(tp)
        assert sh.rank() == 2 and sh[0] == 1 and sh[1].value == "M"
        assert isinstance(ty, ir.SparseTensorType if sparse else ir.TensorType)
        assert ty.dtype == ir.DataType.FLOAT and ty.denotation == "D"
        # empty shape [] is not the same as a missing shape
        assert f_shape(tensor_tp(TensorProto.FLOAT, make_shape(), sparse=sparse)).rank() == 0
        assert f_shape(tensor_tp(TensorProto.FLOAT, sparse=sparse)) is None
    # nesting: optional(sequence(sequence(tensor)))
    inner = tensor_tp(TensorProto.INT64, make_shape("a", 5))
    nested = wrap("optional_type", wrap("sequence_type", wrap("sequence_type", inner)))
    sh, ty = f_shape(nested), f_type(nested)
    assert sh.rank() == 2 and sh[1] == 5
    assert isinstance(ty, ir.OptionalType) and isinstance(ty.elem_type, ir.SequenceType)
    assert isinstance(ty.elem_type.elem_type.elem_type, ir.TensorType)
    rt = serde.serialize_type(ty)
    assert f_type(rt) == ty
    # wrapper without elem_type: shape unknown, type rejected
    for kind in ("sequence_type", "optional_type"):
        assert f_shape(wrap(kind)) is None
        expect_serde_error(f_type, wrap(kind), cause=ValueError)
        assert f_shape(wrap(kind, wrap(kind))) is None
        assert f_shape(wrap(kind, tensor_tp(TensorProto.FLOAT))) is None
    # map type rejected by both, also when nested (error chain goes through every level)
    mp = TypeProto()
    mp.map_type.key_type = TensorProto.INT64
    for f in (f_shape, f_type):
        expect_serde_error(f, mp, cause=NotImplementedError)
        e = expect_serde_error(f, wrap("sequence_type", wrap("optional_type", mp)), cause=NotImplementedError)
        depth, x = 0, e
        while isinstance(x, serde.SerdeError):
            depth, x = depth + 1, x.__cause__
        assert depth == 3, depth
        assert f.__name__ in str(e)
    # opaque type: ignored
    op = TypeProto()
    op.opaque_type.domain = "d"
    assert f_shape(op) is None and f_type(op) is None
    # unknown element type enum
    expect_serde_error(f_type, tensor_tp(9999, make_shape(1)), cause=ValueError)
    assert f_shape(tensor_tp(9999, make_shape(1))).rank() == 1
    # not a TypeProto at all: rejected
    expect_serde_error(f_shape, TensorProto())
    expect_serde_error(serde.deserialize_tensor_shape, TypeProto())


# ---- external tensors -----------------------------------------------------
def ext_tensor(entries, name="w", dims=(2, 3), dtype=TensorProto.FLOAT, meta=None):
    tp = TensorProto()
    if name is not None:
        tp.name = name
    tp.data_type = dtype
    tp.dims.extend(dims)
    tp.data_location = TensorProto.EXTERNAL
    for k, v in entries:
        e = tp.external_data.add()
        e.key, e.value = k, v
    for k, v in (meta or {}).items():
        e = tp.metadata_props.add()
        e.key, e.value = k, v
    return tp


with no_file_access():
    t = serde.deserialize_tensor(
        ext_tensor([("location", "/nonexistent/dir/../../etc/passwd"), ("offset", "99999999999999"),
                    ("length", "24"), ("checksum", "zz"), ("location", "second.bin")], meta={"k": "v"}),
        "/also/not/there",
    )
    assert isinstance(t, ir.ExternalTensor)
    assert t.name == "w" and t.dtype == ir.DataType.FLOAT and t.shape == ir.Shape([2, 3])
    assert t.size == 6 and t.nbytes == 24
    assert t.location == "second.bin" and t.offset == 99999999999999 and t.length == 24
    assert t.base_dir == "/also/not/there" and t.metadata_props == {"k": "v"}
    repr(t.shape), str(t.dtype)
    # no entries at all, no name, empty dims
    t = serde.deserialize_tensor(ext_tensor([], name=None, dims=()))
    assert isinstance(t, ir.ExternalTensor) and t.name is None and t.shape.rank() == 0 and t.size == 1
    assert t.offset is None and t.length is None and t.base_dir == ""
    # absurd entries
    e = expect_serde_error(serde.deserialize_tensor, ext_tensor([("location", "a"), ("offset", "abc")]), "", cause=ValueError)
    assert "deserialize_tensor" in str(e) and str(e).endswith(": w")
    expect_serde_error(serde.deserialize_tensor, ext_tensor([("location", "a"), ("length", "1e3")]), "base", cause=ValueError)
    expect_serde_error(serde.deserialize_tensor, ext_tensor([("location", "a")], dtype=4242), "", cause=ValueError)
    expect_serde_error(serde.deserialize_tensor, ext_tensor([("location", "a"), ("offset", "-5")]), "", cause=ValueError)
    t = serde.deserialize_tensor(ext_tensor([("location", ""), ("offset", "0"), ("length", "0")], dims=(0, 7)), "")
    assert t.offset == 0 and t.length == 0 and t.name == "w" and t.dtype == ir.DataType.FLOAT and t.size == 0
    # non-external tensors still take the other routes
    st = TensorProto(name="s", data_type=TensorProto.STRING, dims=[2], string_data=[b"a", b"\xff"])
    assert isinstance(serde.deserialize_tensor(st), ir.StringTensor)
    assert isinstance(serde.deserialize_tensor(helper.make_tensor("c", TensorProto.INT32, [1], [7])), serde.TensorProtoTensor)

# ---- whole model: consistent IR and serialization fixed point -------------
seq_tp = wrap("sequence_type", tensor_tp(TensorProto.FLOAT, make_shape("N", (4, "C"))))
g = helper.make_graph(
    [
        helper.make_node("Add", ["x", "w"], ["y"], name="n0"),
        helper.make_node("SequenceConstruct", ["y", "y"], ["s"], name="n1"),
        helper.make_node("Identity", ["dangling"], ["y2"], name="n2", tp=tensor_tp(TensorProto.FLOAT, make_shape()),),
    ],
    "g",
    [helper.make_tensor_value_info("x", TensorProto.FLOAT, ["N", 4])],
    [onnx.ValueInfoProto(name="s", type=seq_tp), onnx.ValueInfoProto(name="y2")],
    initializer=[ext_tensor([("location", "missing.bin"), ("offset", "0"), ("length", "16")], dims=(4,))],
    value_info=[
        onnx.ValueInfoProto(name="y", type=tensor_tp(None, make_shape(None, 4))),
        onnx.ValueInfoProto(name="y", type=tensor_tp(TensorProto.FLOAT)),  # duplicate
        onnx.ValueInfoProto(name="nobody", type=wrap("optional_type", tensor_tp(TensorProto.BOOL, sparse=True))),
    ],
)
mproto = helper.make_model(g, opset_imports=[helper.make_opsetid("", 21)])
with no_file_access():
    model = serde.deserialize_model(mproto)
    for node in model.graph:
        assert node.graph is model.graph
        for i, v in enumerate(node.inputs):
            if v is not None:
                assert (node, i) in v.uses()
        for i, v in enumerate(node.outputs):
            assert v.producer() is node and v.index() == i
    w = model.graph.initializers["w"]
    assert w.const_value.name == "w" and w.const_value.shape == ir.Shape([4]) and w.const_value.size == 4
    assert w.const_value.dtype == ir.DataType.FLOAT
    out_s = model.graph.outputs[0]
    assert isinstance(out_s.type, ir.SequenceType) and out_s.shape.rank() == 2
    assert out_s.shape.get_denotation(1) == "C"
    p1 = serde.serialize_model(model)
    p2 = serde.serialize_model(serde.deserialize_model(p1))
    assert p1.SerializeToString(deterministic=True) == p2.SerializeToString(deterministic=True)

# a graph input with an unsupported type makes the whole model be rejected
bad = onnx.ModelProto()
bad.CopyFrom(mproto)
bad.graph.input.add(name="extra").type.CopyFrom(wrap("sequence_type"))
with no_file_access():
    expect_serde_error(serde.deserialize_model, bad, cause=ValueError)

print("demo OK")
