"""C04 demo: the torch framework adapter agrees with the array-backed tensor and the ONNX reference.

Exercises onnx_ir.tensor_adapters (TorchTensor.numpy/tobytes/tofile, from_torch_dtype,
to_torch_dtype) through the public API for many dtypes and shapes, plus rejected calls.
"""
import io
import math
import os
import tempfile

import ml_dtypes
import numpy as np
import onnx
import onnx.numpy_helper
import torch

import onnx_ir as ir
from onnx_ir import tensor_adapters

checks = 0


def ok(cond, msg):
    global checks
    checks += 1
    if not cond:
        raise SystemExit(f"FAIL: {msg}")


def same_bits(a: np.ndarray, b: np.ndarray) -> bool:
    return a.dtype == b.dtype and a.shape == b.shape and a.tobytes() == b.tobytes()


# (torch dtype, ir dtype, torch dtype of same width used to build bit patterns)
CASES = [
    (torch.bfloat16, ir.DataType.BFLOAT16, torch.uint16),
    (torch.float8_e4m3fn, ir.DataType.FLOAT8E4M3FN, torch.uint8),
    (torch.float8_e4m3fnuz, ir.DataType.FLOAT8E4M3FNUZ, torch.uint8),
    (torch.float8_e5m2, ir.DataType.FLOAT8E5M2, torch.uint8),
    (torch.float8_e5m2fnuz, ir.DataType.FLOAT8E5M2FNUZ, torch.uint8),
    (torch.float16, ir.DataType.FLOAT16, torch.uint16),
    (torch.float32, ir.DataType.FLOAT, torch.uint32),
    (torch.float64, ir.DataType.DOUBLE, torch.uint64),
    (torch.int8, ir.DataType.INT8, torch.uint8),
    (torch.uint8, ir.DataType.UINT8, torch.uint8),
    (torch.int16, ir.DataType.INT16, torch.uint16),
    (torch.uint16, ir.DataType.UINT16, torch.uint16),
    (torch.int32, ir.DataType.INT32, torch.uint32),
    (torch.uint32, ir.DataType.UINT32, torch.uint32),
    (torch.int64, ir.DataType.INT64, torch.uint64),
    (torch.uint64, ir.DataType.UINT64, torch.uint64),
]
if hasattr(torch, "float8_e8m0fnu"):
    CASES.append((torch.float8_e8m0fnu, ir.DataType.FLOAT8E8M0, torch.uint8))

SHAPES = [(), (0,), (1,), (7,), (3, 5), (2, 0, 3), (1, 2, 1, 3, 1, 2)]

tmpdir = tempfile.mkdtemp(prefix="c04tq_")
rng = np.random.default_rng(1234)

for torch_dtype, ir_dtype, bits_torch in CASES:
    ok(tensor_adapters.from_torch_dtype(torch_dtype) == ir_dtype, f"from_torch_dtype {torch_dtype}")
    ok(tensor_adapters.to_torch_dtype(ir_dtype) == torch_dtype, f"to_torch_dtype {ir_dtype}")
    # element-type tables are mutually consistent
    ok(ir_dtype.bitwidth == bits_torch.itemsize * 8, f"bitwidth {ir_dtype}")
    ok(ir_dtype.itemsize == ir_dtype.numpy().itemsize, f"itemsize {ir_dtype}")
    ok(ir.DataType.from_numpy(ir_dtype.numpy()) == ir_dtype, f"numpy type {ir_dtype}")
    ok(ir.DataType.from_short_name(ir_dtype.short_name()) == ir_dtype, f"short name {ir_dtype}")
    for shape in SHAPES:
        size = math.prod(shape)
        width = bits_torch.itemsize
        # random bit patterns: covers extreme, subnormal, inf and nan encodings
        raw = rng.integers(0, 256, size=size * width, dtype=np.uint8)
        if size >= 2:
            raw[:width] = 0xFF  # all ones (nan / -1 / max)
            raw[width : 2 * width] = 0x00
        np_bits = raw.view(np.dtype(f"<u{width}")).reshape(shape)
        t_bits = torch.from_numpy(np_bits.copy())
        t = t_bits.view(torch_dtype) if shape != () else t_bits.reshape(1).view(torch_dtype).reshape(())
        expected = np_bits.view(ir_dtype.numpy()) if shape != () else np_bits.reshape(1).view(ir_dtype.numpy()).reshape(())
        label = f"{ir_dtype} {shape}"

        adapter = tensor_adapters.TorchTensor(t, name="w")
        plain = ir.Tensor(expected, dtype=ir_dtype, name="w")

        ok(adapter.dtype == ir_dtype and plain.dtype == ir_dtype, f"dtype {label}")
        ok(tuple(adapter.shape.numpy()) == shape, f"shape {label}")
        ok(adapter.size == size, f"size {label}")
        ok(adapter.nbytes == math.ceil(size * ir_dtype.bitwidth / 8), f"nbytes {label}")
        arr = adapter.numpy()
        ok(same_bits(arr, expected), f"numpy {label}")
        ok(same_bits(np.asarray(adapter), expected), f"__array__ {label}")
        ok(same_bits(adapter.__array__(None), expected), f"__array__(None) {label}")
        data = adapter.tobytes()
        ok(isinstance(data, bytes) and len(data) == adapter.nbytes, f"tobytes len {label}")
        ok(data == plain.tobytes() == raw.tobytes(), f"tobytes {label}")

        # ONNX reference encoder / decoder
        proto = ir.serde.serialize_tensor(adapter)
        ok(proto.raw_data == data and list(proto.dims) == list(shape), f"serialize {label}")
        ref = onnx.numpy_helper.to_array(proto)
        ok(ref.tobytes() == expected.tobytes() and ref.shape == expected.shape, f"onnx decoder {label}")
        back = ir.serde.TensorProtoTensor(proto)
        ok(back.tobytes() == data and same_bits(back.numpy(), expected), f"proto-backed {label}")

        # lazy representation wrapping the adapter
        lazy = ir.LazyTensor(lambda a=adapter: a, dtype=ir_dtype, shape=ir.Shape(shape))
        ok(lazy.tobytes() == data and same_bits(lazy.numpy(), expected), f"lazy {label}")

        # tofile: in-memory buffer at a non-zero position
        buf = io.BytesIO()
        buf.write(b"\xAA" * 3)
        adapter.tofile(buf)
        lazy.tofile(buf)
        ok(buf.getvalue() == b"\xAA" * 3 + data + data, f"tofile BytesIO {label}")
        # tofile: regular file at a non-zero position
        path = os.path.join(tmpdir, "f.bin")
        with open(path, "wb") as f:
            f.write(b"\x55" * 5)
            adapter.tofile(f)
            f.write(b"\x66")
        with open(path, "rb") as f:
            ok(f.read() == b"\x55" * 5 + data + b"\x66", f"tofile file {label}")
        # memory-mapped external at an offset agrees as well
        ext = ir.ExternalTensor("f.bin", offset=5, length=len(data), dtype=ir_dtype,
                                shape=ir.Shape(shape), name="w", base_dir=tmpdir)
        ok(ext.tobytes() == data, f"external bytes {label}")
        if size:
            ok(same_bits(np.asarray(ext.numpy()), expected), f"external numpy {label}")
        ext.release()

# bool and complex
for torch_dtype, ir_dtype, values in [
    (torch.bool, ir.DataType.BOOL, [True, False, True]),
    (torch.complex64, ir.DataType.COMPLEX64, [1 + 2j, complex("inf"), complex(0, float("nan"))]),
    (torch.complex128, ir.DataType.COMPLEX128, [1e308 - 1e-308j, -0.0, 3j]),
]:
    t = torch.tensor(values, dtype=torch_dtype)
    adapter = tensor_adapters.TorchTensor(t)
    expected = t.numpy()
    ok(adapter.dtype == ir_dtype, f"dtype {ir_dtype}")
    ok(same_bits(adapter.numpy(), expected), f"numpy {ir_dtype}")
    ok(adapter.tobytes() == expected.tobytes() == ir.Tensor(expected).tobytes(), f"bytes {ir_dtype}")
    ok(len(adapter.tobytes()) == adapter.nbytes == 3 * ir_dtype.bitwidth // 8, f"nbytes {ir_dtype}")
    ok(tensor_adapters.to_torch_dtype(ir_dtype) == torch_dtype, f"to_torch {ir_dtype}")

# unusual: non-contiguous (transposed + strided) bfloat16 view, requires_grad tensor
base = torch.arange(24, dtype=torch.float32).reshape(4, 6).to(torch.bfloat16)
nc = base.t()[::2]
ok(not nc.is_contiguous(), "non contiguous input")
adapter = tensor_adapters.TorchTensor(nc)
expected = nc.contiguous().view(torch.uint16).numpy().view(ml_dtypes.bfloat16)
ok(same_bits(np.ascontiguousarray(adapter.numpy()), expected), "non-contiguous numpy")
ok(adapter.tobytes() == expected.tobytes(), "non-contiguous tobytes")
buf = io.BytesIO()
ok(adapter.tofile(buf) == len(expected.tobytes()), "tofile returns write() result")
ok(buf.getvalue() == expected.tobytes(), "non-contiguous tofile")
grad = torch.ones(3, dtype=torch.float32, requires_grad=True)
ok(tensor_adapters.TorchTensor(grad).numpy().tolist() == [1.0, 1.0, 1.0], "requires_grad numpy(force)")
ok(tensor_adapters.TorchTensor(grad).tobytes() == np.ones(3, np.float32).tobytes(), "requires_grad bytes")
# __array__ with a dtype converts
ok(np.asarray(tensor_adapters.TorchTensor(base), dtype=np.float32).dtype == np.float32, "__array__(dtype)")

# 2-bit types: dtype table entries exist; tensors of them are usually not constructible in torch
for name, ir_dtype in [("int2", ir.DataType.INT2), ("uint2", ir.DataType.UINT2)]:
    if hasattr(torch, name):
        ok(tensor_adapters.from_torch_dtype(getattr(torch, name)) == ir_dtype, f"from {name}")
        ok(tensor_adapters.to_torch_dtype(ir_dtype) == getattr(torch, name), f"to {name}")

# rejected calls
def raises(exc, fn, *args):
    try:
        fn(*args)
    except exc as e:
        return str(e)
    except Exception as e:  # noqa: BLE001
        raise SystemExit(f"FAIL: expected {exc.__name__}, got {type(e).__name__}: {e}")
    raise SystemExit(f"FAIL: expected {exc.__name__}, nothing raised")


msg = raises(TypeError, tensor_adapters.from_torch_dtype, torch.complex32)
ok(msg.startswith("Unsupported PyTorch dtype 'torch.complex32'.") and "torch.bfloat16" in msg, "from msg")
msg = raises(TypeError, tensor_adapters.from_torch_dtype, np.dtype("float32"))
ok("Unsupported PyTorch dtype 'float32'" in msg, "from numpy dtype msg")
for bad in (ir.DataType.STRING, ir.DataType.INT4, ir.DataType.UINT4, ir.DataType.FLOAT4E2M1, ir.DataType.UNDEFINED):
    msg = raises(TypeError, tensor_adapters.to_torch_dtype, bad)
    ok(msg.startswith(f"Unsupported conversion from ONNX dtype '{bad}' to torch.") and "BFLOAT16" in msg, f"to msg {bad}")
raises(TypeError, tensor_adapters.TorchTensor, torch.zeros(2, dtype=torch.complex32))
raises(AttributeError, tensor_adapters.TorchTensor, np.zeros(2, dtype=np.float32).tolist())

# fake tensors have no content: tobytes/tofile refuse, nothing is written
import torch._subclasses.fake_tensor as fake_tensor

with fake_tensor.FakeTensorMode():
    fake = torch.zeros(2, 3, dtype=torch.bfloat16)
fake_adapter = tensor_adapters.TorchTensor(fake, name="fake_w")
ok(fake_adapter.dtype == ir.DataType.BFLOAT16 and fake_adapter.nbytes == 12, "fake dtype/nbytes")
msg = raises(TypeError, fake_adapter.tobytes)
ok(msg.startswith("Cannot take content out from the FakeTensor ('fake_w')."), "fake msg")
buf = io.BytesIO()
raises(TypeError, fake_adapter.tofile, buf)
ok(buf.getvalue() == b"", "nothing written for fake tensor")

print(f"OK: {checks} checks passed")
