"""Demo for C01: producer / use links stay consistent when node outputs and inputs
are created and resized, whether the calls succeed or raise."""

import sys

import onnx_ir as ir


def check(nodes, values):
    """Both directions of every use-def link agree."""
    for node in nodes:
        for i, out in enumerate(node.outputs):
            assert out.producer() is node, (node, i)
            assert out.index() == i, (node, i, out.index())
        assert len({id(o) for o in node.outputs}) == len(node.outputs)
        for i, inp in enumerate(node.inputs):
            if inp is not None:
                assert (node, i) in [tuple(u) for u in inp.uses()], (node, i)
    for value in values:
        uses = [tuple(u) for u in value.uses()]
        assert len(uses) == len(set((id(n), i) for n, i in uses))
        for n, i in uses:
            assert 0 <= i < len(n.inputs) and n.inputs[i] is value, (value, n, i)
        producer = value.producer()
        if producer is not None:
            assert producer.outputs[value.index()] is value
        else:
            assert all(value is not o for n in nodes for o in n.outputs), value


def expect(exc_type, fn, *args, **kwargs):
    try:
        fn(*args, **kwargs)
    except exc_type:
        return
    raise AssertionError(f"{fn} {args} did not raise {exc_type}")


def main():
    x = ir.Value(name="x")
    y = ir.Value(name="y")
    o0, o1, o2 = ir.Value(name="o0"), ir.Value(name="o1"), ir.Value(name="o2")
    values = [x, y, o0, o1, o2]
    nodes = []

    # Supplied outputs become outputs of the node, in order
    a = ir.Node("", "A", inputs=[x, None, x, y], outputs=[o0, o1, o2])
    nodes.append(a)
    assert a.outputs == (o0, o1, o2)
    check(nodes, values)

    # Empty outputs list
    e = ir.Node("", "E", inputs=[], outputs=[])
    nodes.append(e)
    assert e.outputs == ()
    check(nodes, values)

    # Rejected constructions leave every value unowned / owned as before
    fresh = ir.Value(name="fresh")
    values.append(fresh)
    expect(ValueError, ir.Node, "", "Bad", inputs=[x], outputs=[fresh, fresh])
    expect(ValueError, ir.Node, "", "Bad", inputs=[x], outputs=[fresh, o0])
    expect(ValueError, ir.Node, "", "Bad", inputs=[x], outputs=[fresh, None])
    expect(ValueError, ir.Node, "", "Bad", inputs=[x], outputs=[fresh], num_outputs=2)
    assert fresh.producer() is None and fresh.index() is None
    assert len(x.uses()) == 2
    check(nodes, values)

    # A consumer of o2 blocks shrinking
    b = ir.Node("", "B", inputs=[o2, o0, o2], num_outputs=2)
    nodes.append(b)
    values.extend(b.outputs)
    expect(ValueError, a.resize_outputs, 2)
    expect(ValueError, a.resize_outputs, 0)
    assert a.outputs == (o0, o1, o2)
    check(nodes, values)

    # Invalid sizes
    expect(TypeError, a.resize_outputs, "2")
    expect(TypeError, a.resize_outputs, None)
    expect(TypeError, a.resize_outputs, 1.5)
    expect(TypeError, a.resize_inputs, "2")
    expect(TypeError, a.resize_inputs, 1.5)
    expect(TypeError, a.resize_inputs, 7.5)
    expect(ValueError, a.resize_inputs, -1)
    assert a.outputs == (o0, o1, o2) and a.inputs == (x, None, x, y)
    check(nodes, values)

    # Same size: no-op
    a.resize_outputs(3)
    a.resize_inputs(4)
    check(nodes, values)

    # Release o2 and shrink: the removed outputs are detached
    b.replace_input_with(0, None)
    b.resize_inputs(1)
    assert b.inputs == (None,)
    assert o2.uses() == () and o0.uses() == ()
    a.resize_outputs(1)
    assert a.outputs == (o0,)
    for detached in (o1, o2):
        assert detached.producer() is None and detached.index() == -1
    check(nodes, values)

    # A detached value can be adopted by a new node
    c = ir.Node("", "C", inputs=[o0], outputs=[o2, o1])
    nodes.append(c)
    assert o2.producer() is c and o2.index() == 0 and o1.index() == 1
    check(nodes, values)

    # Grow again: new values get the right producer and position
    a.resize_outputs(4)
    values.extend(a.outputs)
    assert a.outputs[0] is o0 and len(a.outputs) == 4
    b.resize_inputs(3)
    assert b.inputs == (None, None, None)
    b.replace_input_with(2, a.outputs[3])
    expect(ValueError, a.resize_outputs, 3)
    check(nodes, values)

    # Negative size behaves like a slice bound
    b.resize_outputs(-1)
    assert len(b.outputs) == 1
    check(nodes, values)

    # Shrink inputs with duplicates
    a.resize_inputs(1)
    assert a.inputs == (x,) and [tuple(u) for u in x.uses()] == [(a, 0)] and y.uses() == ()
    a.resize_inputs(0)
    assert x.uses() == ()
    check(nodes, values)

    # Inside a graph and a nested subgraph
    inner_in = ir.Value(name="inner_in")
    inner_node = ir.Node("", "Inner", inputs=[inner_in, o0], num_outputs=3)
    inner = ir.Graph([inner_in], [inner_node.outputs[0]], nodes=[inner_node], name="inner")
    outer_node = ir.Node(
        "", "If", inputs=[o0], attributes=[ir.AttrGraph("then_branch", inner)], num_outputs=1
    )
    nodes.extend([inner_node, outer_node])
    values.extend([inner_in, *inner_node.outputs, *outer_node.outputs])
    graph = ir.Graph([x], [outer_node.outputs[0]], nodes=[a, outer_node], name="outer")
    dropped = inner_node.outputs[1:]
    inner_node.resize_outputs(1)
    for v in dropped:
        assert v.producer() is None and v.index() == -1 and v.graph is None
    assert inner_node.outputs[0].graph is inner
    assert inner_node.graph is inner and outer_node.graph is graph
    check(nodes, values)
    print("OK")


if __name__ == "__main__":
    main()
    sys.exit(0)
