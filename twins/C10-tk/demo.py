"""C10 demo: external tensor reads never escape the model directory.

Exercises onnx_ir.load (all spellings of the model path), external_data.set_base_dir,
the ExternalTensor.base_dir setter and every read entry point.
Exits 0 when every expectation holds.
"""

from __future__ import annotations

import io
import os
import pathlib
import sys
import tempfile

import numpy as np
import onnx
from onnx import TensorProto, helper

import onnx_ir as ir
from onnx_ir import external_data

FAILURES: list[str] = []


def check(cond: bool, what: str) -> None:
    if not cond:
        FAILURES.append(what)
        print("FAIL:", what)


def ext_proto(name: str, location: str, offset: int = 0, n: int = 4) -> TensorProto:
    t = TensorProto()
    t.name = name
    t.data_type = TensorProto.FLOAT
    t.dims.extend([n])
    t.data_location = TensorProto.EXTERNAL
    for k, v in (("location", location), ("offset", str(offset)), ("length", str(4 * n))):
        e = t.external_data.add()
        e.key, e.value = k, v
    return t


def build_model(locations: dict[str, str]) -> onnx.ModelProto:
    """Main graph initializer + subgraph initializer + function attribute + TENSORS attr."""
    sub = helper.make_graph(
        [helper.make_node("Identity", ["sub_w"], ["sub_out"])],
        "then",
        [],
        [helper.make_tensor_value_info("sub_out", TensorProto.FLOAT, [4])],
        initializer=[ext_proto("sub_w", locations["sub"])],
    )
    sub2 = helper.make_graph(
        [helper.make_node("Identity", ["sub_w2"], ["sub_out2"])],
        "else",
        [],
        [helper.make_tensor_value_info("sub_out2", TensorProto.FLOAT, [4])],
        initializer=[ext_proto("sub_w2", locations["sub"])],
    )
    const = helper.make_node("Constant", [], ["c"], value=ext_proto("attr_w", locations["attr"]))
    if_node = helper.make_node("If", ["cond"], ["y"], then_branch=sub, else_branch=sub2)
    fn_const = helper.make_node(
        "Constant", [], ["fc"], value=ext_proto("fn_w", locations["fn"], offset=16)
    )
    fn = helper.make_function(
        "local", "F", [], ["fc"], [fn_const], [helper.make_opsetid("", 18)]
    )
    graph = helper.make_graph(
        [const, if_node, helper.make_node("F", [], ["z"], domain="local")],
        "g",
        [helper.make_tensor_value_info("cond", TensorProto.BOOL, [])],
        [helper.make_tensor_value_info("y", TensorProto.FLOAT, [4])],
        initializer=[
            ext_proto("w", locations["main"]),
            ext_proto("empty", locations["main"], n=0),
        ],
    )
    return helper.make_model(
        graph,
        functions=[fn],
        opset_imports=[helper.make_opsetid("", 18), helper.make_opsetid("local", 1)],
    )


def external_tensors(model: ir.Model) -> dict[str, ir.ExternalTensor]:
    found: dict[str, ir.ExternalTensor] = {}
    graphs = [model.graph] + [f.graph for f in model.functions.values()]
    for g in graphs:
        for v in g.initializers.values():
            if isinstance(v.const_value, ir.ExternalTensor):
                found[v.const_value.name] = v.const_value
        for node in ir.traversal.RecursiveGraphIterator(g):
            for attr in node.attributes.values():
                if attr.type == ir.AttributeType.TENSOR and isinstance(
                    attr.value, ir.ExternalTensor
                ):
                    found[attr.value.name] = attr.value
                if attr.type == ir.AttributeType.GRAPH:
                    for v in attr.value.initializers.values():
                        if isinstance(v.const_value, ir.ExternalTensor):
                            found[v.const_value.name] = v.const_value
    return found


def in_memory_raw_data(t: ir.ExternalTensor) -> bytes:
    """Bring the tensor into memory and serialize it: TensorProto.raw_data."""
    (mem,) = external_data.convert_tensors_from_external([t])
    return bytes(ir.serde.serialize_tensor(mem).raw_data)


def read_all_ways(t: ir.ExternalTensor) -> list[bytes]:
    """Every read entry point, each on a fresh state (release() between reads)."""
    out = []
    t.release()
    out.append(t.numpy().tobytes())
    t.release()
    out.append(t.tobytes())
    t.release()
    buf = io.BytesIO()
    t.tofile(buf)
    out.append(buf.getvalue())
    t.release()
    out.append(np.asarray(t).tobytes())
    t.release()
    out.append(in_memory_raw_data(t))
    t.release()
    return out


def rejected_all_ways(t: ir.ExternalTensor) -> bool:
    ok = True
    for reader in (
        lambda: t.numpy(),
        lambda: t.tobytes(),
        lambda: t.tofile(io.BytesIO()),
        lambda: np.asarray(t),
        lambda: in_memory_raw_data(t),
    ):
        t.release()
        try:
            reader()
        except ValueError:
            continue
        except Exception as e:  # noqa: BLE001
            print("   unexpected exception type", type(e), e)
            ok = False
        else:
            ok = False
    t.release()
    return ok


def main() -> int:
    root = os.path.realpath(tempfile.mkdtemp(prefix="c10tk_"))
    mdir = os.path.join(root, "model")
    sibling = os.path.join(root, "model_evil")  # shares the base's name as a prefix
    os.makedirs(os.path.join(mdir, "sub"))
    os.makedirs(sibling)
    good = np.arange(8, dtype="<f4")
    secret = np.full(8, 666.0, dtype="<f4")
    good.tofile(os.path.join(mdir, "w.bin"))
    good.tofile(os.path.join(mdir, "sub", "w2.bin"))
    secret.tofile(os.path.join(root, "secret.bin"))
    secret.tofile(os.path.join(sibling, "secret.bin"))
    os.symlink(os.path.join(mdir, "w.bin"), os.path.join(mdir, "inner_link.bin"))
    os.symlink(os.path.join(root, "secret.bin"), os.path.join(mdir, "outer_link.bin"))
    os.symlink(sibling, os.path.join(mdir, "outer_dir"))
    os.link(os.path.join(root, "secret.bin"), os.path.join(mdir, "hard.bin"))
    os.symlink(mdir, os.path.join(root, "alias_dir"))

    # ---- 1. honest model, every spelling of the model path -------------------------
    honest = build_model(
        {"main": "w.bin", "sub": "sub/w2.bin", "attr": "./sub/../inner_link.bin", "fn": "w.bin"}
    )
    onnx.save(honest, os.path.join(mdir, "m.onnx"))
    expected = {
        "w": good[:4].tobytes(),
        "sub_w": good[:4].tobytes(),
        "sub_w2": good[:4].tobytes(),
        "attr_w": good[:4].tobytes(),
        "fn_w": good[4:].tobytes(),
        "empty": b"",
    }
    old_cwd = os.getcwd()
    spellings = [
        ("absolute", root, os.path.join(mdir, "m.onnx")),
        ("pathlib", root, pathlib.Path(mdir) / "m.onnx"),
        ("relative", root, os.path.join("model", "m.onnx")),
        ("dot-relative", root, "./model/./m.onnx"),
        ("non-normalised", root, "model/sub/../m.onnx"),
        ("double separator", root, "model//m.onnx"),
        ("through symlinked dir", root, "alias_dir/m.onnx"),
        ("bare file name", mdir, "m.onnx"),
        ("bare pathlib name", mdir, pathlib.Path("m.onnx")),
    ]
    for label, cwd, spelled in spellings:
        os.chdir(cwd)
        try:
            model = ir.load(spelled)
            tensors = external_tensors(model)
            check(set(tensors) == set(expected), f"{label}: tensors found {sorted(tensors)}")
            for name, t in tensors.items():
                check(bool(t.base_dir), f"{label}: {name} has empty base_dir")
                check(
                    os.path.realpath(os.fspath(t.base_dir)) == mdir,
                    f"{label}: {name} base_dir {t.base_dir!r} is not the model directory",
                )
                for got in read_all_ways(t):
                    check(got == expected[name], f"{label}: {name} wrong bytes")
        finally:
            os.chdir(old_cwd)

    # ---- 2. hostile locations, in main graph / subgraphs / attribute / function ----
    hostile = [
        "../secret.bin",
        "sub/../../secret.bin",
        os.path.join(root, "secret.bin"),
        "../model_evil/secret.bin",
        "outer_link.bin",
        "outer_dir/secret.bin",
        "hard.bin",
        "..",
    ]
    for n, loc in enumerate(hostile):
        for slot in ("main", "sub", "attr", "fn"):
            locs = {"main": "w.bin", "sub": "w.bin", "attr": "w.bin", "fn": "w.bin"}
            locs[slot] = loc
            fname = f"h{n}_{slot}.onnx"
            onnx.save(build_model(locs), os.path.join(mdir, fname))
            victims = {
                "main": ["w", "empty"],
                "sub": ["sub_w", "sub_w2"],
                "attr": ["attr_w"],
                "fn": ["fn_w"],
            }[slot]
            for label, cwd, spelled in (
                ("absolute", root, os.path.join(mdir, fname)),
                ("bare", mdir, fname),
                ("alias", root, "alias_dir/" + fname),
            ):
                os.chdir(cwd)
                try:
                    tensors = external_tensors(ir.load(spelled))
                    for name, t in tensors.items():
                        if name in victims:
                            check(
                                rejected_all_ways(t),
                                f"hostile {loc!r} in {slot} ({label}): {name} was readable",
                            )
                        else:
                            for got in read_all_ways(t):
                                check(
                                    got == expected[name],
                                    f"hostile {loc!r} ({label}): innocent {name} wrong bytes",
                                )
                finally:
                    os.chdir(old_cwd)

    # ---- 3. moving an already-mapped tensor to another base directory --------------
    model = ir.load(os.path.join(mdir, "m.onnx"))
    tensors = external_tensors(model)
    w = tensors["w"]
    first = w.numpy()
    check(first.tobytes() == expected["w"], "mapped read")
    # Same directory, other type of spelling: nothing is dropped, nothing re-read
    external_data.set_base_dir(model.graph, pathlib.Path(mdir))
    check(w.numpy() is first, "same base_dir (as PathLike) must keep the loaded array")
    check(isinstance(w.base_dir, pathlib.Path), "base_dir stores the value given")
    # set_base_dir on the main graph does not touch functions
    check(os.fspath(tensors["fn_w"].base_dir) == mdir, "function tensor untouched")
    check(isinstance(tensors["fn_w"].base_dir, str), "function tensor keeps its str base_dir")
    # Move to sub/: "w.bin" does not exist there -> the old mapping must not be served
    external_data.set_base_dir(model.graph, os.path.join(mdir, "sub"))
    for name in ("w", "sub_w", "sub_w2", "attr_w", "empty"):
        check(
            os.fspath(tensors[name].base_dir) == os.path.join(mdir, "sub"),
            f"{name} base_dir not updated by set_base_dir",
        )
    try:
        w.numpy()
    except FileNotFoundError:
        pass
    else:
        check(False, "stale mapping served after base_dir changed")
    # attr_w = ./sub/../inner_link.bin relative to model/sub -> string containment ok,
    # but model/sub/sub does not exist; still must not produce bytes
    try:
        tensors["attr_w"].tobytes()
    except (ValueError, OSError):
        pass
    else:
        check(False, "attr_w readable from a directory where it does not exist")
    # Move a mapped tensor so that its symlink now escapes: model/sub2 -> link to outside
    os.makedirs(os.path.join(mdir, "jail"))
    os.symlink(os.path.join(root, "secret.bin"), os.path.join(mdir, "jail", "w.bin"))
    fn_w = tensors["fn_w"]
    check(fn_w.tobytes() == expected["fn_w"], "fn_w first read")  # now mapped
    for f in model.functions.values():
        external_data.set_base_dir(f.graph, os.path.join(mdir, "jail"))
    check(rejected_all_ways(fn_w), "fn_w readable through escaping symlink after move")
    # A base_dir that is not path-like is refused and leaves the tensor as it was
    before = fn_w.base_dir
    try:
        fn_w.base_dir = 42  # type: ignore[assignment]
    except TypeError:
        pass
    else:
        check(False, "non path-like base_dir accepted")
    check(fn_w.base_dir == before, "base_dir changed by a refused assignment")
    # and back home: readable again
    for f in model.functions.values():
        external_data.set_base_dir(f.graph, mdir)
    for got in read_all_ways(fn_w):
        check(got == expected["fn_w"], "fn_w wrong bytes after moving back")

    # ---- 4. one tensor object referenced twice (duplicate) and an empty graph ------
    shared = ir.ExternalTensor(
        "../secret.bin", 0, 16, ir.DataType.FLOAT, shape=ir.Shape([4]), name="shared"
    )
    v1 = ir.Value(name="a", const_value=shared)
    v2 = ir.Value(name="b", const_value=shared)
    node = ir.node("Constant", [], attributes={"value": shared})
    g = ir.Graph([], [], nodes=[node], initializers=[v1, v2], name="dup")
    check(shared.base_dir == "", "programmatic tensor starts without base_dir")
    external_data.set_base_dir(g, mdir)
    check(shared.base_dir == mdir, "shared tensor base_dir set")
    check(rejected_all_ways(shared), "shared tensor escaped")
    external_data.set_base_dir(ir.Graph([], [], nodes=[], name="nothing"), mdir)  # no-op

    os.chdir(old_cwd)
    if FAILURES:
        print(f"{len(FAILURES)} expectation(s) failed")
        return 1
    print("C10 demo: all expectations hold")
    return 0


if __name__ == "__main__":
    sys.exit(main())
