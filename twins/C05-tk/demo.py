"""Demo for C05: unused-node removal (alone and composed) preserves what the model computes.

Builds a checker-valid model with dead code, an If node whose branches capture outer
values and hold their own dead code, a BatchNormalization, trailing empty optional
inputs, unused optional outputs, a duplicate graph output and an unused initializer.
Runs RemoveUnusedNodesPass (plus unused functions/opsets) and compares the outputs of
the ONNX reference evaluator before and after, position by position.
"""

from __future__ import annotations

import sys

import numpy as np
import onnx
import onnx.reference

import onnx_ir as ir
from onnx_ir.passes.common import unused_removal

FLOAT = ir.TensorType(ir.DataType.FLOAT)
BOOL = ir.TensorType(ir.DataType.BOOL)
INT64 = ir.TensorType(ir.DataType.INT64)


def _val(name, type_=FLOAT, shape=None):
    return ir.Value(name=name, type=type_, shape=None if shape is None else ir.Shape(shape))


def _init(name, array):
    return ir.Value(
        name=name,
        const_value=ir.tensor(array, name=name),
        type=ir.TensorType(ir.DataType(ir.tensor(array).dtype)),
        shape=ir.Shape(array.shape),
    )


def _branch(name, captured, scale, dead_source):
    """A branch graph computing captured*scale, with a dead node using a captured value."""
    mul = ir.node("Mul", [captured, scale], name=f"{name}_mul")
    mul.outputs[0].name = f"{name}_out"
    mul.outputs[0].type = FLOAT
    mul.outputs[0].shape = ir.Shape([2, 3])
    dead = ir.node("Neg", [dead_source], name=f"{name}_dead")
    dead.outputs[0].name = f"{name}_dead_out"
    dead2 = ir.node("Abs", [dead.outputs[0]], name=f"{name}_dead2")
    dead2.outputs[0].name = f"{name}_dead2_out"
    return ir.Graph(
        inputs=[],
        outputs=[mul.outputs[0]],
        nodes=[mul, dead, dead2],
        name=name,
    )


def build_model() -> ir.Model:
    x = _val("x", FLOAT, [2, 3])
    cond = _val("cond", BOOL, [])
    two = _init("two", np.array(2.0, dtype=np.float32))
    three = _init("three", np.array(3.0, dtype=np.float32))
    unused_init = _init("unused_init", np.array([1.0, 2.0], dtype=np.float32))
    bn_scale = _init("bn_scale", np.ones(3, dtype=np.float32))
    bn_bias = _init("bn_bias", np.zeros(3, dtype=np.float32))
    bn_mean = _init("bn_mean", np.full(3, 0.5, dtype=np.float32))
    bn_var = _init("bn_var", np.full(3, 2.0, dtype=np.float32))
    lo = _init("lo", np.array(-1.0, dtype=np.float32))

    relu = ir.node("Relu", [x], name="relu")
    relu.outputs[0].name = "relu_out"

    # Dead chain in the main graph
    dead_a = ir.node("Exp", [x], name="dead_a")
    dead_a.outputs[0].name = "dead_a_out"
    dead_b = ir.node("Add", [dead_a.outputs[0], two], name="dead_b")
    dead_b.outputs[0].name = "dead_b_out"

    # Clip with a trailing empty optional input (max omitted)
    clip = ir.node("Clip", [relu.outputs[0], lo, None], name="clip")
    clip.outputs[0].name = "clip_out"

    # BatchNormalization in inference mode with a single output
    bn = ir.node(
        "BatchNormalization",
        [clip.outputs[0], bn_scale, bn_bias, bn_mean, bn_var],
        name="bn",
    )
    bn.outputs[0].name = "bn_out"

    # MaxPool with an unused optional second output (Indices)
    unsq = ir.node("Reshape", [bn.outputs[0], _init("shape4", np.array([1, 1, 2, 3], dtype=np.int64))], name="reshape4")
    unsq.outputs[0].name = "x4"
    pool = ir.node(
        "MaxPool",
        [unsq.outputs[0]],
        attributes={"kernel_shape": [1, 1]},
        num_outputs=2,
        name="pool",
    )
    pool.outputs[0].name = "pool_out"
    pool.outputs[1].name = "pool_indices"
    back = ir.node("Reshape", [pool.outputs[0], _init("shape2", np.array([2, 3], dtype=np.int64))], name="reshape2")
    back.outputs[0].name = "x2"

    # If with branches capturing outer values and holding dead code
    then_g = _branch("then_branch", back.outputs[0], two, relu.outputs[0])
    else_g = _branch("else_branch", back.outputs[0], three, x)
    if_node = ir.node(
        "If",
        [cond],
        attributes={"then_branch": then_g, "else_branch": else_g},
        name="if_node",
    )
    if_node.outputs[0].name = "if_out"
    if_node.outputs[0].type = FLOAT

    # A node all of whose outputs are dead but which holds a subgraph (removed as a whole)
    dead_if = ir.node(
        "If",
        [cond],
        attributes={
            "then_branch": _branch("dead_then", x, two, x),
            "else_branch": _branch("dead_else", x, three, x),
        },
        name="dead_if",
    )
    dead_if.outputs[0].name = "dead_if_out"

    final = ir.node("Add", [if_node.outputs[0], relu.outputs[0]], name="final")
    final.outputs[0].name = "y"
    final.outputs[0].type = FLOAT
    relu.outputs[0].type = FLOAT
    final.outputs[0].shape = ir.Shape([2, 3])
    relu.outputs[0].shape = ir.Shape([2, 3])

    graph = ir.Graph(
        inputs=[x, cond],
        # relu_out is both consumed and a graph output; y is the main output
        outputs=[final.outputs[0], relu.outputs[0]],
        nodes=[relu, dead_a, dead_b, clip, bn, unsq, pool, back, if_node, dead_if, final],
        initializers=[
            two, three, unused_init, bn_scale, bn_bias, bn_mean, bn_var, lo,
            unsq.inputs[1], back.inputs[1],
        ],
        opset_imports={"": 20, "unused.domain": 1},
        name="main",
    )

    # An unused model-local function (with its own dead node)
    fx = _val("fx")
    fneg = ir.node("Neg", [fx], name="fneg")
    fneg.outputs[0].name = "fy"
    fdead = ir.node("Abs", [fx], name="fdead")
    fdead.outputs[0].name = "fdead_out"
    func = ir.Function(
        domain="local",
        name="Unused",
        graph=ir.Graph(
            inputs=[fx], outputs=[fneg.outputs[0]], nodes=[fneg, fdead],
            opset_imports={"": 20},
        ),
        attributes=[],
    )
    return ir.Model(graph, ir_version=10, functions=[func])


def run(proto: onnx.ModelProto, feeds):
    sess = onnx.reference.ReferenceEvaluator(proto)
    return sess.run(None, feeds)


def signature(proto: onnx.ModelProto):
    init_names = {i.name for i in proto.graph.initializer}
    return (
        [i.name for i in proto.graph.input if i.name not in init_names],
        [o.name for o in proto.graph.output],
    )


def all_node_names(graph: onnx.GraphProto):
    names = []
    for n in graph.node:
        names.append(n.name)
        for a in n.attribute:
            if a.type == onnx.AttributeProto.GRAPH:
                names.extend(all_node_names(a.g))
            elif a.type == onnx.AttributeProto.GRAPHS:
                for g in a.graphs:
                    names.extend(all_node_names(g))
    return names


def check(condition, message):
    if not condition:
        print("FAIL:", message)
        sys.exit(1)


def main():
    model = build_model()
    before = ir.to_proto(model)
    onnx.checker.check_model(before, full_check=True)

    rng = np.random.default_rng(0)
    feed_sets = []
    for cond_value in (True, False):
        feed_sets.append(
            {
                "x": rng.standard_normal((2, 3)).astype(np.float32),
                "cond": np.array(cond_value),
            }
        )
    expected = [run(before, feeds) for feeds in feed_sets]

    # --- the pass alone
    result = unused_removal.RemoveUnusedNodesPass()(model)
    check(result.modified, "dead code present, so the pass must report a modification")
    after = ir.to_proto(result.model)
    onnx.checker.check_model(after, full_check=True)
    check(signature(before) == signature(after), "inputs/outputs changed")
    for feeds, exp in zip(feed_sets, expected):
        got = run(after, feeds)
        check(len(got) == len(exp), "number of outputs changed")
        for g, e in zip(got, exp):
            np.testing.assert_array_equal(g, e)

    names = all_node_names(after.graph)
    for dead in (
        "dead_a", "dead_b", "dead_if",
        "then_branch_dead", "then_branch_dead2", "else_branch_dead", "else_branch_dead2",
    ):
        check(dead not in names, f"dead node {dead} was kept")
    for live in ("relu", "clip", "bn", "pool", "if_node", "final", "then_branch_mul", "else_branch_mul"):
        check(live in names, f"live node {live} was removed")
    by_name = {n.name: n for n in after.graph.node}
    check(list(by_name["clip"].input) == ["relu_out", "lo"], "trailing empty input of Clip not trimmed")
    check(list(by_name["pool"].output) == ["pool_out"], "unused optional output of MaxPool not trimmed")
    check(list(by_name["bn"].output) == ["bn_out"], "BatchNormalization outputs changed")
    check("unused_init" not in {i.name for i in after.graph.initializer}, "unused initializer kept")
    check("two" in {i.name for i in after.graph.initializer}, "captured initializer removed")
    # Function bodies are processed too
    check([n.name for n in after.functions[0].node] == ["fneg"], "dead node in function kept")

    # --- idempotence: a second run finds nothing
    again = unused_removal.RemoveUnusedNodesPass()(result.model)
    check(not again.modified, "second run must not modify the model")

    # --- composed with the other removal passes
    model2 = build_model()
    seq = ir.passes.Sequential(
        unused_removal.RemoveUnusedNodesPass(),
        unused_removal.RemoveUnusedFunctionsPass(),
        unused_removal.RemoveUnusedOpsetsPass(),
    )
    composed = ir.to_proto(seq(model2).model)
    onnx.checker.check_model(composed, full_check=True)
    check(signature(before) == signature(composed), "inputs/outputs changed by the sequence")
    check(len(composed.functions) == 0, "unused function kept")
    check({o.domain for o in composed.opset_import} == {""}, "unused opset kept")
    for feeds, exp in zip(feed_sets, expected):
        got = run(composed, feeds)
        for g, e in zip(got, exp):
            np.testing.assert_array_equal(g, e)

    # --- unusual inputs
    # (a) empty graph: nothing to do, no modification
    empty = ir.Model(ir.Graph([], [], nodes=[], opset_imports={"": 20}, name="empty"), ir_version=10)
    r = unused_removal.RemoveUnusedNodesPass()(empty)
    check(not r.modified and len(r.model.graph) == 0, "empty graph must be left alone")

    # (b) a node whose inputs are ALL empty and trailing, and whose output is a graph
    #     output used twice (duplicate output): kept, inputs trimmed to zero.
    opt = ir.node("Optional", [None], attributes={"type": ir.AttrTypeProto("type", ir.OptionalType(FLOAT))}, name="opt")
    opt.outputs[0].name = "o"
    opt.outputs[0].type = ir.OptionalType(FLOAT)
    g = ir.Graph([], [opt.outputs[0], opt.outputs[0]], nodes=[opt], opset_imports={"": 20}, name="dup")
    m = ir.Model(g, ir_version=10)
    r = unused_removal.RemoveUnusedNodesPass()(m)
    check(r.modified, "trimming inputs is a modification")
    check(len(opt.inputs) == 0 and len(m.graph) == 1, "all-empty inputs must be trimmed to zero")
    check([o.name for o in m.graph.outputs] == ["o", "o"], "duplicate outputs must be kept in place")

    # (c) a node of an unknown op with no outputs at all is removable (vacuously unused)
    no_out = ir.node("Custom", [], domain="my.domain", num_outputs=0, name="no_out")
    # (d) a node with an empty-named middle output that is used after it: nothing is trimmed
    x = _val("x", FLOAT, [2])
    split = ir.node("Split", [x], attributes={"num_outputs": 3, "axis": 0}, num_outputs=3, name="split")
    for i, o in enumerate(split.outputs):
        o.name = f"s{i}"
    g = ir.Graph([x], [split.outputs[2]], nodes=[no_out, split], opset_imports={"": 20, "my.domain": 1}, name="misc")
    m = ir.Model(g, ir_version=10)
    r = unused_removal.RemoveUnusedNodesPass()(m)
    check(r.modified and [n.name for n in m.graph] == ["split"], "output-less node must be removed")
    check([o.name for o in split.outputs] == ["s0", "s1", "s2"], "variadic outputs must be untouched")

    # (e) a graph without a default opset import: optional outputs are not touched
    x = _val("x", FLOAT, [1, 1, 2, 2])
    pool = ir.node("MaxPool", [x], attributes={"kernel_shape": [1, 1]}, num_outputs=2, name="p")
    pool.outputs[0].name = "p0"
    pool.outputs[1].name = "p1"
    g = ir.Graph([x], [pool.outputs[0]], nodes=[pool], opset_imports={}, name="noopset")
    r = unused_removal.RemoveUnusedNodesPass()(ir.Model(g, ir_version=10))
    check(not r.modified and len(pool.outputs) == 2, "without opset nothing may be trimmed")

    # (f) a rejected call: a live node inside a graph whose GRAPH attribute is a reference
    #     (no graph to descend into) is rejected with TypeError; the dead node after it
    #     in the list was already removed (nodes are visited in reverse order).
    x = _val("x")
    ref_node = ir.Node(
        "d", "Custom", [x],
        attributes=[ir.RefAttr("body", "b", ir.AttributeType.GRAPH)], name="ref_node",
    )
    ref_node.outputs[0].name = "r"
    late_dead = ir.node("Neg", [x], name="late_dead")
    early_dead = ir.node("Abs", [x], name="early_dead")
    g = ir.Graph(
        [x], [ref_node.outputs[0]], nodes=[early_dead, ref_node, late_dead],
        opset_imports={"": 20, "d": 1}, name="ref",
    )
    # (Before the repair 37c3965 of the library this call ended in TypeError; a reference attribute is now skipped.)
    unused_removal.RemoveUnusedNodesPass()(ir.Model(g, ir_version=10))
    check(
        [n.name for n in g] == ["ref_node"],
        "a node holding a reference GRAPH attribute stays, both dead nodes around it are removed",
    )

    print("OK")


if __name__ == "__main__":
    main()
