"""Demo for C06: a rejected edit leaves every IR object exactly as it was.

Exercises Value.replace_all_uses_with, Node.replace_input_with, Node.resize_inputs and
Graph.remove(safe=True) / Function.remove, accepted and rejected, with duplicated inputs,
duplicated graph outputs, empty inputs and a subgraph.
"""

import sys

import onnx_ir as ir


def snap_value(v):
    if v is None:
        return None
    return (
        id(v),
        v.name,
        id(v.graph) if v.graph is not None else None,
        id(v.producer()) if v.producer() is not None else None,
        v.index(),
        tuple((id(n), i) for n, i in v.uses()),
        v.is_graph_input(),
        v.is_graph_output(),
        v.is_initializer(),
    )


def snap_node(n):
    return (
        id(n),
        n.name,
        n.op_type,
        id(n.graph) if n.graph is not None else None,
        tuple(snap_value(v) for v in n.inputs),
        tuple(snap_value(v) for v in n.outputs),
        tuple(sorted(n.attributes)),
    )


def snap_graph(g):
    return (
        tuple(snap_value(v) for v in g.inputs),
        tuple(snap_value(v) for v in g.outputs),
        tuple((k, snap_value(v)) for k, v in g.initializers.items()),
        tuple(snap_node(n) for n in g),
        len(g),
    )


def snapshot(graphs, nodes=(), values=()):
    return (
        tuple(snap_graph(g) for g in graphs),
        tuple(snap_node(n) for n in nodes),
        tuple(snap_value(v) for v in values),
    )


def expect_rejected(exc_type, fn, graphs, nodes=(), values=()):
    before = snapshot(graphs, nodes, values)
    try:
        fn()
    except exc_type:
        pass
    else:
        raise AssertionError(f"expected {exc_type.__name__}")
    after = snapshot(graphs, nodes, values)
    assert before == after, "state changed by a rejected call"
    # The rejected call can be retried with the same result
    try:
        fn()
    except exc_type:
        pass
    else:
        raise AssertionError("retry was not rejected")
    assert snapshot(graphs, nodes, values) == before


def build():
    x = ir.val("x")
    y = ir.val("y")
    a = ir.Node("", "A", [x, y, x], name="a")  # duplicated input
    b = ir.Node("", "B", [a.outputs[0], None, a.outputs[0]], name="b")
    c = ir.Node("", "C", [b.outputs[0], x], name="c")
    e = ir.Node("", "E", [], name="e")  # no inputs at all
    # Duplicated graph output on purpose
    g = ir.Graph([x, y], [c.outputs[0], b.outputs[0], c.outputs[0]], nodes=[a, b, c, e], name="g")
    return g, x, y, a, b, c, e


def main():
    g, x, y, a, b, c, e = build()
    other_in = ir.val("ox")
    other_node = ir.Node("", "O", [other_in], name="o")
    other = ir.Graph([other_in], [other_node.outputs[0]], nodes=[other_node], name="other")
    graphs = (g, other)
    nodes = (a, b, c, e, other_node)
    values = (x, y, other_in)

    # --- replace_all_uses_with: graph output without the flag is rejected
    cv = c.outputs[0]
    fresh = ir.val("fresh")
    expect_rejected(ValueError, lambda: cv.replace_all_uses_with(fresh), graphs, nodes, values + (fresh,))
    # --- replace_all_uses_with with the flag, replacement owned by another graph: rejected
    expect_rejected(
        ValueError,
        lambda: cv.replace_all_uses_with(other_node.outputs[0], replace_graph_outputs=True),
        graphs,
        nodes,
        values,
    )
    assert list(g.outputs) == [cv, b.outputs[0], cv]

    # --- replace_input_with: out of range on both sides, also on a node without inputs
    expect_rejected(ValueError, lambda: a.replace_input_with(3, y), graphs, nodes, values)
    expect_rejected(ValueError, lambda: a.replace_input_with(-1, y), graphs, nodes, values)
    expect_rejected(ValueError, lambda: e.replace_input_with(0, None), graphs, nodes, values)

    # --- resize_inputs: a negative size is rejected before anything is detached
    expect_rejected(ValueError, lambda: a.resize_inputs(-1), graphs, nodes, values)
    expect_rejected(ValueError, lambda: e.resize_inputs(-2), graphs, nodes, values)

    # --- Graph.remove: rejected in several ways, nothing changes
    expect_rejected(ValueError, lambda: g.remove(a, safe=True), graphs, nodes, values)  # still used
    expect_rejected(ValueError, lambda: g.remove(c, safe=True), graphs, nodes, values)  # graph output
    expect_rejected(ValueError, lambda: g.remove([e, a], safe=True), graphs, nodes, values)
    expect_rejected(ValueError, lambda: g.remove([e, other_node]), graphs, nodes, values)
    expect_rejected(ValueError, lambda: g.remove([e, other_node, e], safe=True), graphs, nodes, values)

    # --- accepted calls give the documented result
    a.resize_inputs(3)  # same size: no-op
    assert a.inputs == (x, y, x)
    a.resize_inputs(5)
    assert a.inputs == (x, y, x, None, None)
    assert {(id(n), i) for n, i in x.uses()} == {(id(a), 0), (id(a), 2), (id(c), 1)}
    a.resize_inputs(1)
    assert a.inputs == (x,)
    assert y.uses() == ()
    assert {(id(n), i) for n, i in x.uses()} == {(id(a), 0), (id(c), 1)}
    e.resize_inputs(0)
    assert e.inputs == ()
    e.resize_inputs(2)
    assert e.inputs == (None, None)
    e.replace_input_with(1, y)
    e.replace_input_with(1, y)  # same value again
    assert [(n.name, i) for n, i in y.uses()] == [("e", 1)]
    e.resize_inputs(0)
    assert y.uses() == () and e.inputs == ()

    # replace a duplicated graph output and a duplicated node input in one call
    av = a.outputs[0]
    av2 = ir.val("av2")
    av.replace_all_uses_with(av2)
    assert b.inputs == (av2, None, av2) and av.uses() == ()
    assert [(n.name, i) for n, i in av2.uses()] == [("b", 0), ("b", 2)]
    new_c = ir.val("new_c")
    cv.replace_all_uses_with(new_c, replace_graph_outputs=True)
    assert list(g.outputs) == [new_c, b.outputs[0], new_c]
    assert new_c.is_graph_output() and new_c.graph is g
    assert not cv.is_graph_output() and cv.graph is g  # still produced by c which is in g
    # replacing with itself is accepted and changes nothing
    before = snapshot(graphs, nodes, values)
    new_c.replace_all_uses_with(new_c, replace_graph_outputs=True)
    assert snapshot(graphs, nodes, values) == before

    # safe removal detaches all inputs (including duplicates and None)
    g.remove([c, e, c], safe=True)
    assert c.graph is None and e.graph is None
    assert c.inputs == (None, None)
    assert [(n.name, i) for n, i in x.uses()] == [("a", 0)]
    assert b.outputs[0].uses() == ()
    assert [n.name for n in g] == ["a", "b"]
    # removing again is rejected and changes nothing
    expect_rejected(ValueError, lambda: g.remove(c), graphs, nodes + (c,), values)

    # --- Function delegates; nested subgraph users keep a node alive
    fx = ir.val("fx")
    f1 = ir.Node("", "F1", [fx, fx], name="f1")
    inner_user = ir.Node("", "Inner", [f1.outputs[0]], name="inner")
    inner = ir.Graph([], [inner_user.outputs[0]], nodes=[inner_user], name="inner_g")
    f2 = ir.Node("", "If", [fx], attributes=[ir.AttrGraph("then_branch", inner)], name="f2")
    fgraph = ir.Graph([fx], [f2.outputs[0]], nodes=[f1, f2], name="fg")
    func = ir.Function("dom", "fn", graph=fgraph, attributes=[])
    fgs = (fgraph, inner)
    fnodes = (f1, f2, inner_user)
    expect_rejected(ValueError, lambda: func.remove(f1, safe=True), fgs, fnodes, (fx,))
    expect_rejected(ValueError, lambda: func.remove([f1, f2], safe=True), fgs, fnodes, (fx,))
    expect_rejected(ValueError, lambda: func.remove(inner_user), fgs, fnodes, (fx,))
    expect_rejected(
        ValueError, lambda: f2.outputs[0].replace_all_uses_with(ir.val("z")), fgs, fnodes, (fx,)
    )
    inner.remove(inner_user, safe=False)
    # An unsafe removal does not detach the inputs: f1 is still used
    expect_rejected(ValueError, lambda: func.remove(f1, safe=True), fgs, fnodes, (fx,))
    inner_user.resize_inputs(0)
    func.remove(f1, safe=True)
    assert f1.inputs == (None, None) and [(n.name, i) for n, i in fx.uses()] == [("f2", 0)]
    assert [n.name for n in func] == ["f2"]

    print("C06 demo OK")
    return 0


if __name__ == "__main__":
    sys.exit(main())
