"""Demo for C07 (external-data save/load) around the shard coordinator of
onnx_ir.external_data (_write_external_tensors): shard jobs, per-shard callbacks
translated to global indices, serial and concurrent shard writes."""

import logging
import os
import sys
import tempfile

import numpy as np

import onnx_ir as ir


def build_model():
    rng = np.random.default_rng(7)
    tensors = []
    for i, n in enumerate([10, 300, 0, 129, 64, 1000, 7, 255]):
        tensors.append(ir.tensor(rng.integers(0, 255, size=(n,), dtype=np.uint8), name=f"w{i}"))
    # sub-byte packed tensor
    tensors.append(
        ir.Tensor(np.arange(-8, 7, dtype=np.int8).astype(np.int8), dtype=ir.DataType.INT8, name="i8")
    )
    tensors.append(
        ir.tensor(np.array([1, -2, 3, -4, 5], dtype=np.int8), dtype=ir.DataType.INT4, name="i4")
    )
    # lazy tensor
    lazy_src = rng.standard_normal((5, 9)).astype(np.float32)
    tensors.append(
        ir.LazyTensor(
            lambda: ir.tensor(lazy_src), dtype=ir.DataType.FLOAT, shape=ir.Shape([5, 9]), name="lazy"
        )
    )
    values = []
    for t in tensors:
        values.append(ir.Value(name=t.name, const_value=t, type=ir.TensorType(t.dtype), shape=t.shape))
    # duplicated tensor object: a second initializer sharing w1's tensor object
    dup = ir.Value(name="w1_dup", const_value=tensors[1], type=ir.TensorType(tensors[1].dtype), shape=tensors[1].shape)
    values.append(dup)

    # subgraph with its own initializers
    sub_t = ir.tensor(rng.standard_normal((33,)).astype(np.float64), name="sub_w")
    sub_small = ir.tensor(np.array([3], dtype=np.int64), name="sub_small")
    sub_vals = [
        ir.Value(name=t.name, const_value=t, type=ir.TensorType(t.dtype), shape=t.shape)
        for t in (sub_t, sub_small)
    ]
    sub_node = ir.Node("", "Identity", [sub_vals[0]])
    sub_graph = ir.Graph([], sub_node.outputs, nodes=[sub_node], initializers=sub_vals, name="then")
    cond = ir.Value(name="cond", type=ir.TensorType(ir.DataType.BOOL), shape=ir.Shape([]))
    if_node = ir.Node("", "If", [cond], attributes=[ir.AttrGraph("then_branch", sub_graph)])
    add = ir.Node("", "Identity", [values[0]])
    graph = ir.Graph(
        [cond], [*if_node.outputs, *add.outputs], nodes=[if_node, add], initializers=values,
        opset_imports={"": 20}, name="main",
    )
    return ir.Model(graph, ir_version=10)


def snapshot(model):
    return [(v, v.const_value) for g in model.graphs() for v in g.initializers.values()]


def expect_same_objects(model, snap):
    now = snapshot(model)
    assert len(now) == len(snap)
    for (v1, t1), (v2, t2) in zip(now, snap):
        assert v1 is v2 and t1 is t2, f"initializer {v1.name} does not hold its tensor object any more"


def check_roundtrip(model, path, threshold, limit, alignment, align_threshold):
    originals = {v.name: t for v, t in snapshot(model)}
    loaded = ir.load(path)
    seen = {}
    per_file = {}
    for g in loaded.graphs():
        for name, v in g.initializers.items():
            t = v.const_value
            o = originals[name]
            assert t.dtype == o.dtype, name
            assert list(t.shape) == list(o.shape), name
            assert t.tobytes() == o.tobytes(), name
            seen[name] = t
            if o.nbytes > threshold:
                assert isinstance(t, ir.ExternalTensor), f"{name} should be external"
                per_file.setdefault(t.location, []).append((t.offset, t.length, o.nbytes, name))
            else:
                assert not isinstance(t, ir.ExternalTensor), f"{name} should be inline"
    assert set(seen) == set(originals)
    base = os.path.dirname(path)
    for location, ranges in per_file.items():
        size = os.path.getsize(os.path.join(base, location))
        end = 0
        for offset, length, nbytes, name in ranges:  # declaration order
            assert length == nbytes
            assert offset >= end, f"{name}: overlap or out of order in {location}"
            assert offset + length <= size
            if alignment is not None and nbytes > align_threshold:
                assert offset % max(4096, alignment) == 0, name
            end = offset + length
        if limit is not None:
            assert end <= limit or len(ranges) == 1, f"{location} exceeds the shard limit"
    return per_file


def check_callbacks(records, per_file, n_external):
    assert len(records) == n_external
    assert sorted(r.index for r in records) == list(range(n_external)), "global indices not a permutation"
    assert all(r.total == n_external for r in records)
    by_file = {}
    for r in records:
        by_file.setdefault(r.filename, []).append(r)
    assert set(by_file) == {os.path.basename(k) for k in per_file}
    first = 0
    for filename in sorted(by_file):  # shard names sort in shard order
        rs = sorted(by_file[filename], key=lambda r: r.shard_index)
        assert [r.shard_index for r in rs] == list(range(len(rs)))
        assert all(r.shard_total == len(rs) for r in rs)
        assert [r.index for r in rs] == list(range(first, first + len(rs)))
        first += len(rs)


def main():
    logging.getLogger("onnx_ir").setLevel(logging.ERROR)  # oversized-shard warnings are expected
    model = build_model()
    snap = snapshot(model)
    n_cases = 0
    with tempfile.TemporaryDirectory() as root:
        for threshold in (0, 64):
            for limit in (None, 1, 200, 400, 10**9):
                for workers in (None, 1, 2, 5):
                    for alignment, align_threshold in ((None, 0), (4096, 100)):
                        case = os.path.join(root, f"c{n_cases}", "nested.dir")
                        os.makedirs(case)
                        path = os.path.join(case, "m.v1.onnx")
                        records = []
                        ir.save(
                            model, path, external_data="weights.v2.data",
                            size_threshold_bytes=threshold, max_shard_size_bytes=limit,
                            callback=lambda t, info: records.append(info),
                            max_workers=workers, alignment=alignment, align_threshold=align_threshold,
                        )
                        expect_same_objects(model, snap)
                        per_file = check_roundtrip(model, path, threshold, limit, alignment, align_threshold)
                        n_external = sum(1 for _, t in snap if t.nbytes > threshold)
                        check_callbacks(records, per_file, n_external)
                        if limit == 1:
                            # every tensor is oversized (or empty): one shard holds at most
                            # one non-empty tensor
                            for ranges in per_file.values():
                                assert sum(1 for r in ranges if r[1] > 0) <= 1
                        n_cases += 1

        # sub-directory destination, without callback (no callback wrapper is built)
        case = os.path.join(root, "subdir")
        os.makedirs(os.path.join(case, "data"))
        path = os.path.join(case, "m.onnx")
        for workers in (None, 3):
            ext = os.path.join("data", f"w{workers}.bin")
            ir.save(model, path, external_data=ext, max_shard_size_bytes=300, max_workers=workers,
                    size_threshold_bytes=0)
            expect_same_objects(model, snap)
            per_file = check_roundtrip(model, path, 0, 300, None, 0)
            assert all(k.startswith("data" + os.sep) or k.startswith("data/") for k in per_file)
            assert len(per_file) > 1

        # UNUSUAL 1: rejected call - a destination shard already exists
        before = {f: os.path.getsize(os.path.join(case, "data", f)) for f in os.listdir(os.path.join(case, "data"))}
        try:
            ir.save(model, path, external_data=os.path.join("data", "wNone.bin"), max_shard_size_bytes=300,
                    size_threshold_bytes=0,
                    callback=lambda t, i: (_ for _ in ()).throw(AssertionError("callback must not run")))
        except FileExistsError:
            pass
        else:
            raise AssertionError("expected FileExistsError")
        expect_same_objects(model, snap)
        after = {f: os.path.getsize(os.path.join(case, "data", f)) for f in os.listdir(os.path.join(case, "data"))}
        assert before == after, "a rejected sharded save touched files"

        # UNUSUAL 2: callback raising half-way, serial and concurrent shards
        class Boom(Exception):
            pass

        for workers in (None, 4):
            case2 = os.path.join(root, f"boom{workers}")
            os.makedirs(case2)
            calls = []

            def cb(t, info):
                calls.append(info.index)
                if info.index == 5:
                    raise Boom(info.filename)

            try:
                ir.save(model, os.path.join(case2, "m.onnx"), external_data="w.data",
                        max_shard_size_bytes=200, callback=cb, max_workers=workers,
                        size_threshold_bytes=0)
            except Boom:
                pass
            else:
                raise AssertionError("expected Boom")
            expect_same_objects(model, snap)
            assert not os.path.exists(os.path.join(case2, "m.onnx"))
            assert not [f for f in os.listdir(case2) if f.startswith(".")], "temporary files left behind"
            assert len(set(calls)) == len(calls)
            if workers is None:
                assert calls == [0, 1, 2, 3, 4, 5], calls

        # UNUSUAL 3: invalid options are refused before anything is written
        case3 = os.path.join(root, "bad")
        os.makedirs(case3)
        for kwargs in ({"max_shard_size_bytes": 0}, {"max_shard_size_bytes": 10, "max_workers": 0},
                       {"max_shard_size_bytes": 10, "alignment": 0}):
            try:
                ir.save(model, os.path.join(case3, "m.onnx"), external_data="w.data", **kwargs)
            except ValueError:
                pass
            else:
                raise AssertionError(f"expected ValueError for {kwargs}")
            assert os.listdir(case3) == []
            expect_same_objects(model, snap)

        # UNUSUAL 4: nothing above the threshold - sharded save of an empty tensor list
        case4 = os.path.join(root, "empty")
        os.makedirs(case4)
        records = []
        ir.save(model, os.path.join(case4, "m.onnx"), external_data="w.data", size_threshold_bytes=10**9,
                max_shard_size_bytes=100, max_workers=3, callback=lambda t, i: records.append(i))
        assert records == []
        expect_same_objects(model, snap)
        per_file = check_roundtrip(model, os.path.join(case4, "m.onnx"), 10**9, 100, None, 0)
        assert per_file == {}
        files = sorted(os.listdir(case4))
        assert len(files) == 2 and files[0] == "m.onnx", files  # one (empty) data file
        assert os.path.getsize(os.path.join(case4, files[1])) == 0

    print(f"OK ({n_cases} save/load combinations)")
    return 0


if __name__ == "__main__":
    sys.exit(main())
