"""Demo for C04: sub-byte (2- and 4-bit) tensor representations agree on values and bytes.

Exercises the pack/unpack code of onnx_ir through the public tensor API:
array-backed Tensor, PackedTensor, proto-backed tensor (raw_data and int32_data),
memory-mapped ExternalTensor at a non-zero offset, LazyTensor, tofile() into a
regular file at a position and into an in-memory buffer, and the ONNX reference
encoder/decoder.  Exits 0 when everything agrees.
"""

from __future__ import annotations

import io
import math
import os
import sys
import tempfile

import ml_dtypes
import numpy as np
import onnx
import onnx.numpy_helper

import onnx_ir as ir
from onnx_ir import serde

# (IR dtype, ml_dtypes dtype, every representable bit pattern)
SUB_BYTE = [
    (ir.DataType.INT4, ml_dtypes.int4, 16),
    (ir.DataType.UINT4, ml_dtypes.uint4, 16),
    (ir.DataType.FLOAT4E2M1, ml_dtypes.float4_e2m1fn, 16),
    (ir.DataType.INT2, ml_dtypes.int2, 4),
    (ir.DataType.UINT2, ml_dtypes.uint2, 4),
]
SHAPES = [(), (0,), (1,), (3,), (4,), (5,), (7,), (2, 3), (3, 0, 2), (1, 1, 1, 1, 5), (3, 3, 3), (16,), (17,)]

failures: list[str] = []


def check(cond: bool, msg: str) -> None:
    if not cond:
        failures.append(msg)


def reference_pack(codes: np.ndarray, bitwidth: int) -> bytes:
    """Independent little-endian packer working on python ints."""
    per_byte = 8 // bitwidth
    mask = (1 << bitwidth) - 1
    flat = [int(c) & mask for c in codes.ravel().tolist()]
    out = bytearray(math.ceil(len(flat) / per_byte))
    for i, code in enumerate(flat):
        out[i // per_byte] |= code << (bitwidth * (i % per_byte))
    return bytes(out)


def same_values(a: np.ndarray, b: np.ndarray) -> bool:
    # Compare bit patterns, so that -0.0 / 0.0 of float4 are told apart
    return a.shape == b.shape and a.dtype == b.dtype and a.view(np.uint8).tolist() == b.view(np.uint8).tolist()


def tofile_at_position(tensor, prefix: bytes, directory: str) -> bytes:
    path = os.path.join(directory, "pos.bin")
    with open(path, "wb") as f:
        f.write(prefix)
        tensor.tofile(f)
        f.write(b"\xee")
    with open(path, "rb") as f:
        content = f.read()
    assert content[: len(prefix)] == prefix and content[-1:] == b"\xee"
    return content[len(prefix) : -1]


def run_case(dtype: ir.DataType, np_dtype, n_codes: int, shape: tuple[int, ...], tmp: str, seed: int) -> None:
    tag = f"{dtype.name}{list(shape)}"
    size = math.prod(shape)
    rng = np.random.default_rng(seed)
    # every bit pattern appears (duplicates included) as soon as size >= n_codes
    codes = (np.arange(size, dtype=np.uint8) % n_codes).astype(np.uint8)
    rng.shuffle(codes)
    codes = codes.reshape(shape)
    values = codes.view(np_dtype) if size else np.zeros(shape, dtype=np_dtype)
    expected = reference_pack(codes, dtype.bitwidth)
    nbytes = math.ceil(size * dtype.bitwidth / 8)
    check(len(expected) == nbytes, f"{tag}: reference length")

    # 1. array-backed, from the ml_dtypes array and from the uint8 bit patterns
    reps = {
        "tensor_ml": ir.Tensor(values, dtype=dtype),
        "tensor_u8": ir.Tensor(codes.copy(), dtype=dtype),
        # Fortran-ordered backing array for rank >= 2 (asfortranarray would promote a 0-d array to 1-d)
        "tensor_fortran": ir.Tensor(np.asfortranarray(values) if len(shape) >= 2 else values.copy(), dtype=dtype),
    }
    # 2. packed
    packed_arr = np.frombuffer(expected, dtype=np.uint8)
    reps["packed"] = ir.PackedTensor(packed_arr, dtype, shape=shape)
    # 3. proto-backed: raw_data and int32_data
    proto_raw = onnx.TensorProto(data_type=int(dtype), dims=shape, raw_data=expected, name="raw")
    reps["proto_raw"] = serde.TensorProtoTensor(proto_raw)
    proto_i32 = onnx.TensorProto(data_type=int(dtype), dims=shape, name="i32")
    proto_i32.int32_data.extend(list(expected))
    if expected:  # an empty int32_data is not a storage field that is "set"
        reps["proto_i32"] = serde.TensorProtoTensor(proto_i32)
    # 4. external, memory mapped at an odd offset
    if nbytes:
        offset = 3
        with open(os.path.join(tmp, "ext.bin"), "wb") as f:
            f.write(b"\xaa" * offset + expected + b"\xbb" * 5)
        reps["external"] = ir.ExternalTensor("ext.bin", offset, nbytes, dtype, shape=ir.Shape(shape), name="ext", base_dir=tmp)
    # 5. lazy
    reps["lazy"] = ir.LazyTensor(lambda: ir.Tensor(values, dtype=dtype), dtype=dtype, shape=ir.Shape(shape))
    # 6. round trip through serialization
    reps["roundtrip"] = serde.deserialize_tensor(serde.serialize_tensor(reps["tensor_ml"]))

    for name, t in reps.items():
        where = f"{tag}/{name}"
        check(t.dtype == dtype, f"{where}: dtype {t.dtype}")
        check(tuple(t.shape.numpy()) == tuple(shape), f"{where}: shape {t.shape}")
        check(t.size == size and t.nbytes == nbytes, f"{where}: size/nbytes {t.size}/{t.nbytes}")
        arr = t.numpy()
        check(same_values(np.asarray(arr), values), f"{where}: numpy() differs: {arr!r} vs {values!r}")
        b = t.tobytes()
        check(isinstance(b, bytes) and b == expected, f"{where}: tobytes {b!r} != {expected!r}")
        buf = io.BytesIO()
        buf.write(b"hd")
        t.tofile(buf)
        check(buf.getvalue() == b"hd" + expected, f"{where}: tofile(BytesIO)")
        check(tofile_at_position(t, b"\x01\x02\x03\x04\x05", tmp) == expected, f"{where}: tofile(file at position 5)")
        # tobytes twice: packing must not disturb the backing data
        check(t.tobytes() == expected, f"{where}: second tobytes differs")
        if hasattr(t, "release"):
            t.release()
    check(same_values(values, codes.view(np_dtype) if size else values), f"{tag}: input mutated")

    # ONNX reference encoder / decoder
    ref_proto = onnx.numpy_helper.from_array(values, name="ref")
    check(ref_proto.data_type == int(dtype), f"{tag}: reference data_type")
    check(ref_proto.raw_data == expected, f"{tag}: reference encoder bytes {ref_proto.raw_data!r} != {expected!r}")
    decoded = onnx.numpy_helper.to_array(serde.serialize_tensor(reps["tensor_u8"]))
    check(same_values(np.asarray(decoded), values), f"{tag}: reference decoder values")


def unusual_inputs() -> None:
    # Negative int8 values (sign-extended) for INT4 / INT2: only the low bits are kept
    t = ir.Tensor(np.array([-8, -1, 7, 0, -3], dtype=np.int8), dtype=ir.DataType.INT4)
    check(t.tobytes() == bytes([0xF8, 0x07, 0x0D]), f"int8->INT4 bytes {t.tobytes()!r}")
    check(t.numpy().astype(np.int8).tolist() == [-8, -1, 7, 0, -3], "int8->INT4 values")
    t = ir.Tensor(np.array([-2, -1, 1, 0, -1], dtype=np.int8), dtype=ir.DataType.INT2)
    check(t.tobytes() == bytes([0b00_01_11_10, 0b11]), f"int8->INT2 bytes {t.tobytes()!r}")
    # Non-contiguous (strided, transposed) backing arrays
    base = (np.arange(24, dtype=np.uint8) % 4).reshape(4, 6)
    view = base.T[::2]
    t = ir.Tensor(view, dtype=ir.DataType.UINT2)
    check(t.tobytes() == reference_pack(np.ascontiguousarray(view), 2), "strided UINT2")
    t4 = ir.Tensor(view, dtype=ir.DataType.UINT4)
    check(t4.tobytes() == reference_pack(np.ascontiguousarray(view), 4), "strided UINT4")
    check(base.tolist() == ((np.arange(24) % 4).reshape(4, 6)).tolist(), "backing array mutated")
    # The packed result is a fresh array (not a view of a temporary) and is C-contiguous uint8
    packed = ir.PackedTensor(np.array([0xE4, 0x1B], dtype=np.uint8), ir.DataType.UINT2, shape=[7])
    arr = packed.numpy()
    check(arr.astype(np.uint8).tolist() == [0, 1, 2, 3, 3, 2, 1], f"UINT2 unpack {arr!r}")
    check(arr.flags["C_CONTIGUOUS"] and arr.shape == (7,), "UINT2 unpack layout")
    check(packed.numpy_packed().tolist() == [0xE4, 0x1B], "numpy_packed")
    # Proto-backed tensors with more bytes than the shape needs: extra elements are dropped
    for dtype, raw, dims, want in [
        (ir.DataType.UINT4, bytes([0x21, 0x43, 0x65]), [3], [1, 2, 3]),
        (ir.DataType.UINT4, bytes([0x21, 0x43, 0x65]), [2], [1, 2]),
        (ir.DataType.UINT2, bytes([0xE4, 0x1B, 0xFF]), [5], [0, 1, 2, 3, 3]),
        (ir.DataType.UINT2, bytes([0xE4]), [2, 1], [[0], [1]]),
    ]:
        p = onnx.TensorProto(data_type=int(dtype), dims=dims, raw_data=raw)
        got = serde.TensorProtoTensor(p).numpy()
        check(got.astype(np.uint8).tolist() == want, f"oversized raw_data {dtype.name}{dims}: {got!r}")
    # ... and with fewer bytes: zero filled
    p = onnx.TensorProto(data_type=int(ir.DataType.UINT2), dims=[6], raw_data=bytes([0xE4]))
    check(serde.TensorProtoTensor(p).numpy().astype(np.uint8).tolist() == [0, 1, 2, 3, 0, 0], "short raw_data UINT2")
    p = onnx.TensorProto(data_type=int(ir.DataType.UINT4), dims=[4], raw_data=bytes([0x21]))
    check(serde.TensorProtoTensor(p).numpy().astype(np.uint8).tolist() == [1, 2, 0, 0], "short raw_data UINT4")

    # Rejected calls
    def rejected(exc, fn, what):
        try:
            fn()
        except exc:
            return
        except Exception as e:  # noqa: BLE001
            failures.append(f"{what}: wrong exception {type(e).__name__}: {e}")
            return
        failures.append(f"{what}: not rejected")

    rejected(ValueError, lambda: ir.PackedTensor(np.zeros(3, np.uint8), ir.DataType.INT4, shape=[3]), "PackedTensor wrong byte count")
    rejected(ValueError, lambda: ir.PackedTensor(np.zeros(1, np.uint8), ir.DataType.INT2, shape=[5]), "PackedTensor wrong byte count (2 bit)")
    rejected(TypeError, lambda: ir.PackedTensor(np.zeros(2, ml_dtypes.int4), ir.DataType.INT4, shape=[4]), "PackedTensor unpacked value")
    rejected(TypeError, lambda: ir.PackedTensor(np.zeros(2, np.uint8), ir.DataType.INT8, shape=[2]), "PackedTensor 8-bit dtype")
    rejected(TypeError, lambda: ir.Tensor(np.zeros(2, np.int16), dtype=ir.DataType.INT4), "Tensor int16 for INT4")
    rejected(TypeError, lambda: ir.Tensor(np.zeros(2, np.int8), dtype=ir.DataType.UINT2), "Tensor int8 for UINT2")


def main() -> int:
    with tempfile.TemporaryDirectory() as tmp:
        seed = 0
        for dtype, np_dtype, n_codes in SUB_BYTE:
            for shape in SHAPES:
                seed += 1
                run_case(dtype, np_dtype, n_codes, shape, tmp, seed)
        unusual_inputs()
    if failures:
        print(f"{len(failures)} FAILURES")
        for f in failures[:40]:
            print("  -", f)
        return 1
    print(f"OK: {len(SUB_BYTE) * len(SHAPES)} dtype/shape cases and unusual inputs agree")
    return 0


if __name__ == "__main__":
    sys.exit(main())
