"""Demo for C01: use-def / ownership links around Graph.remove and Node.resize_inputs."""
import onnx_ir as ir


def check(graphs, loose_nodes=(), loose_values=()):
    """Check both directions of the use-def and ownership links."""
    nodes, values = list(loose_nodes), list(loose_values)
    for g in graphs:
        seq = list(g)
        assert len(seq) == len({id(n) for n in seq}), "node listed twice"
        for n in seq:
            assert n.graph is g
        nodes.extend(seq)
        values.extend(g.inputs)
        values.extend(g.outputs)
        values.extend(g.initializers.values())
        for name, v in g.initializers.items():
            assert v.name == name and v.is_initializer() and v.graph is g
            assert v.producer() is None
        for v in g.inputs:
            assert v.is_graph_input() and v.graph is g and v.producer() is None
        for v in g.outputs:
            assert v.is_graph_output() and v.graph is g
    for n in nodes:
        in_some = [g for g in graphs if any(m is n for m in g)]
        if n.graph is None:
            assert not in_some
        else:
            assert len(in_some) == 1 and in_some[0] is n.graph
        for i, v in enumerate(n.inputs):
            if v is not None:
                values.append(v)
                assert (n, i) in v.uses(), (n, i)
        for i, v in enumerate(n.outputs):
            values.append(v)
            assert v.producer() is n and v.index() == i
    for v in values:
        uses = list(v.uses())
        assert len(uses) == len(set(uses))
        for user, idx in uses:
            assert user.inputs[idx] is v
            assert any(user is n for n in nodes), "use by an unknown node"
        assert v.is_graph_input() == any(v is x for g in graphs for x in g.inputs)
        assert v.is_graph_output() == any(v is x for g in graphs for x in g.outputs)
        assert v.is_initializer() == any(
            v is x for g in graphs for x in g.initializers.values()
        )


def expect(exc, fn, *args, **kwargs):
    try:
        fn(*args, **kwargs)
    except exc:
        return
    raise AssertionError(f"{fn} did not raise {exc}")


def main():
    x = ir.Value(name="x")
    w = ir.Value(name="w", const_value=ir.tensor([1.0], name="w"))
    a = ir.Node("", "Add", [x, x, w], name="a")  # x used twice
    b = ir.Node("", "Mul", [a.outputs[0], None, x], name="b")  # a None slot
    c = ir.Node("", "Relu", [b.outputs[0]], name="c")
    d = ir.Node("", "Identity", [], name="d")  # no inputs at all
    # nested: a subgraph whose node captures a value of the outer graph
    inner_n = ir.Node("", "Neg", [a.outputs[0]], name="inner")
    sub = ir.Graph([], [inner_n.outputs[0]], nodes=[inner_n], name="sub")
    e = ir.Node("", "If", [x], attributes=[ir.AttrGraph("then_branch", sub)], name="e")
    g = ir.Graph([x], [c.outputs[0]], nodes=[a, b, c, d, e], initializers=[w], name="g")
    other = ir.Graph([], [], nodes=[], name="other")
    graphs = [g, sub, other]
    everything = [a, b, c, d, e, inner_n]
    check(graphs, everything)

    # ---- rejected removals leave everything as it was
    snapshot = [n.name for n in g]
    expect(ValueError, g.remove, a, safe=True)  # still used by b and by inner
    expect(ValueError, g.remove, c, safe=True)  # contributes to a graph output
    expect(ValueError, g.remove, [d, a], safe=True)  # d is fine, a is not
    expect(ValueError, g.remove, [d, inner_n])  # inner belongs to sub
    expect(ValueError, other.remove, d)  # not a node of 'other'
    expect(ValueError, g.remove, [a, b, c], safe=True)  # c is an output, inner uses a
    assert [n.name for n in g] == snapshot
    assert len(x.uses()) == 4 and len(a.outputs[0].uses()) == 2
    check(graphs, everything)

    # ---- empty iterable and duplicates
    g.remove([])
    g.remove(iter(()), safe=True)
    assert [n.name for n in g] == snapshot
    g.remove([d, d, d], safe=True)  # duplicates collapse; node without inputs
    assert d.graph is None and [n.name for n in g] == ["a", "b", "c", "e"]
    expect(ValueError, g.remove, d)  # removing twice is rejected
    check(graphs, everything)

    # ---- unsafe removal keeps the inputs (and therefore the uses)
    g.remove(e)
    assert e.graph is None and e.inputs == (x,) and (e, 0) in x.uses()
    check(graphs, everything)
    other.append(e)  # a removed node can be adopted elsewhere
    assert e.graph is other
    check(graphs, everything)

    # ---- safe removal of a group: inputs are detached, outputs keep the producer
    sub.remove(inner_n, safe=False)
    sub.outputs.clear()
    inner_n.resize_inputs(0)
    assert a.outputs[0].uses() == ((b, 0),)
    g.outputs[0] = b.outputs[0]
    g.remove(iter([c]), safe=True)
    assert c.inputs == (None,) and c.graph is None
    assert b.outputs[0].uses() == () and b.outputs[0].is_graph_output()
    g.outputs.clear()
    g.remove((n for n in [a, b]), safe=True)  # a generator; b uses a, both go
    assert len(g) == 0
    assert a.inputs == (None, None, None) and b.inputs == (None, None, None)
    assert x.uses() == ((e, 0),) and w.uses() == ()
    assert a.outputs[0].producer() is a and a.outputs[0].uses() == ()
    check(graphs, everything)

    # ---- resize_inputs: shrink, grow, no-op and invalid sizes
    n = ir.Node("", "Concat", [x, w, x, None, w], name="n")
    g.append(n)
    check(graphs, everything + [n])
    n.resize_inputs(5)
    assert n.inputs == (x, w, x, None, w)
    expect(ValueError, n.resize_inputs, -1)  # rejected before anything is detached
    assert n.inputs == (x, w, x, None, w)
    assert set(w.uses()) == {(n, 1), (n, 4)}
    expect(TypeError, n.resize_inputs, 2.5)
    expect(TypeError, n.resize_inputs, None)
    assert n.inputs == (x, w, x, None, w)
    check(graphs, everything + [n])
    n.resize_inputs(2)
    assert n.inputs == (x, w) and w.uses() == ((n, 1),)
    assert set(x.uses()) == {(e, 0), (n, 0)}
    n.resize_inputs(4)
    assert n.inputs == (x, w, None, None)
    n.replace_input_with(3, x)
    expect(ValueError, n.replace_input_with, 4, x)
    check(graphs, everything + [n])
    n.resize_inputs(0)
    assert n.inputs == () and w.uses() == () and x.uses() == ((e, 0),)
    g.remove(n, safe=True)  # safe removal of a node with zero inputs
    assert n.graph is None and len(g) == 0
    check(graphs, everything + [n])

    # ---- Function.remove goes through the same code
    fx = ir.Value(name="fx")
    f1 = ir.Node("", "Abs", [fx], name="f1")
    f2 = ir.Node("", "Neg", [f1.outputs[0]], name="f2")
    fg = ir.Graph([fx], [f2.outputs[0]], nodes=[f1, f2], name="fg")
    func = ir.Function("dom", "fn", graph=fg, attributes=[])
    expect(ValueError, func.remove, f1, safe=True)
    expect(ValueError, func.remove, [f1, f2], safe=True)  # f2 makes the output
    assert len(func) == 2
    fg.outputs.clear()
    func.remove([f2, f1], safe=True)
    assert len(func) == 0 and fx.uses() == () and f1.outputs[0].uses() == ()
    check([fg], [f1, f2])
    print("OK")


if __name__ == "__main__":
    main()
