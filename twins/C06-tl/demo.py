"""C06 demo: rejected Node.resize_outputs / Graph.register_initializer leave everything untouched."""

import numpy as np

import onnx_ir as ir


def snapshot(graph: ir.Graph):
    """Observable state of the graph, its nodes and all values reachable from it."""

    def val(v):
        if v is None:
            return None
        return (
            id(v),
            v.name,
            id(v.producer()) if v.producer() is not None else None,
            v.index(),
            tuple((id(u.node), u.idx) for u in v.uses()),
            id(v.graph) if v.graph is not None else None,
            v.is_graph_input(),
            v.is_graph_output(),
            v.is_initializer(),
            id(v.const_value) if v.const_value is not None else None,
        )

    nodes = []
    for n in graph:
        nodes.append(
            (
                id(n),
                n.name,
                id(n.graph) if n.graph is not None else None,
                tuple(val(v) for v in n.inputs),
                tuple(val(v) for v in n.outputs),
                len(n.outputs),
            )
        )
    return (
        tuple(nodes),
        tuple(val(v) for v in graph.inputs),
        tuple(val(v) for v in graph.outputs),
        tuple((k, val(v)) for k, v in graph.initializers.items()),
    )


def expect_raises(exc, fn, *args):
    try:
        fn(*args)
    except exc as e:
        return e
    raise AssertionError(f"{fn} did not raise {exc}")


def main():
    x = ir.Value(name="x")
    split = ir.Node("", "Split", [x], num_outputs=4, name="split")
    o0, o1, o2, o3 = split.outputs
    # o3 (the LAST removed one) is used twice by the same node; o1 and o2 are unused
    user = ir.Node("", "Add", [o3, o3], name="user")
    w = ir.Value(name="w", const_value=ir.tensor(np.array([1.0], dtype=np.float32)))
    graph = ir.Graph([x], [user.outputs[0], o0], nodes=[split, user], initializers=[w], name="g")

    # ---- resize_outputs: rejected shrink, offender at the last / middle position
    before = snapshot(graph)
    for new_size in (1, 2, 3, 0, -1):
        err = expect_raises(ValueError, split.resize_outputs, new_size)
        assert "because it has uses" in str(err), err
        assert snapshot(graph) == before, f"state changed by rejected resize_outputs({new_size})"
        assert split.outputs == (o0, o1, o2, o3)
        assert all(o.producer() is split and o.index() == i for i, o in enumerate(split.outputs))
    # no-op and retry after removing the use
    split.resize_outputs(4)
    assert snapshot(graph) == before
    user.replace_input_with(0, None)
    err = expect_raises(ValueError, split.resize_outputs, 2)  # one use left at index 1
    assert split.outputs == (o0, o1, o2, o3) and o3.producer() is split
    user.replace_input_with(1, None)
    split.resize_outputs(2)
    assert split.outputs == (o0, o1)
    assert o2.producer() is None and o3.producer() is None
    assert o2.index() == -1 and o3.index() == -1
    assert o0.producer() is split and o1.index() == 1
    # grow again: new values, attached at the right positions
    split.resize_outputs(3)
    assert len(split.outputs) == 3 and split.outputs[2] is not o2
    assert split.outputs[2].producer() is split and split.outputs[2].index() == 2
    # shrink to the empty tuple of removed outputs is a no-op via equal size
    split.resize_outputs(3)
    assert len(split.outputs) == 3

    # ---- register_initializer: each rejection leaves the graph untouched
    before = snapshot(graph)
    unnamed = ir.Value(const_value=ir.tensor(np.array([2.0], dtype=np.float32)))
    err = expect_raises(ValueError, graph.register_initializer, unnamed)
    assert "must have a name" in str(err)
    assert unnamed.name is None and unnamed.graph is None and not unnamed.is_initializer()
    assert snapshot(graph) == before

    clash = ir.Value(name="w", const_value=ir.tensor(np.array([3.0], dtype=np.float32)))
    err = expect_raises(ValueError, graph.register_initializer, clash)
    assert "already registered" in str(err)
    assert "existing={self._initializers[value.name]!r}" in str(err)  # message is verbatim
    assert clash.graph is None and not clash.is_initializer()
    assert graph.initializers["w"] is w
    assert snapshot(graph) == before

    no_const = ir.Value(name="nc")
    err = expect_raises(ValueError, graph.register_initializer, no_const)
    assert "const_value" in str(err)
    assert no_const.graph is None and not no_const.is_initializer()
    # both a clash and no const_value: the clash is reported first
    clash_no_const = ir.Value(name="w")
    err = expect_raises(ValueError, graph.register_initializer, clash_no_const)
    assert "already registered" in str(err)
    assert snapshot(graph) == before

    # produced by a node: rejected by the container, still nothing changes
    o0.const_value = ir.tensor(np.array([4.0], dtype=np.float32))
    before = snapshot(graph)
    err = expect_raises(ValueError, graph.register_initializer, o0)
    assert "produced by a node" in str(err)
    assert not o0.is_initializer()
    assert snapshot(graph) == before

    # owned by another graph
    other_w = ir.Value(name="ow", const_value=ir.tensor(np.array([5.0], dtype=np.float32)))
    other = ir.Graph([], [], nodes=[], initializers=[other_w], name="other")
    before_other = snapshot(other)
    before = snapshot(graph)
    expect_raises(ValueError, graph.register_initializer, other_w)
    assert snapshot(graph) == before and snapshot(other) == before_other
    assert other_w.graph is other

    # re-registering the same object is accepted and idempotent; a new one is accepted
    graph.register_initializer(w)
    assert snapshot(graph) == before
    fresh = ir.Value(name="fresh", const_value=ir.tensor(np.array([6.0], dtype=np.float32)))
    graph.register_initializer(fresh)
    assert graph.initializers["fresh"] is fresh and fresh.graph is graph and fresh.is_initializer()
    print("C06 demo OK")


if __name__ == "__main__":
    main()
