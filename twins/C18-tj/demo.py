"""Demo for C18: region extraction and implicit-capture analysis are exact.

Runs the public API (ir.convenience.extract, ir.analysis.analyze_implicit_usage)
on a graph with nested subgraphs (GRAPH and GRAPHS attributes, two levels deep),
checks exactness, independence, order, initializers, rejections and numerics.
"""

from __future__ import annotations

import sys

import numpy as np

import onnx_ir as ir
from onnx_ir import analysis, convenience

F = ir.DataType.FLOAT


def fval(name):
    return ir.val(name, dtype=F, shape=[3])


def build():
    cond = ir.val("cond", dtype=ir.DataType.BOOL, shape=[])
    x, y = fval("x"), fval("y")
    w = fval("w")
    w.const_value = ir.tensor(np.array([1.0, 2.0, 3.0], dtype=np.float32), name="w")
    w2 = fval("w2")
    w2.const_value = ir.tensor(np.array([10.0, 20.0, 30.0], dtype=np.float32), name="w2")
    w_unused = fval("w_unused")
    w_unused.const_value = ir.tensor(np.zeros(3, dtype=np.float32), name="w_unused")

    n_add = ir.node("Add", inputs=[x, w], outputs=[fval("a")], name="n_add")
    a = n_add.outputs[0]
    n_mul = ir.node("Mul", inputs=[y, y], outputs=[fval("b")], name="n_mul")
    b = n_mul.outputs[0]
    n_neg = ir.node("Neg", inputs=[y], outputs=[fval("unused")], name="n_neg")

    # depth-2 graph: captures b (main graph) and w2 (main initializer) and t0 (then graph)
    in_mul = ir.node("Mul", inputs=[b, w2], outputs=[fval("i0")], name="in_mul")
    t_id = ir.node("Identity", inputs=[a], outputs=[fval("t0")], name="t_id")
    in_add = ir.node(
        "Add", inputs=[in_mul.outputs[0], t_id.outputs[0]], outputs=[fval("i1")], name="in_add"
    )
    inner_then = ir.Graph([], [in_add.outputs[0]], nodes=[in_mul, in_add], name="inner_then")
    in_else_id = ir.node("Identity", inputs=[t_id.outputs[0]], outputs=[fval("i2")], name="ie")
    inner_else = ir.Graph([], [in_else_id.outputs[0]], nodes=[in_else_id], name="inner_else")
    t_if = ir.node(
        "If",
        inputs=[cond],
        outputs=[fval("t1")],
        attributes={"then_branch": inner_then, "else_branch": inner_else},
        name="t_if",
    )
    then_g = ir.Graph([], [t_if.outputs[0]], nodes=[t_id, t_if], name="then_g")
    e_id = ir.node("Identity", inputs=[a], outputs=[fval("e0")], name="e_id")
    else_g = ir.Graph([], [e_id.outputs[0]], nodes=[e_id], name="else_g")
    n_if = ir.node(
        "If",
        inputs=[cond],
        outputs=[fval("r")],
        attributes={"then_branch": then_g, "else_branch": else_g},
        name="n_if",
    )
    r = n_if.outputs[0]

    # A custom op with a GRAPHS attribute: the result is r + sum of the bodies' outputs
    b1_n = ir.node("Neg", inputs=[x], outputs=[fval("p0")], name="b1_n")
    body1 = ir.Graph([], [b1_n.outputs[0]], nodes=[b1_n], name="body1")
    b2_n = ir.node("Mul", inputs=[a, a], outputs=[fval("q0")], name="b2_n")
    b2_m = ir.node("Relu", inputs=[b2_n.outputs[0]], outputs=[fval("q1")], name="b2_m")
    body2 = ir.Graph([], [b2_m.outputs[0]], nodes=[b2_n, b2_m], name="body2")
    body3_in = fval("own_in")  # closed body: captures nothing
    b3_n = ir.node("Identity", inputs=[body3_in], outputs=[fval("s0")], name="b3_n")
    body3 = ir.Graph([body3_in], [b3_n.outputs[0]], nodes=[b3_n], name="body3")
    n_cust = ir.node(
        "SumBodies",
        domain="demo",
        inputs=[r],
        outputs=[fval("z")],
        attributes={
            "k": 3,
            "bodies": ir.Attr("bodies", ir.AttributeType.GRAPHS, [body1, body2, body3]),
        },
        name="n_cust",
    )
    n_relu = ir.node("Relu", inputs=[n_cust.outputs[0]], outputs=[fval("out")], name="n_relu")
    graph = ir.Graph(
        [cond, x, y],
        [n_relu.outputs[0]],
        nodes=[n_add, n_mul, n_neg, n_if, n_cust, n_relu],
        initializers=[w, w2, w_unused],
        opset_imports={"": 20, "demo": 1},
        name="main",
    )
    subs = dict(
        then_g=then_g, else_g=else_g, inner_then=inner_then, inner_else=inner_else,
        body1=body1, body2=body2, body3=body3,
    )
    return graph, subs


# ---------------------------------------------------------------- tiny interpreter
def evaluate(graph, feeds, outer=None):
    """Evaluate `graph` by value NAME; returns the environment of this scope."""
    env = dict(outer or {})
    for name, v in graph.initializers.items():
        if name not in feeds:
            env[name] = v.const_value.numpy()
    env.update(feeds)
    for node in graph:
        ins = [None if i is None else env[i.name] for i in node.inputs]
        op = node.op_type
        if op == "Add":
            res = ins[0] + ins[1]
        elif op == "Mul":
            res = ins[0] * ins[1]
        elif op == "Neg":
            res = -ins[0]
        elif op == "Relu":
            res = np.maximum(ins[0], 0)
        elif op == "Identity":
            res = ins[0]
        elif op == "If":
            g = node.attributes["then_branch" if bool(ins[0]) else "else_branch"].as_graph()
            res = evaluate(g, {}, env)[g.outputs[0].name]
        elif op == "SumBodies":
            res = ins[0]
            for g in node.attributes["bodies"].as_graphs():
                f = {i.name: ins[0] for i in g.inputs}
                res = res + evaluate(g, f, env)[g.outputs[0].name]
        else:
            raise AssertionError(op)
        env[node.outputs[0].name] = res
    return env


# ---------------------------------------------------------------- helpers
def all_objects(graph):
    """ids of every Graph/Node/Value object reachable from `graph` (recursively)."""
    ids = {id(graph)}
    for v in list(graph.inputs) + list(graph.outputs) + list(graph.initializers.values()):
        ids.add(id(v))
    for node in graph:
        ids.add(id(node))
        for v in list(node.inputs) + list(node.outputs):
            if v is not None:
                ids.add(id(v))
        for attr in node.attributes.values():
            if attr.type == ir.AttributeType.GRAPH:
                ids |= all_objects(attr.as_graph())
            elif attr.type == ir.AttributeType.GRAPHS:
                for g in attr.as_graphs():
                    ids |= all_objects(g)
    return ids


def names(nodes):
    return [n.name for n in nodes]


def expect_value_error(fn, *needles):
    try:
        fn()
    except ValueError as e:
        for needle in needles:
            assert needle in str(e), (needle, str(e))
        return
    raise AssertionError("expected ValueError")


def check_region(src, src_env, src_ids, inputs, outputs, want_nodes, want_inits):
    ext = convenience.extract(src, inputs=inputs, outputs=outputs)
    assert isinstance(ext, ir.Graph)
    assert names(ext) == want_nodes, (names(ext), want_nodes)
    assert sorted(ext.initializers) == sorted(want_inits), sorted(ext.initializers)
    in_names = [i if isinstance(i, str) else i.name for i in inputs]
    out_names = [o if isinstance(o, str) else o.name for o in outputs]
    assert [v.name for v in ext.inputs] == in_names
    assert [v.name for v in ext.outputs] == out_names
    # independence: not a single shared Graph/Node/Value object
    assert not (all_objects(ext) & src_ids)
    for node in ir.traversal.RecursiveGraphIterator(ext):
        for v in node.inputs:
            assert v is None or id(v) not in src_ids
    # numerics: same values at the outputs when fed the source's boundary values
    env = evaluate(ext, {n: src_env[n] for n in in_names})
    for n in out_names:
        np.testing.assert_array_equal(env[n], src_env[n])
    return ext


def main():
    for cond_value in (True, False):
        graph, subs = build()
        before = names(graph)
        src_ids = all_objects(graph)
        feeds = {
            "cond": np.array(cond_value),
            "x": np.array([-5.0, 0.5, 2.0], dtype=np.float32),
            "y": np.array([1.0, -2.0, 3.0], dtype=np.float32),
        }
        src_env = evaluate(graph, feeds)
        V = {v.name: v for n in graph for v in n.outputs}
        V.update({v.name: v for v in graph.inputs})

        # 1. whole region by name: Neg is not needed, w_unused is not needed,
        #    w2 is needed only two levels deep.
        check_region(
            graph, src_env, src_ids, ["cond", "x", "y"], ["out"],
            ["n_add", "n_mul", "n_if", "n_cust", "n_relu"], ["w", "w2"],
        )
        # 2. by object, inner boundary: only If is needed; x, y, w not needed.
        check_region(
            graph, src_env, src_ids, [V["a"], V["b"], V["cond"]], [V["r"]],
            ["n_if"], ["w2"],
        )
        # 3. mixed name/object, GRAPHS attribute captures x (body1) and a (body2).
        check_region(
            graph, src_env, src_ids, [V["r"], "a", V["x"]], ["out"],
            ["n_cust", "n_relu"], [],
        )
        # 4. a boundary input that is an initializer, plus an unused input (y is
        #    needed through b which is captured at depth 2).
        check_region(
            graph, src_env, src_ids, ["w", "x", "cond", "y", "unused"], ["r", "a"],
            ["n_add", "n_mul", "n_if"], ["w", "w2"],
        )
        # 5. an output that is also an input: no nodes at all.
        check_region(graph, src_env, src_ids, ["a"], ["a"], [], [])

        # Rejections
        # captured-only requirement: x is needed only by body1 inside the GRAPHS attr
        # (the library currently rejects this one late, while cloning, with a RuntimeError
        # chained from a ValueError; the demo only requires that it is rejected)
        try:
            convenience.extract(graph, inputs=["r", "a"], outputs=["out"])
        except (ValueError, RuntimeError):
            pass
        else:
            raise AssertionError("an uncovered captured graph input must be rejected")
        # b is captured two levels deep -> its producer needs y
        expect_value_error(
            lambda: convenience.extract(graph, inputs=[V["cond"], V["a"]], outputs=[V["r"]]),
            "not properly bounded", ": y",
        )
        # several missing ones are reported sorted by name
        expect_value_error(
            lambda: convenience.extract(graph, inputs=[], outputs=["out"]),
            ": cond, x, y",
        )
        expect_value_error(
            lambda: convenience.extract(graph, inputs=["x"], outputs=[]), "At least one output"
        )
        expect_value_error(
            lambda: convenience.extract(graph, inputs=["nope"], outputs=["out"]), "'nope' not found"
        )
        # a value of a nested graph is not a value of the graph
        t0 = subs["then_g"][0].outputs[0]
        expect_value_error(
            lambda: convenience.extract(graph, inputs=[t0], outputs=["out"]), "does not belong"
        )
        expect_value_error(
            lambda: convenience.extract(graph, inputs=["t0"], outputs=["out"]), "'t0' not found"
        )

        # The source is untouched by all of the above
        assert names(graph) == before
        assert all_objects(graph) == src_ids
        assert sorted(graph.initializers) == ["w", "w2", "w_unused"]

        # GraphView over the source: same region
        view = ir.GraphView(
            graph.inputs, graph.outputs, nodes=list(graph),
            initializers=list(graph.initializers.values()), name="view",
            opset_imports=graph.opset_imports,
        )
        check_region(
            view, src_env, src_ids, [V["a"], V["b"], V["cond"]], [V["r"]], ["n_if"], ["w2"]
        )

        # Capture analysis: exact sets, for every nested graph
        usage = analysis.analyze_implicit_usage(graph)
        want = {
            "then_g": {"a", "cond", "b", "w2"},
            "else_g": {"a"},
            "inner_then": {"b", "w2", "t0"},
            "inner_else": {"t0"},
            "body1": {"x"},
            "body2": {"a"},
            "body3": set(),
        }
        assert len(usage) == len(want)
        for key, g in subs.items():
            got = usage[g]
            assert {v.name for v in got} == want[key], (key, {v.name for v in got})
            # the very objects of the source, not copies
            assert all(id(v) in src_ids for v in got)
        assert graph not in usage
        # repeatable (no state left behind)
        again = analysis.analyze_implicit_usage(graph)
        assert again == usage

        # The same analysis on an extracted copy reports the copy's own values
        ext = convenience.extract(graph, inputs=["cond", "x", "y"], outputs=["out"])
        ext_usage = analysis.analyze_implicit_usage(ext)
        assert sorted(g.name for g in ext_usage) == sorted(want)
        for g, got in ext_usage.items():
            assert {v.name for v in got} == want[g.name]
            assert not any(id(v) in src_ids for v in got)

    # Function: initializers of boundary inputs are not recorded
    x, y = fval("fx"), fval("fy")
    f_add = ir.node("Add", inputs=[x, y], outputs=[fval("fa")], name="f_add")
    f_body_n = ir.node("Mul", inputs=[f_add.outputs[0], x], outputs=[fval("fb0")], name="fbn")
    f_body = ir.Graph([], [f_body_n.outputs[0]], nodes=[f_body_n], name="f_body")
    f_wrap = ir.node(
        "Wrap", domain="demo", inputs=[], outputs=[fval("fw")],
        attributes={"body": f_body}, name="f_wrap",
    )
    f_dead = ir.node("Neg", inputs=[x], outputs=[fval("fd")], name="f_dead")
    fg = ir.Graph(
        [x, y], [f_wrap.outputs[0]], nodes=[f_add, f_dead, f_wrap],
        opset_imports={"": 20, "demo": 1}, name="fn_graph",
    )
    func = ir.Function("demo", "Fn", graph=fg, attributes=[])
    ext = convenience.extract(func, inputs=["fx", "fy"], outputs=["fw"])
    assert names(ext) == ["f_add", "f_wrap"]
    assert not (all_objects(ext) & all_objects(fg))
    # the node without inputs captures fa and fx only through its body
    expect_value_error(
        lambda: convenience.extract(func, inputs=["fy"], outputs=["fw"]), ": fx"
    )
    ext = convenience.extract(func, inputs=["fa", "fx"], outputs=["fw"])
    assert names(ext) == ["f_wrap"]
    assert {v.name for v in analysis.analyze_implicit_usage(fg)[f_body]} == {"fa", "fx"}
    # empty graph: nothing to report
    assert analysis.analyze_implicit_usage(ir.Graph([], [], nodes=[], name="empty")) == {}

    print("C18 demo OK")
    return 0


if __name__ == "__main__":
    sys.exit(main())
