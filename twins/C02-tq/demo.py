"""Round trip of tensor protos (all storage kinds) through onnx_ir.serde: proto -> IR -> proto."""
import sys

import numpy as np
import onnx
from onnx import TensorProto, helper

import onnx_ir as ir
from onnx_ir import serde


def sorted_md(p):
    q = type(p)()
    q.CopyFrom(p)
    entries = sorted(((e.key, e.value) for e in q.metadata_props))
    del q.metadata_props[:]
    for k, v in entries:
        q.metadata_props.add(key=k, value=v)
    return q


def check_roundtrip(p, expected_cls):
    t = serde.deserialize_tensor(p)
    assert type(t).__name__ == expected_cls, (type(t), expected_cls)
    out = serde.serialize_tensor(t)
    assert sorted_md(out) == sorted_md(p), f"round trip differs:\n{p}\n---\n{out}"
    # serialize_tensor_into into a fresh proto gives the same result; to_proto/from_proto too
    out2 = TensorProto()
    serde.serialize_tensor_into(out2, from_=t)
    assert out2 == out
    assert ir.to_proto(ir.from_proto(p)) == out
    return t, out


def ext_entries(p):
    return [(e.key, e.value) for e in p.external_data]


# 1. raw_data tensor with name, doc string and metadata in non-sorted order
p = helper.make_tensor("w", TensorProto.FLOAT, [2, 2], np.arange(4, dtype="<f4").tobytes(), raw=True)
p.doc_string = "weights"
p.metadata_props.add(key="z", value="1")
p.metadata_props.add(key="a", value="2")
t, out = check_roundtrip(p, "TensorProtoTensor")
assert [(e.key, e.value) for e in out.metadata_props] == [("a", "2"), ("z", "1")]

# 2. typed storage fields: float_data, int32_data (fp16 bits), int64_data, uint64_data, double_data
for args in [
    ("f", TensorProto.FLOAT, [3], [1.0, 2.5, -3.0]),
    ("i", TensorProto.INT64, [2], [7, -9]),
    ("u", TensorProto.UINT64, [1], [2**40]),
    ("d", TensorProto.DOUBLE, [2], [0.5, 1e300]),
    ("b", TensorProto.BOOL, [2], [True, False]),
    ("c", TensorProto.COMPLEX64, [1], [1 + 2j]),
]:
    check_roundtrip(helper.make_tensor(*args), "TensorProtoTensor")

# 3. empty tensor, no name at all (unusual: empty input), and zero-dim scalar
empty = TensorProto(data_type=TensorProto.INT32, dims=[0])
t, out = check_roundtrip(empty, "TensorProtoTensor")
assert not out.HasField("name") and not out.HasField("raw_data")
check_roundtrip(helper.make_tensor("s", TensorProto.INT32, [], [5]), "TensorProtoTensor")

# 4. IR metadata is authoritative for proto-backed tensors (edit after deserialisation)
p = helper.make_tensor("m", TensorProto.INT32, [1], [1])
p.metadata_props.add(key="k", value="v")
t = serde.deserialize_tensor(p)
t.metadata_props["extra"] = "x"
del t.metadata_props["k"]
out = serde.serialize_tensor(t)
assert [(e.key, e.value) for e in out.metadata_props] == [("extra", "x")]
assert [(e.key, e.value) for e in p.metadata_props] == [("k", "v")]  # source untouched
t.metadata_props.clear()
assert len(serde.serialize_tensor(t).metadata_props) == 0
# serialising into the backing proto itself (aliasing) keeps payload
t2 = serde.deserialize_tensor(p)
serde.serialize_tensor_into(t2.raw, from_=t2)
assert t2.raw.int32_data == [1] and t2.raw.name == "m"

# 5. string tensor
p = helper.make_tensor("str", TensorProto.STRING, [2], [b"ab", b"\xff\xfe"])
p.doc_string = "bytes"
p.metadata_props.add(key="q", value="r")
t, out = check_roundtrip(p, "StringTensor")
assert list(out.string_data) == [b"ab", b"\xff\xfe"]

# 6. external tensors: location only / with offset and length / offset 0 / duplicate keys
def ext_proto(entries, name="e"):
    p = TensorProto(name=name, data_type=TensorProto.FLOAT, dims=[2, 3])
    p.data_location = TensorProto.EXTERNAL
    for k, v in entries:
        p.external_data.add(key=k, value=v)
    return p


p = ext_proto([("location", "weights.bin")])
t, out = check_roundtrip(p, "ExternalTensor")
assert ext_entries(out) == [("location", "weights.bin")]

p = ext_proto([("location", "sub/w.bin"), ("offset", "4096"), ("length", "24")])
p.doc_string = "ext"
p.metadata_props.add(key="b", value="1")
p.metadata_props.add(key="a", value="0")
t, out = check_roundtrip(p, "ExternalTensor")
assert (t.location, t.offset, t.length) == ("sub/w.bin", 4096, 24)
assert ext_entries(out) == [("location", "sub/w.bin"), ("offset", "4096"), ("length", "24")]
assert out.data_location == TensorProto.EXTERNAL and not out.HasField("raw_data")

# offset 0 is kept (0 is not None), length unset is dropped
p = ext_proto([("location", "w.bin"), ("offset", "0")])
t, out = check_roundtrip(p, "ExternalTensor")
assert ext_entries(out) == [("location", "w.bin"), ("offset", "0")]

# entries given in another order are normalised to location, offset, length
p = ext_proto([("length", "8"), ("location", "w.bin")])
out = serde.serialize_tensor(serde.deserialize_tensor(p))
assert ext_entries(out) == [("location", "w.bin"), ("length", "8")]

# duplicate keys: the last one wins on the way in; one entry on the way out
p = ext_proto([("location", "first.bin"), ("location", "second.bin")])
out = serde.serialize_tensor(serde.deserialize_tensor(p))
assert ext_entries(out) == [("location", "second.bin")]

# base_path is carried by the IR object only
t = serde.deserialize_tensor(ext_proto([("location", "w.bin")]), "/some/dir")
assert str(t.base_dir) == "/some/dir"
assert ext_entries(serde.serialize_tensor(t)) == [("location", "w.bin")]

# 7. rejected calls: a non-numeric offset and an unknown data type are SerdeError, nothing returned
for bad in (
    ext_proto([("location", "w.bin"), ("offset", "not-a-number")], name="bad1"),
    TensorProto(name="bad2", data_type=999, data_location=TensorProto.EXTERNAL),
):
    try:
        serde.deserialize_tensor(bad, "")
    except serde.SerdeError as e:
        assert bad.name in str(e), str(e)
        assert e.__cause__ is not None
    else:
        raise AssertionError("expected SerdeError")

# serialising a tensor without usable payload is rejected and wrapped once
class Broken(ir.Tensor):
    def tobytes(self):
        raise RuntimeError("boom")


dst = TensorProto()
try:
    serde.serialize_tensor_into(dst, from_=Broken(np.zeros((2,), dtype=np.float32), name="brk"))
except serde.SerdeError as e:
    assert isinstance(e.__cause__, RuntimeError)
else:
    raise AssertionError("expected SerdeError")
# fields written before the failure are there, nothing after it
assert dst.name == "brk" and list(dst.dims) == [2] and not dst.HasField("raw_data")

# 8. whole model: initializers of the three kinds + tensor attribute nested in a subgraph
sub = helper.make_graph(
    [helper.make_node("Constant", [], ["c"], value=helper.make_tensor("ct", TensorProto.STRING, [1], [b"x"]))],
    "sub", [], [helper.make_tensor_value_info("c", TensorProto.STRING, [1])],
)
g = helper.make_graph(
    [helper.make_node("If", ["cond"], ["y"], then_branch=sub, else_branch=sub)],
    "g",
    [helper.make_tensor_value_info("cond", TensorProto.BOOL, [])],
    [helper.make_tensor_value_info("y", TensorProto.STRING, [1])],
    initializer=[
        helper.make_tensor("raw", TensorProto.FLOAT, [1], np.float32(1).tobytes(), raw=True),
        ext_proto([("location", "w.bin"), ("offset", "16"), ("length", "24")], name="ext"),
        helper.make_tensor("strs", TensorProto.STRING, [1], [b"s"]),
    ],
)
m = helper.make_model(g, ir_version=10, opset_imports=[helper.make_opsetid("", 21)])
m2 = serde.serialize_model(serde.deserialize_model(m))
assert [sorted_md(a) for a in m2.graph.initializer] == [sorted_md(a) for a in m.graph.initializer]
assert m2.graph.node[0].attribute == m.graph.node[0].attribute
m3 = serde.serialize_model(serde.deserialize_model(m2))
assert m3 == m2

print("OK")
sys.exit(0)
