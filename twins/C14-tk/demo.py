"""Demo for C14: passes honour their contract (identity, modified flag, fixpoint, no damage).

Exercises PassBase.__call__ (pre-/post-condition reporting, identity contract),
Sequential and PassManager (modified flag, early stop, steps, nesting, error chains)
through the public API only, plus a few built-in passes on a real model.
Exits 0 when every expectation holds.
"""

from __future__ import annotations

import logging
import sys

import numpy as np
import onnx

import onnx_ir as ir
import onnx_ir.passes.common as common_passes
from onnx_ir import passes as P

FAILURES: list[str] = []


def check(cond: bool, msg: str) -> None:
    if not cond:
        FAILURES.append(msg)
        print("FAIL:", msg)


def snapshot(model: ir.Model) -> bytes:
    return ir.to_proto(model).SerializeToString(deterministic=True)


def make_model() -> ir.Model:
    x = ir.Value(name="x", type=ir.TensorType(ir.DataType.FLOAT), shape=ir.Shape([2]))
    w = ir.Value(
        name="w",
        type=ir.TensorType(ir.DataType.FLOAT),
        shape=ir.Shape([2]),
        const_value=ir.tensor(np.array([1.0, 2.0], dtype=np.float32), name="w"),
    )
    w2 = ir.Value(
        name="w2",
        type=ir.TensorType(ir.DataType.FLOAT),
        shape=ir.Shape([2]),
        const_value=ir.tensor(np.array([1.0, 2.0], dtype=np.float32), name="w2"),
    )
    ident = ir.node("Identity", [x], name="ident")
    ident.outputs[0].name = "x_id"
    add1 = ir.node("Add", [ident.outputs[0], w], name="add1")
    add1.outputs[0].name = "a1"
    add2 = ir.node("Add", [ident.outputs[0], w2], name="add2")
    add2.outputs[0].name = "a2"
    dead = ir.node("Neg", [x], name="dead")
    dead.outputs[0].name = "dead_out"
    mul = ir.node("Mul", [add1.outputs[0], add2.outputs[0]], name="mul")
    out = mul.outputs[0]
    out.name = "y"
    out.type = ir.TensorType(ir.DataType.FLOAT)
    out.shape = ir.Shape([2])
    graph = ir.Graph(
        inputs=[x],
        outputs=[out],
        nodes=[ident, add1, add2, dead, mul],
        initializers=[w, w2],
        opset_imports={"": 20},
        name="g",
    )
    return ir.Model(graph, ir_version=10)


# ---------------------------------------------------------------------------
# Helper passes
# ---------------------------------------------------------------------------
class Counting(P.InPlacePass):
    """Reports modified for the first `budget` calls; counts calls."""

    def __init__(self, budget: int, modified_value=True):
        self.budget = budget
        self.calls = 0
        self.modified_value = modified_value

    def call(self, model):
        self.calls += 1
        if self.budget > 0:
            self.budget -= 1
            model.graph.doc_string = f"touched {self.calls}"
            return P.PassResult(model, self.modified_value)
        return P.PassResult(model, False)


class Conditions(P.InPlacePass):
    def __init__(self, pre=None, post=None):
        self.pre = pre
        self.post = post
        self.called = 0

    def requires(self, model):
        if self.pre is not None:
            raise self.pre

    def ensures(self, model):
        if self.post is not None:
            raise self.post

    def call(self, model):
        self.called += 1
        model.graph.doc_string = "Conditions ran"
        return P.PassResult(model, True)


class MyPreError(P.PreconditionError):
    pass


class MyPostError(P.PostconditionError):
    pass


class Abort(BaseException):
    pass


class LyingInPlace(P.InPlacePass):
    def call(self, model):
        return P.PassResult(model.clone(), True)


class LyingFunctional(P.FunctionalPass):
    def call(self, model):
        return P.PassResult(model, False)


class NotAResult(P.InPlacePass):
    def call(self, model):
        return model


class Boom(P.InPlacePass):
    def __init__(self, after: int):
        self.after = after
        self.calls = 0

    def call(self, model):
        self.calls += 1
        if self.calls > self.after:
            raise KeyError("boom")
        return P.PassResult(model, True)


def raises(fn, exc_type):
    try:
        fn()
    except exc_type as e:  # noqa: BLE001
        return e
    except BaseException as e:  # noqa: BLE001
        check(False, f"expected {exc_type.__name__}, got {type(e).__name__}: {e}")
        return None
    check(False, f"expected {exc_type.__name__}, nothing raised")
    return None


# ---------------------------------------------------------------------------
# 1. Pre-/post-condition reporting of PassBase.__call__
# ---------------------------------------------------------------------------
def test_conditions() -> None:
    model = make_model()
    before = snapshot(model)

    # plain exception in requires -> PreconditionError chained to it; call() not run
    cause = ValueError("bad input")
    p = Conditions(pre=cause)
    e = raises(lambda: p(model), P.PreconditionError)
    check(type(e) is P.PreconditionError, "pre: exact type PreconditionError")
    check(str(e) == "Pre-condition for pass 'Conditions' failed", f"pre: message {e!s}")
    check(e.__cause__ is cause and e.__context__ is cause, "pre: chained to the cause")
    check(e.__suppress_context__ is True, "pre: raise ... from")
    check(p.called == 0, "pre: call() must not run")
    check(snapshot(model) == before, "pre: model untouched when the precondition fails")

    # PreconditionError (and subclasses) propagate as the very same object
    for original in (P.PreconditionError("mine"), MyPreError("sub")):
        p = Conditions(pre=original)
        e = raises(lambda: p(model), P.PreconditionError)
        check(e is original, "pre: PreconditionError re-raised as is")
        check(e.__cause__ is None, "pre: no chaining for a re-raised error")
        check(p.called == 0, "pre: call() must not run (2)")

    # sibling InvariantError types are NOT let through: they get wrapped
    for original in (P.PostconditionError("sibling"), P.InvariantError("base")):
        p = Conditions(pre=original)
        e = raises(lambda: p(model), P.PreconditionError)
        check(type(e) is P.PreconditionError and e.__cause__ is original, "pre: sibling wrapped")

    # BaseException that is not an Exception passes untouched
    abort = Abort("stop")
    p = Conditions(pre=abort)
    e = raises(lambda: p(model), Abort)
    check(e is abort and e.__cause__ is None, "pre: BaseException untouched")
    check(snapshot(model) == before, "pre: still untouched")

    # StopIteration / GeneratorExit-like oddities in requires
    stop = StopIteration("odd")
    p = Conditions(pre=stop)
    e = raises(lambda: p(model), P.PreconditionError)
    check(e is not None and e.__cause__ is stop, "pre: StopIteration is wrapped like any Exception")

    # post-conditions: the pass has run, error is a PostconditionError
    cause = RuntimeError("bad output")
    p = Conditions(post=cause)
    m2 = make_model()
    e = raises(lambda: p(m2), P.PostconditionError)
    check(type(e) is P.PostconditionError, "post: exact type")
    check(str(e) == "Post-condition for pass 'Conditions' failed", f"post: message {e!s}")
    check(e.__cause__ is cause and e.__context__ is cause, "post: chained")
    check(p.called == 1 and m2.graph.doc_string == "Conditions ran", "post: call() ran once")

    for original in (P.PostconditionError("mine"), MyPostError("sub")):
        p = Conditions(post=original)
        e = raises(lambda: p(make_model()), P.PostconditionError)
        check(e is original and e.__cause__ is None, "post: re-raised as is")
    original = P.PreconditionError("sibling")
    p = Conditions(post=original)
    e = raises(lambda: p(make_model()), P.PostconditionError)
    check(type(e) is P.PostconditionError and e.__cause__ is original, "post: sibling wrapped")
    abort = Abort("stop")
    e = raises(lambda: Conditions(post=abort)(make_model()), Abort)
    check(e is abort, "post: BaseException untouched")

    # both fine: result returned, input may be a PassResult
    p = Conditions()
    m3 = make_model()
    r = p(P.PassResult(m3, False))
    check(r.model is m3 and r.modified is True and p.called == 1, "ok: PassResult accepted")

    # inside a Sequential the condition error is the cause of a PassError
    cause = ValueError("nested")
    seq = P.Sequential(Counting(1), Conditions(pre=cause))
    e = raises(lambda: seq(make_model()), P.PassError)
    check(isinstance(e.__cause__, P.PreconditionError), "seq: PassError <- PreconditionError")
    check(e.__cause__.__cause__ is cause, "seq: <- original")
    check("after the following passes: [" in str(e), "seq: message lists previous passes")


# ---------------------------------------------------------------------------
# 2. Identity contract and result type
# ---------------------------------------------------------------------------
def test_identity_contract() -> None:
    m = make_model()
    e = raises(lambda: LyingInPlace()(m), P.PassError)
    check(e is not None and "declared in-place" in str(e), "identity: in-place lie detected")
    e = raises(lambda: LyingFunctional()(m), P.PassError)
    check(e is not None and "declared not in-place" in str(e), "identity: functional lie detected")
    e = raises(lambda: NotAResult()(m), TypeError)
    check(e is not None and "PassResult" in str(e), "identity: non-PassResult rejected")

    f = P.functionalize(Counting(1))
    before = snapshot(m)
    r = f(m)
    check(r.model is not m and r.modified is True, "functionalize: new model")
    check(snapshot(m) == before, "functionalize: input untouched")
    check(r.model.graph.doc_string == "touched 1", "functionalize: clone changed")


# ---------------------------------------------------------------------------
# 3. PassManager: modified flag, early stop, steps, nesting, rejected input
# ---------------------------------------------------------------------------
class _Records(logging.Handler):
    def __init__(self):
        super().__init__(level=logging.DEBUG)
        self.messages: list[str] = []

    def emit(self, record):
        self.messages.append(record.getMessage())


def test_pass_manager() -> None:
    infra_logger = logging.getLogger("onnx_ir.passes._pass_infra")
    handler = _Records()
    infra_logger.addHandler(handler)
    old_level = infra_logger.level
    infra_logger.setLevel(logging.DEBUG)
    try:
        stop_msgs = lambda: [m for m in handler.messages if "No more graph changes" in m]  # noqa: E731

        # early stop: 2 modifying rounds + 1 quiet round, then stop
        c = Counting(2)
        pm = P.PassManager([c], steps=10, early_stop=True)
        m = make_model()
        r = pm(m)
        check(r.model is m and r.modified is True, "pm: in place, modified")
        check(c.calls == 3, f"pm: early stop after the first quiet round ({c.calls})")
        check(stop_msgs() == ["PassManager: No more graph changes detected after step 2"],
              f"pm: one stop message {stop_msgs()}")
        # fixpoint: again -> not modified, one round, nothing changes
        before = snapshot(m)
        r = pm(m)
        check(r.modified is False and c.calls == 4 and snapshot(m) == before, "pm: fixpoint")
        check(len(stop_msgs()) == 2 and stop_msgs()[-1].endswith("step 0"), "pm: stop at step 0")

        # no early stop: every step runs, no message
        handler.messages.clear()
        c = Counting(1)
        pm = P.PassManager([c], steps=5, early_stop=False)
        r = pm(make_model())
        check(c.calls == 5 and r.modified is True, f"pm: all steps run ({c.calls})")
        check(stop_msgs() == [], "pm: no stop message without early_stop")
        c = Counting(0)
        r = P.PassManager([c], steps=3, early_stop=False)(make_model())
        check(c.calls == 3 and r.modified is False, "pm: quiet passes, all steps, unmodified")

        # the flag is the value produced by `or`, not coerced
        c = Counting(1, modified_value=1)
        r = P.PassManager([c], steps=4)(make_model())
        check(r.modified == 1 and type(r.modified) is int and c.calls == 2, "pm: truthy int flag kept")
        c = Counting(3, modified_value=np.bool_(True))
        r = P.PassManager([c, Counting(0)], steps=2)(make_model())
        check(bool(r.modified) is True and c.calls == 2, "pm: numpy flag, steps bound")

        # steps=0: nothing runs; fine for in-place, a contract violation for functional
        handler.messages.clear()
        c = Counting(5)
        m = make_model()
        before = snapshot(m)
        r = P.PassManager([c], steps=0)(m)
        check(r.model is m and r.modified is False and c.calls == 0, "pm: steps=0 runs nothing")
        check(snapshot(m) == before and stop_msgs() == [], "pm: steps=0 leaves the model alone")
        e = raises(lambda: P.PassManager([P.functionalize(Counting(1))], steps=0)(m), P.PassError)
        check(e is not None and "declared not in-place" in str(e), "pm: steps=0 functional rejected")

        # rejected construction: empty pass list
        e = raises(lambda: P.PassManager([]), ValueError)
        check(e is not None and "at least one pass" in str(e), "pm: empty list rejected")
        e = raises(lambda: P.Sequential(), ValueError)
        check(e is not None, "seq: empty rejected")

        # nesting: inner stops early each outer step; the outer decides on the inner's flag
        handler.messages.clear()
        a, b = Counting(3), Counting(1)
        inner = P.PassManager([a], steps=2, early_stop=True)
        outer = P.PassManager([inner, b], steps=10, early_stop=True)
        m = make_model()
        r = outer(m)
        # outer step 0: a,a (budget 3->1) ; b modifies. step 1: a (mod), a (quiet) ; b quiet -> modified
        # step 2: a quiet -> inner stops after 1 ; b quiet -> outer stops
        check(a.calls == 5 and b.calls == 3, f"nest: call counts {a.calls} {b.calls}")
        check(r.model is m and r.modified is True, "nest: result")
        check(outer.in_place and outer.changes_input, "nest: in_place derived")
        mixed = P.PassManager([Counting(1), P.functionalize(Counting(1))])
        check(mixed.in_place is False and mixed.changes_input is True and mixed.destructive,
              "nest: mixed manager is destructive")
        m = make_model()
        r = mixed(m)
        check(r.model is not m and r.modified is True, "nest: mixed returns a new model")

        # error at a later step: PassError(step) <- PassError(pass) <- KeyError
        boom = Boom(after=1)
        c = Counting(9)
        pm = P.PassManager([c, boom], steps=3)
        e = raises(lambda: pm(make_model()), P.PassError)
        check(str(e) == "An error occurred at step 1", f"err: message {e!s}")
        check(isinstance(e.__cause__, P.PassError) and isinstance(e.__cause__.__cause__, KeyError),
              "err: chain")
        check(c.calls == 2 and boom.calls == 2, "err: stopped at the failure")
    finally:
        infra_logger.removeHandler(handler)
        infra_logger.setLevel(old_level)


# ---------------------------------------------------------------------------
# 4. Built-in passes through a manager: identity, flag vs serialization, fixpoint
# ---------------------------------------------------------------------------
def graph_consistent(model: ir.Model) -> bool:
    g = model.graph
    ok = True
    seen = set(g.inputs) | set(g.initializers.values())
    for node in g:
        ok = ok and node.graph is g
        for i, v in enumerate(node.inputs):
            if v is None:
                continue
            ok = ok and (node, i) in v.uses()
            ok = ok and (v in seen or v.producer() is None)
        for v in node.outputs:
            ok = ok and v.producer() is node
            seen.add(v)
    for v in g.outputs:
        ok = ok and v in seen
    return ok


def test_builtin() -> None:
    builtin = [
        common_passes.IdentityEliminationPass,
        common_passes.RemoveUnusedNodesPass,
        common_passes.DeduplicateInitializersPass,
        common_passes.CommonSubexpressionEliminationPass,
        common_passes.TopologicalSortPass,
        common_passes.NameFixPass,
        common_passes.ClearMetadataAndDocStringPass,
        common_passes.RemoveUnusedOpsetsPass,
    ]
    for cls in builtin:
        m = make_model()
        p = cls()
        bound = len(list(m.graph)) + len(m.graph.initializers) + 3
        rounds = 0
        while True:
            before = snapshot(m)
            r = p(m)
            rounds += 1
            check((r.model is m) == p.in_place, f"{cls.__name__}: identity")
            m = r.model
            if not r.modified:
                check(snapshot(m) == before, f"{cls.__name__}: modified=False but changed")
                break
            check(rounds <= bound, f"{cls.__name__}: does not converge")
            if rounds > bound:
                break
        check(graph_consistent(m), f"{cls.__name__}: links consistent")
        onnx.checker.check_model(ir.to_proto(m))

    m = make_model()
    pm = P.PassManager([cls() for cls in builtin], steps=12, early_stop=True)
    r = pm(m)
    check(r.model is m and r.modified is True, "builtin pm: in place, modified")
    names = [n.name for n in m.graph]
    check("dead" not in names and "ident" not in names, f"builtin pm: cleaned {names}")
    check(len(m.graph.initializers) == 1, "builtin pm: initializers deduplicated")
    check(graph_consistent(m), "builtin pm: consistent")
    before = snapshot(m)
    r = pm(m)
    check(r.modified is False and snapshot(m) == before, "builtin pm: fixpoint")

    # analysis passes leave the model alone, also when the ONNX call fails
    m = make_model()
    before = snapshot(m)
    r = P.PassManager([common_passes.CheckerPass(), common_passes.ShapeInferencePass()], steps=2)(m)
    check(r.model is m, "analysis: in place")
    m = make_model()
    m.graph.node("dead").op_type = "NoSuchOperator"
    before = snapshot(m)
    init_before = [(k, v, v.const_value) for k, v in m.graph.initializers.items()]
    inputs_before = list(m.graph.inputs)
    e = raises(lambda: P.PassManager([common_passes.CheckerPass(full_check=True)], steps=2)(m),
               P.PassError)
    check(e is not None and str(e) == "An error occurred at step 0", "analysis: checker failure reported")
    check(snapshot(m) == before, "analysis: model unchanged after checker failure")
    init_after = [(k, v, v.const_value) for k, v in m.graph.initializers.items()]
    check(len(init_before) == len(init_after)
          and all(a[0] == b[0] and a[1] is b[1] and a[2] is b[2] for a, b in zip(init_before, init_after)),
          "analysis: initializers restored (order, identity, data)")
    check(all(a is b for a, b in zip(inputs_before, m.graph.inputs))
          and len(inputs_before) == len(m.graph.inputs), "analysis: graph inputs restored")


def main() -> int:
    test_conditions()
    test_identity_contract()
    test_pass_manager()
    test_builtin()
    if FAILURES:
        print(f"{len(FAILURES)} check(s) failed")
        return 1
    print("C14 demo: all checks passed")
    return 0


if __name__ == "__main__":
    sys.exit(main())
