"""Demo for C16: symbolic dimensions compute, print and re-parse with integer semantics.

Exercises the function-call / argument-list part of the dimension parser, the
plain-identifier fast path of parse_symbolic_expression and SymbolicDim.evaluate
(complete, partial, surplus and empty bindings), through the public API.
"""

import itertools
import math
import sys
from collections.abc import Mapping

import sympy

import onnx_ir as ir
from onnx_ir._symbolic_shapes import parse_symbolic_expression

failures = []


def check(cond, msg):
    if not cond:
        failures.append(msg)
        print("FAIL:", msg)


def rejected(text):
    try:
        ir.SymbolicDim(text).evaluate({"a": 1, "b": 2})
    except ValueError:
        return True
    return False


# 1. Strings of the documented grammar with function calls; reference = Python ints.
CASES = {
    "max(a, b)": lambda a, b, c: max(a, b),
    "min(a, b, c)": lambda a, b, c: min(a, b, c),
    "Max(a,b,c,a)": lambda a, b, c: max(a, b, c),  # duplicate argument
    "max(a)": lambda a, b, c: a,  # single argument
    "max(min(a, b), floor(c / 2)) + 1": lambda a, b, c: max(min(a, b), c // 2) + 1,
    "floor((a + b) / c) * c + mod(a + b, c)": lambda a, b, c: a + b,
    "ceiling(a / b) - floor(a / b)": lambda a, b, c: (0 if a % b == 0 else 1),
    "Mod(a * b, c) + (a * b) // c * c": lambda a, b, c: a * b,
    "Abs(a - b) * sign(a - b)": lambda a, b, c: a - b,
    "min ( a ,\tb ) - -max(a,b)": lambda a, b, c: min(a, b) + max(a, b),
    "max(a, 3) % min(b, 4) + 2 * floor(c)": lambda a, b, c: max(a, 3) % min(b, 4) + 2 * c,
    "a - b - c": lambda a, b, c: a - b - c,
    "a // b // c": lambda a, b, c: a // b // c,
    "a - b * c % 5": lambda a, b, c: a - (b * c) % 5,
}
VALUES = [1, 2, 3, 7, 12]
for text, ref in CASES.items():
    dim = ir.SymbolicDim(text)
    reparsed = ir.SymbolicDim(ir.SymbolicDim(dim._expr).value)  # printed form, re-read
    simplified = dim.simplify()
    for a, b, c in itertools.product(VALUES, repeat=3):
        full = {"a": a, "b": b, "c": c}
        want = ref(a, b, c)
        got = dim.evaluate(full)
        check(type(got) is int and got == want, f"{text!r} {full}: {got!r} != {want}")
        check(reparsed.evaluate(full) == want, f"reparse of {text!r} {full}")
        check(simplified.evaluate(full) == want, f"simplify of {text!r} {full}")
        # partial binding, then the rest
        for first in ("a", "b", "c"):
            part = dim.evaluate({first: full[first]})
            if isinstance(part, ir.SymbolicDim):
                check(first not in part.free_symbols(), f"{text!r}: {first} still free")
                part = part.evaluate(full)
            check(part == want, f"{text!r} partial {first} {full}: {part!r} != {want}")

# 2. Plain identifiers (fast path) give the same symbol as the parser does in an expression.
for name in ["batch", "_x1", "déjà"]:
    sym = parse_symbolic_expression(name)
    check(sym == sympy.Symbol(name, integer=True, positive=True), f"symbol {name}")
    check(sym.is_positive and sym.is_integer, f"assumptions {name}")
    check(parse_symbolic_expression(f"({name})") == sym, f"paren {name}")
    check(parse_symbolic_expression(f"max({name})") == sym, f"max of {name}")
    check(ir.SymbolicDim(name).evaluate({name: 5}) == 5, f"evaluate {name}")
# dotted names are not Python identifiers, the parser handles them
dotted = ir.SymbolicDim("ids.45_dim_1 + 1")
check(dotted.evaluate({"ids.45_dim_1": 9}) == 10, "dotted name")
check(dotted.free_symbols() == frozenset({"ids.45_dim_1"}), "dotted free symbols")

# 3. Unusual inputs: rejected calls.
for bad in [
    "evil(a)",  # unknown function
    "__import__(a)",
    "max(a,)",  # trailing comma
    "max(,a)",
    "max(a b)",  # missing comma
    "max(a, b",  # missing ')'
    "floor(",  # end of input in argument list
    "max(a,",
    "max(a))",  # surplus ')'
    "a +",
    "",
]:
    check(rejected(bad), f"{bad!r} should be rejected with ValueError")
try:
    parse_symbolic_expression("evil(a)")
except ValueError as e:
    check("Unknown function 'evil'" in str(e) and "Abs, Max, Min, Mod" in str(e), str(e))
# an unknown function is reported before its arguments are looked at
try:
    parse_symbolic_expression("evil(a,,")
except ValueError as e:
    check("Unknown function 'evil'" in str(e), str(e))
# an empty argument list is not in the documented grammar; the library accepts it and
# yields the neutral element of the function (behaviour recorded as it is today)
check(parse_symbolic_expression("max()") == -sympy.oo, "max()")
check(parse_symbolic_expression("min( )") == sympy.oo, "min( )")
check(parse_symbolic_expression("max(max(), a)") == sympy.Symbol("a", integer=True, positive=True), "max(max(), a)")
# wrong arity is an error of the function, not a silent value
try:
    parse_symbolic_expression("floor(a, b)")
    check(False, "floor(a, b) accepted")
except (TypeError, ValueError):
    pass


# 4. Bindings: empty, surplus keys, a read-only Mapping that records its lookups.
class Recording(Mapping):
    def __init__(self, data):
        self.data = dict(data)
        self.log = []

    def __getitem__(self, key):
        self.log.append(("get", key))
        return self.data[key]

    def __contains__(self, key):
        self.log.append(("has", key))
        return key in self.data

    def __iter__(self):
        return iter(self.data)

    def __len__(self):
        return len(self.data)


dim = (ir.SymbolicDim("n") * 3 + ir.SymbolicDim("m")) // 2
check(dim.evaluate({}) == dim, "empty binding leaves the dimension as is")
check(dim.evaluate({"zzz": 4}) == dim, "unrelated binding leaves the dimension as is")
rec = Recording({"n": 5, "unused": 1})
part = dim.evaluate(rec)
check(isinstance(part, ir.SymbolicDim) and part.free_symbols() == {"m"}, f"partial {part!r}")
check(part.evaluate({"m": 4}) == (5 * 3 + 4) // 2, "partial then complete")
check(sorted(rec.log) == [("get", "n"), ("has", "m"), ("has", "n")], f"lookups {rec.log}")
check(rec.log.index(("has", "n")) < rec.log.index(("get", "n")), "membership before lookup")
check(ir.SymbolicDim(None).evaluate({"n": 1}) == ir.SymbolicDim(None), "unknown dim")
check(math.ceil(ir.SymbolicDim("n") / 4).evaluate({"n": 9}) == 3, "ceil of rational")
half = (ir.SymbolicDim("n") / 2).evaluate({"n": 3})
check(isinstance(half, ir.SymbolicDim) and half.value == "3/2", f"non-integer result {half!r}")
shape = ir.Shape(["n", 4, ir.SymbolicDim("max(n, m) + 1"), None])
check(list(shape.evaluate({"n": 2, "m": 6}))[:3] == [2, 4, 7], "shape evaluate")
try:
    ir.SymbolicDim("n +").evaluate({"n": 1})
    check(False, "unparsable dim evaluated")
except ValueError:
    pass

if failures:
    print(f"{len(failures)} failure(s)")
    sys.exit(1)
print("demo OK")
