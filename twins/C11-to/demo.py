"""Demo for C11: graph iteration stays well defined while the graph is edited.

Exercises forward / backward / recursive iteration of Graph and Function through the
public API while nodes are appended, inserted, removed, moved and sorted. Exits 0 when
every expectation derived from the documented semantics holds.
"""

from __future__ import annotations

import onnx_ir as ir
from onnx_ir import _linked_list


def mk(name: str, inputs=(), **kw) -> ir.Node:
    return ir.Node("", "Op", inputs=list(inputs), name=name, num_outputs=1, **kw)


def names(it) -> list[str]:
    return [n.name for n in it]


def drain(it) -> list[str]:
    """Names of the remaining items; uses next() only (iter() on a RecursiveGraphIterator restarts it)."""
    out = []
    while True:
        try:
            out.append(next(it).name)
        except StopIteration:
            return out


def new_graph(node_names: str) -> tuple[ir.Graph, dict[str, ir.Node]]:
    nodes = {c: mk(c) for c in node_names}
    g = ir.Graph([], [], nodes=list(nodes.values()), name="g")
    return g, nodes


def check_sequence(g, expected: str) -> None:
    exp = list(expected)
    assert names(g) == exp, (names(g), exp)
    assert names(reversed(g)) == exp[::-1]
    assert len(g) == len(exp)
    for i in range(len(exp)):
        assert g[i].name == exp[i]
        assert g[i - len(exp)].name == exp[i]
    assert names(g[:]) == exp
    assert names(g[::-2]) == exp[::-2]
    for bad in (len(exp), -len(exp) - 1):
        try:
            g[bad]
        except IndexError:
            pass
        else:
            raise AssertionError("IndexError expected")


def test_empty() -> None:
    g = ir.Graph([], [], nodes=[], name="empty")
    assert list(g) == [] and list(reversed(g)) == [] and len(g) == 0
    assert list(g.all_nodes()) == []
    it = iter(g)
    a = mk("a")
    g.append(a)  # the iterator has not started yet: it sees the new node
    assert names(it) == ["a"]
    assert list(it) == []  # stays exhausted
    g.extend([])  # empty input
    g.insert_after(a, [])
    g.insert_before(a, ())
    g.remove([])
    check_sequence(g, "a")


def test_forward_edits() -> None:
    g, n = new_graph("abcdef")
    it = iter(g)
    assert next(it).name == "a"
    assert next(it).name == "b"
    x, y, z = mk("x"), mk("y"), mk("z")
    g.insert_before(n["b"], x)  # before the current position: skipped
    g.insert_after(n["b"], [y])  # after the current position: yielded
    g.insert_before(n["a"], [z])
    check_sequence(g, "zaxbycdef")
    assert next(it).name == "y"
    # remove the current node and the one after it: resume with what followed
    g.remove([y, n["c"]])
    assert y.graph is None and y not in g
    assert next(it).name == "d"
    # move the current node to the end: iteration resumes at the original place
    g.append(n["d"])
    check_sequence(g, "zaxbefd")
    assert names(it) == ["e", "f", "d"]
    assert list(it) == []


def test_backward_and_simultaneous() -> None:
    g, n = new_graph("abcde")
    fwd, bwd, fwd2 = iter(g), reversed(g), iter(g)
    assert next(fwd).name == "a"
    assert next(bwd).name == "e"
    assert next(bwd).name == "d"
    p, q = mk("p"), mk("q")
    g.insert_after(n["d"], p)  # behind the backward iterator: skipped by it
    g.insert_before(n["d"], q)  # ahead of the backward iterator: yielded by it
    g.remove(n["d"])  # current node of bwd
    assert next(bwd).name == "q"
    assert next(fwd2).name == "a"
    g.remove(n["a"])  # current node of both forward iterators
    assert next(fwd).name == "b"
    # move c in front of b (c is later for fwd, becomes earlier)
    g.insert_before(n["b"], n["c"])
    check_sequence(g, "cbqpe")
    assert names(fwd) == ["q", "p", "e"]
    assert names(fwd2) == ["b", "q", "p", "e"]
    assert names(bwd) == ["b", "c"]
    # membership follows the current sequence
    assert n["a"] not in g and n["d"] not in g and p in g and n["c"] in g


def test_remove_run_then_resume() -> None:
    # several consecutive nodes removed one by one after the current one was removed
    g, n = new_graph("abcdefg")
    it, rit = iter(g), reversed(g)
    assert next(it).name == "a" and next(it).name == "b"
    assert next(rit).name == "g" and next(rit).name == "f"
    g.remove(n["b"])
    g.remove(n["c"])
    g.remove(n["f"])
    g.remove(n["e"])
    assert next(it).name == "d"
    assert next(rit).name == "d"
    assert names(it) == ["g"]
    assert names(rit) == ["a"]
    check_sequence(g, "adg")


def test_duplicates_and_rejected_calls() -> None:
    g, n = new_graph("abcd")
    other, m = new_graph("uv")
    stray = mk("s")
    it = iter(g)
    assert next(it).name == "a"
    # rejected calls leave the sequence and the iterator untouched
    for call in (
        lambda: g.append(m["u"]),
        lambda: g.extend([stray, m["u"]]),
        lambda: g.insert_after(m["u"], stray),
        lambda: g.insert_before(stray, mk("t")),
        lambda: g.insert_after(n["a"], [stray, m["v"]]),
        lambda: g.remove([n["b"], m["u"]]),
        lambda: g.remove(stray),
    ):
        try:
            call()
        except ValueError:
            pass
        else:
            raise AssertionError("ValueError expected")
    assert stray.graph is None
    check_sequence(g, "abcd")
    check_sequence(other, "uv")
    # duplicates: the same node twice in one call ends up once, at the last place
    g.extend([n["b"], stray, n["b"]])
    check_sequence(g, "acdsb")
    assert names(it) == ["c", "d", "s", "b"]
    # inserting a node after itself is a no-op
    g.insert_after(n["c"], n["c"])
    g.insert_after(n["c"], [n["c"], n["d"], n["c"]])
    check_sequence(g, "adcsb")
    # appending the last node again is a no-op
    g.append(n["b"])
    check_sequence(g, "adcsb")


def test_sort_during_iteration() -> None:
    a = mk("a")
    b = mk("b", [a.outputs[0]])
    c = mk("c", [b.outputs[0]])
    d = mk("d")
    g = ir.Graph([], [c.outputs[0]], nodes=[c, d, b, a], name="s")
    it, rit = iter(g), reversed(g)
    assert next(it).name == "c"
    assert next(rit).name == "a"
    g.sort()
    check_sequence(g, "abcd")
    # every node was moved to the end by the sort; iteration terminates and yields
    # only nodes of the graph
    rest = names(it)
    assert set(rest) <= set("abcd") and len(rest) == len(set(rest)), rest
    rrest = names(rit)
    assert set(rrest) <= set("abcd") and len(rrest) == len(set(rrest)), rrest
    # cycle: sort is rejected and nothing moves
    x = mk("x")
    y = mk("y", [x.outputs[0]])
    x.resize_inputs(1)
    x.replace_input_with(0, y.outputs[0])
    g2 = ir.Graph([], [], nodes=[y, x], name="cyc")
    it2 = iter(g2)
    assert next(it2).name == "y"
    try:
        g2.sort()
    except ValueError:
        pass
    else:
        raise AssertionError("cycle expected")
    assert names(it2) == ["x"]
    check_sequence(g2, "yx")


def test_recursive_and_function() -> None:
    inner_nodes = [mk("i1"), mk("i2"), mk("i3")]
    inner = ir.Graph([], [], nodes=inner_nodes, name="inner")
    holder = mk("h", attributes=[ir.AttrGraph("body", inner)])
    outer = ir.Graph([], [], nodes=[mk("o1"), holder, mk("o2")], name="outer")
    func = ir.Function("dom", "f", graph=outer, attributes=[])
    assert names(func) == ["o1", "h", "o2"]
    assert names(reversed(func)) == ["o2", "h", "o1"]
    assert len(func) == 3 and func[1] is holder and func[-1].name == "o2"

    rec = iter(func.all_nodes())
    assert next(rec).name == "o1"
    assert next(rec).name == "h"
    assert next(rec).name == "i1"
    inner.remove(inner_nodes[0])  # current node, nested
    inner.insert_after(inner_nodes[1], mk("i2b"))
    func.append(mk("o3"))
    func.insert_before(holder, mk("o0"))  # before the current outer position
    got = drain(rec)
    assert got == ["i2", "i2b", "i3", "o2", "o3"], got
    assert names(func) == ["o1", "o0", "h", "o2", "o3"]

    rrec = iter(ir.traversal.RecursiveGraphIterator(outer, reverse=True))
    assert next(rrec).name == "o3"
    func.remove(func[-1])
    assert next(rrec).name == "o2"
    got = drain(rrec)
    assert got == ["h", "i3", "i2b", "i2", "o0", "o1"], got


def test_container_directly() -> None:
    # The container used for node storage, with plain objects
    class V:
        def __init__(self, k):
            self.k = k

        def __repr__(self):
            return f"V({self.k})"

    vs = [V(i) for i in range(5)]
    lst = _linked_list.DoublyLinkedSet(vs)
    it, rit = iter(lst), reversed(lst)
    assert next(it) is vs[0] and next(rit) is vs[4]
    lst.remove(vs[0])
    lst.remove(vs[4])
    lst.append(vs[0])
    assert [v.k for v in it] == [1, 2, 3, 0]
    assert [v.k for v in rit] == [3, 2, 1]
    assert [v.k for v in lst] == [1, 2, 3, 0] and len(lst) == 4
    assert repr(lst) == "DoublyLinkedSet([V(1), V(2), V(3), V(0)])"
    assert type(iter(lst)).__name__ == "generator"
    assert iter(lst).__name__ == "__iter__" and reversed(lst).__name__ == "__reversed__"
    try:
        lst.append(None)
    except TypeError:
        pass
    else:
        raise AssertionError("TypeError expected")
    try:
        lst.remove(vs[4])
    except ValueError:
        pass
    else:
        raise AssertionError("ValueError expected")
    # closing an iterator in the middle is harmless for the others
    it1, it2 = iter(lst), iter(lst)
    next(it1), next(it2)
    it1.close()
    assert list(it1) == []
    assert [v.k for v in it2] == [2, 3, 0]
    empty = _linked_list.DoublyLinkedSet()
    assert list(empty) == [] and list(reversed(empty)) == [] and len(empty) == 0


def main() -> None:
    test_empty()
    test_forward_edits()
    test_backward_and_simultaneous()
    test_remove_run_then_resume()
    test_duplicates_and_rejected_calls()
    test_sort_during_iteration()
    test_recursive_and_function()
    test_container_directly()
    print("C11 demo OK")


if __name__ == "__main__":
    main()
