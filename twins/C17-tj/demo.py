"""Demo for C17: deserializing any proto terminates with an error or a consistent IR.

Exercises node input resolution across nested value scopes (the code path that
was refactored): sorted / unsorted / dangling / shadowed / empty / duplicated
names, subgraphs, sharding references, plus serialization round trips.
"""

from __future__ import annotations

import logging
import sys

import onnx
from onnx import TensorProto, helper

import onnx_ir as ir
from onnx_ir import serde

logging.disable(logging.CRITICAL)


def check_graph_consistency(graph: ir.Graph, seen_graphs: list | None = None) -> None:
    """Check use-def and ownership links of a graph, recursively."""
    for node in graph:
        assert node.graph is graph, f"node {node.name!r} owned by a different graph"
        for index, value in enumerate(node.inputs):
            if value is None:
                continue
            assert (node, index) in [(u.node, u.idx) for u in value.uses()], (
                f"use ({node.name!r}, {index}) missing from value {value.name!r}"
            )
        for index, value in enumerate(node.outputs):
            assert value.producer() is node
            assert value.index() == index
        for attr in node.attributes.values():
            if attr.type == ir.AttributeType.GRAPH:
                check_graph_consistency(attr.as_graph())
            elif attr.type == ir.AttributeType.GRAPHS:
                for sub in attr.as_graphs():
                    check_graph_consistency(sub)
    for value in graph.inputs:
        assert value.producer() is None
    for value in graph.initializers.values():
        assert value.const_value is not None


def roundtrip_is_fixpoint(model_proto: onnx.ModelProto) -> ir.Model:
    model = ir.from_proto(model_proto)
    check_graph_consistency(model.graph)
    first = ir.to_proto(model)
    model2 = ir.from_proto(first)
    check_graph_consistency(model2.graph)
    second = ir.to_proto(model2)
    assert first.SerializeToString(deterministic=True) == second.SerializeToString(
        deterministic=True
    ), "serialize(deserialize(p)) is not a fixpoint"
    return model


def vi(name: str) -> onnx.ValueInfoProto:
    return helper.make_tensor_value_info(name, TensorProto.FLOAT, [2])


def make_model(graph: onnx.GraphProto) -> onnx.ModelProto:
    return helper.make_model(graph, opset_imports=[helper.make_opsetid("", 20)])


def case_sorted_and_unsorted() -> None:
    n1 = helper.make_node("Relu", ["x"], ["a"], name="n1")
    n2 = helper.make_node("Add", ["a", "a"], ["y"], name="n2")
    for nodes in ([n1, n2], [n2, n1]):
        model = roundtrip_is_fixpoint(
            make_model(helper.make_graph(nodes, "g", [vi("x")], [vi("y")]))
        )
        by_name = {n.name: n for n in model.graph}
        # Both inputs of n2 are the very same object: the output of n1
        assert by_name["n2"].inputs[0] is by_name["n1"].outputs[0]
        assert by_name["n2"].inputs[1] is by_name["n1"].outputs[0]
        assert len(by_name["n1"].outputs[0].uses()) == 2


def case_dangling_and_empty_inputs() -> None:
    # 'ghost' is declared nowhere, used twice (by two nodes); '' is an omitted input
    n1 = helper.make_node("Add", ["ghost", ""], ["a"], name="n1")
    n2 = helper.make_node("Add", ["ghost", "x"], ["y"], name="n2")
    model = roundtrip_is_fixpoint(
        make_model(helper.make_graph([n1, n2], "g", [vi("x")], [vi("y")]))
    )
    n1_ir, n2_ir = list(model.graph)
    assert n1_ir.inputs[1] is None
    ghost = n1_ir.inputs[0]
    assert ghost is not None and ghost.name == "ghost" and ghost.producer() is None
    # The placeholder is registered in the scope, so the second use shares it
    assert n2_ir.inputs[0] is ghost
    assert len(ghost.uses()) == 2


def case_cycle() -> None:
    n1 = helper.make_node("Relu", ["b"], ["a"], name="n1")
    n2 = helper.make_node("Relu", ["a"], ["b"], name="n2")
    model = roundtrip_is_fixpoint(
        make_model(helper.make_graph([n1, n2], "g", [vi("x")], [vi("b")]))
    )
    n1_ir, n2_ir = list(model.graph)
    assert n1_ir.inputs[0] is n2_ir.outputs[0]
    assert n2_ir.inputs[0] is n1_ir.outputs[0]


def case_nested_scopes_and_shadowing() -> None:
    # Inner graph uses: 'late' (outer output declared AFTER the If node),
    # 'x' (shadowed by an inner initializer), 'outer_only' (outer input),
    # and 'nowhere' (dangling: must be created in the INNER scope).
    inner_init = helper.make_tensor("x", TensorProto.FLOAT, [2], [1.0, 2.0])
    inner_nodes = [
        helper.make_node("Add", ["x", "late"], ["t0"], name="i0"),
        helper.make_node("Add", ["t0", "outer_only"], ["t1"], name="i1"),
        helper.make_node("Add", ["t1", "nowhere"], ["inner_out"], name="i2"),
    ]
    inner = helper.make_graph(
        inner_nodes, "inner", [], [vi("inner_out")], initializer=[inner_init]
    )
    if_node = helper.make_node(
        "If", ["cond"], ["y"], name="if", then_branch=inner, else_branch=inner
    )
    late_node = helper.make_node("Relu", ["x"], ["late"], name="late_node")
    after = helper.make_node("Add", ["y", "nowhere"], ["z"], name="after")
    cond = helper.make_tensor_value_info("cond", TensorProto.BOOL, [])
    outer = helper.make_graph(
        [if_node, late_node, after], "outer", [cond, vi("x"), vi("outer_only")], [vi("z")]
    )
    model = roundtrip_is_fixpoint(make_model(outer))
    graph = model.graph
    nodes = {n.name: n for n in graph}
    outer_x = graph.inputs[1]
    for branch in ("then_branch", "else_branch"):
        sub = nodes["if"].attributes[branch].as_graph()
        sub_nodes = {n.name: n for n in sub}
        # Shadowing: inner 'x' is the inner initializer, not the outer input
        assert sub_nodes["i0"].inputs[0] is sub.initializers["x"]
        assert sub_nodes["i0"].inputs[0] is not outer_x
        # Out-of-order outer declaration is found from the subgraph
        assert sub_nodes["i0"].inputs[1] is nodes["late_node"].outputs[0]
        assert sub_nodes["i1"].inputs[1] is graph.inputs[2]
        # Dangling name is created in the inner scope, not shared with the outer one
        inner_nowhere = sub_nodes["i2"].inputs[1]
        assert inner_nowhere.name == "nowhere"
        assert inner_nowhere is not nodes["after"].inputs[1]
    # The two branches do not share their placeholders either
    then_g = nodes["if"].attributes["then_branch"].as_graph()
    else_g = nodes["if"].attributes["else_branch"].as_graph()
    assert list(then_g)[2].inputs[1] is not list(else_g)[2].inputs[1]
    assert outer_x.uses() and all(u.node.name == "late_node" for u in outer_x.uses())


def case_rejected_duplicate_outputs() -> None:
    n1 = helper.make_node("Relu", ["x"], ["a"], name="n1")
    n2 = helper.make_node("Relu", ["x"], ["a"], name="n2")
    proto = make_model(helper.make_graph([n1, n2], "g", [vi("x")], [vi("a")]))
    try:
        ir.from_proto(proto)
    except serde.SerdeError as e:
        cause = e
        while cause.__cause__ is not None:
            cause = cause.__cause__
        assert isinstance(cause, ValueError), type(cause)
        assert "redeclared" in str(cause)
    else:
        raise AssertionError("duplicate output names must be rejected")
    # A node whose output is also a graph input is rejected the same way
    proto = make_model(helper.make_graph([n1], "g", [vi("a")], [vi("a")]))
    try:
        ir.from_proto(proto)
    except serde.SerdeError:
        pass
    else:
        raise AssertionError("output redeclaring an input must be rejected")


def case_standalone_node_and_function() -> None:
    # Standalone node: duplicated + empty inputs, empty output, self-reference
    node = ir.from_proto(helper.make_node("Op", ["a", "", "a", "o"], ["o", ""], name="n"))
    assert node.inputs[0] is node.inputs[2]
    assert node.inputs[1] is None
    assert node.inputs[3] is node.outputs[0]
    assert node.outputs[1].name == ""
    assert len(node.inputs[0].uses()) == 2
    # Node without inputs / outputs
    empty = ir.from_proto(helper.make_node("Op", [], [], name="e"))
    assert len(empty.inputs) == 0 and len(empty.outputs) == 0
    # Function with a dangling input and unsorted body
    func = helper.make_function(
        "dom",
        "f",
        ["x"],
        ["y"],
        [
            helper.make_node("Add", ["a", "missing"], ["y"], name="f2"),
            helper.make_node("Relu", ["x"], ["a"], name="f1"),
        ],
        opset_imports=[helper.make_opsetid("", 20)],
    )
    f = ir.from_proto(func)
    f_nodes = {n.name: n for n in f}
    assert f_nodes["f2"].inputs[0] is f_nodes["f1"].outputs[0]
    assert f_nodes["f2"].inputs[1].producer() is None
    p1 = ir.to_proto(f)
    p2 = ir.to_proto(ir.from_proto(p1))
    assert p1.SerializeToString(deterministic=True) == p2.SerializeToString(
        deterministic=True
    )


def case_sharding_references() -> None:
    # Sharding specs resolve names through all scopes, inner shadowing outer
    def sharded(node: onnx.NodeProto, names: list[str]) -> onnx.NodeProto:
        conf = node.device_configurations.add()
        conf.configuration_id = "c0"
        for name in names:
            spec = conf.sharding_spec.add()
            spec.tensor_name = name
            spec.device.extend([0, 1])
        return node

    inner_init = helper.make_tensor("x", TensorProto.FLOAT, [2], [1.0, 2.0])
    inner_node = sharded(
        helper.make_node("Add", ["x", "w"], ["inner_out"], name="i0"),
        ["x", "w", "inner_out", "unknown_tensor"],
    )
    inner = helper.make_graph(
        [inner_node], "inner", [], [vi("inner_out")], initializer=[inner_init]
    )
    if_node = helper.make_node(
        "If", ["cond"], ["y"], name="if", then_branch=inner, else_branch=inner
    )
    cond = helper.make_tensor_value_info("cond", TensorProto.BOOL, [])
    outer = helper.make_graph([if_node], "outer", [cond, vi("x"), vi("w")], [vi("y")])
    proto = make_model(outer)
    proto.ir_version = max(proto.ir_version, 11)
    conf = proto.configuration.add()
    conf.name = "c0"
    conf.num_devices = 2
    try:
        model = ir.from_proto(proto)
    except Exception as e:  # terminating with an error is allowed by the property
        print("  sharding model rejected:", type(e).__name__)
        return
    check_graph_consistency(model.graph)
    sub = list(model.graph)[0].attributes["then_branch"].as_graph()
    node = list(sub)[0]
    configs = getattr(node, "device_configurations", ())
    if configs:
        specs = list(configs[0].sharding_specs)
        resolved = {s.value.name: s.value for s in specs if s.value is not None}
        assert resolved["x"] is sub.initializers["x"], "inner scope must shadow outer"
        assert resolved["w"] is model.graph.inputs[2]
        assert resolved["inner_out"] is node.outputs[0]
        assert resolved["unknown_tensor"].producer() is None
    try:
        first = ir.to_proto(model)
    except Exception as e:
        print("  sharding model serialization rejected:", type(e).__name__)
        return
    second = ir.to_proto(ir.from_proto(first))
    assert first.SerializeToString(deterministic=True) == second.SerializeToString(
        deterministic=True
    )


def main() -> int:
    cases = [
        case_sorted_and_unsorted,
        case_dangling_and_empty_inputs,
        case_cycle,
        case_nested_scopes_and_shadowing,
        case_rejected_duplicate_outputs,
        case_standalone_node_and_function,
        case_sharding_references,
    ]
    for case in cases:
        print(case.__name__)
        case()
    print("OK")
    return 0


if __name__ == "__main__":
    sys.exit(main())
