"""Demo for C18: region extraction and implicit-capture analysis are exact.

Builds a graph with nested sub-graphs (GRAPH and GRAPHS attributes, two levels
deep, a missing optional input, duplicate inputs), then checks through the public
API that extract() returns exactly the needed nodes in source order with the
needed initializers, shares no object with the source, evaluates to the same
values, rejects unbounded regions, and that analyze_implicit_usage() agrees with
a brute-force computation.
"""

from __future__ import annotations

import sys

import onnx_ir as ir
from onnx_ir.analysis import analyze_implicit_usage

F = ir.DataType.FLOAT


def val(name):
    return ir.val(name, dtype=F, shape=[])


def node(op, inputs, out, attributes=None, name=None):
    attrs = {attr.name: attr for attr in attributes or ()}
    return ir.node(op, inputs=inputs, outputs=[val(out)], attributes=attrs, name=name or f"n_{out}")


def init(name, x):
    v = ir.val(name, dtype=F, shape=[], const_value=ir.tensor(float(x), name=name))
    return v


def build():
    a, b, cond = val("a"), val("b"), val("cond")
    w, w_unused, k = init("w", 3), init("w_unused", 100), init("k", 5)

    n0 = node("Add", [a, w], "t0")
    t0 = n0.outputs[0]
    n1 = node("Mul", [t0, b], "t1")
    t1 = n1.outputs[0]
    n2 = node("Neg", [a], "t2")
    t2 = n2.outputs[0]

    # then: then_out = t1 + k            (captures t1 and the initializer k)
    th = node("Add", [t1, k], "then_out")
    then_g = ir.Graph([], [th.outputs[0]], nodes=[th], name="then_g")
    # else: c2 = Identity(cond); e1 = Neg(t1); inner = If(c2){ t2*k }{ t1+e1 }
    c2n = node("Identity", [cond], "c2")
    e1n = node("Neg", [t1], "e1")
    ith = node("Mul", [t2, k], "x")
    inner_then = ir.Graph([], [ith.outputs[0]], nodes=[ith], name="inner_then")
    iel = node("Add", [t1, e1n.outputs[0]], "y")
    inner_else = ir.Graph([], [iel.outputs[0]], nodes=[iel], name="inner_else")
    inner_if = node(
        "If",
        [c2n.outputs[0]],
        "inner",
        attributes=[
            ir.AttrGraph("then_branch", inner_then),
            ir.AttrGraph("else_branch", inner_else),
        ],
    )
    else_g = ir.Graph([], [inner_if.outputs[0]], nodes=[c2n, e1n, inner_if], name="else_g")
    n3 = node(
        "If",
        [cond],
        "r",
        attributes=[ir.AttrGraph("then_branch", then_g), ir.AttrGraph("else_branch", else_g)],
    )
    r = n3.outputs[0]

    # Multi: a custom op with a GRAPHS attribute, a missing optional input and duplicates
    g1n = node("Add", [t2, t2], "g1_out")
    g1 = ir.Graph([], [g1n.outputs[0]], nodes=[g1n], name="g1")
    g2n = node("Identity", [w], "g2_out")
    g2 = ir.Graph([], [g2n.outputs[0]], nodes=[g2n], name="g2")
    n4 = node("Multi", [t0, None, b, t0], "m", attributes=[ir.AttrGraphs("bodies", [g1, g2])])
    m = n4.outputs[0]
    n5 = node("Neg", [b], "dead")
    n6 = node("Add", [r, m], "out")
    graph = ir.Graph(
        [a, b, cond],
        [n6.outputs[0], n5.outputs[0]],
        nodes=[n0, n1, n2, n3, n4, n5, n6],
        initializers=[w, w_unused, k],
        name="main",
        opset_imports={"": 20},
    )
    return graph


# --- a tiny interpreter, scoping by value name ------------------------------------------
def evaluate(graph, env):
    """Evaluates the nodes of the graph in order; env maps value names to numbers."""
    for v in graph.initializers.values():
        env[v.name] = float(v.const_value.numpy())
    for n in graph:
        args = [None if i is None else env[i.name] for i in n.inputs]
        if n.op_type == "Add":
            res = args[0] + args[1]
        elif n.op_type == "Mul":
            res = args[0] * args[1]
        elif n.op_type == "Neg":
            res = -args[0]
        elif n.op_type == "Identity":
            res = args[0]
        elif n.op_type == "If":
            branch = n.attributes["then_branch" if args[0] else "else_branch"].as_graph()
            res = evaluate(branch, dict(env))[branch.outputs[0].name]
        elif n.op_type == "Multi":
            res = sum(x for x in args if x is not None)
            for body in n.attributes["bodies"].as_graphs():
                res += evaluate(body, dict(env))[body.outputs[0].name]
        else:
            raise AssertionError(n.op_type)
        env[n.outputs[0].name] = res
    return env


def all_objects(graph):
    """ids of every graph / node / value / attribute reachable from the graph."""
    ids = {id(graph)}
    for v in (*graph.inputs, *graph.outputs, *graph.initializers.values()):
        ids.add(id(v))
    for n in graph:
        ids.add(id(n))
        for v in (*n.inputs, *n.outputs):
            if v is not None:
                ids.add(id(v))
        for attr in n.attributes.values():
            ids.add(id(attr))
            if attr.type == ir.AttributeType.GRAPH:
                ids |= all_objects(attr.as_graph())
            elif attr.type == ir.AttributeType.GRAPHS:
                for g in attr.as_graphs():
                    ids |= all_objects(g)
    return ids


def subgraphs_of(graph):
    for n in graph:
        for attr in n.attributes.values():
            if attr.type == ir.AttributeType.GRAPH:
                gs = [attr.as_graph()]
            elif attr.type == ir.AttributeType.GRAPHS:
                gs = list(attr.as_graphs())
            else:
                continue
            for g in gs:
                yield g
                yield from subgraphs_of(g)


def brute_force_captures(graph):
    expected = {}
    for sub in subgraphs_of(graph):
        within = [sub, *subgraphs_of(sub)]
        used = {i for g in within for n in g for i in n.inputs if i is not None}
        expected[sub] = {v for v in used if not any(v.graph is g for g in within)}
    return expected


def expect_value_error(fn, *fragments):
    try:
        fn()
    except ValueError as e:
        for frag in fragments:
            assert frag in str(e), (frag, str(e))
        return str(e)
    raise AssertionError("expected ValueError")


def check_region(source, src_env, inputs, outputs, want_nodes, want_inits):
    sub = ir.convenience.extract(source, inputs=inputs, outputs=outputs)
    assert isinstance(sub, ir.Graph)
    got_nodes = [n.name for n in sub]
    assert got_nodes == want_nodes, (got_nodes, want_nodes)
    assert set(sub.initializers) == set(want_inits), (set(sub.initializers), want_inits)
    names = lambda xs: [x if isinstance(x, str) else x.name for x in xs]  # noqa: E731
    assert [v.name for v in sub.inputs] == names(inputs)
    assert [v.name for v in sub.outputs] == names(outputs)
    # independent of the source
    src_graph = source.graph if isinstance(source, ir.Function) else source
    if isinstance(src_graph, ir.Graph):
        assert not (all_objects(sub) & all_objects(src_graph)), "shares objects with the source"
    # same values at the outputs when fed the source's values at the boundary inputs
    env = evaluate(sub, {name: src_env[name] for name in names(inputs)})
    for name in names(outputs):
        assert env[name] == src_env[name], (name, env[name], src_env[name])
    return sub


def main():
    for cond_value in (1.0, 0.0):
        graph = build()
        before = [n.name for n in graph]
        src_env = evaluate(graph, {"a": 2.0, "b": 7.0, "cond": cond_value})
        V = ir.convenience.create_value_mapping(graph, include_subgraphs=False)

        # 1. whole live region by name: the dead node and the unused initializer stay behind
        check_region(
            graph, src_env, ["a", "b", "cond"], ["out"],
            ["n_t0", "n_t1", "n_t2", "n_r", "n_m", "n_out"], {"w", "k"},
        )  # fmt: skip
        # 2. cut at intermediates: only the If node, with the initializer captured two levels deep
        check_region(graph, src_env, [V["t1"], V["t2"], V["cond"]], [V["r"]], ["n_r"], {"k"})
        # 3. the GRAPHS node: t2 is needed only through a capture of a nested graph
        check_region(graph, src_env, [V["t0"], V["b"], V["t2"]], ["m"], ["n_m"], {"w"})
        #    ... not covering it pulls in n_t2, which needs the graph input a -> rejected
        expect_value_error(
            lambda: ir.convenience.extract(graph, inputs=[V["t0"], V["b"]], outputs=["m"]),
            "not properly bounded", "not provided: a",
        )  # fmt: skip
        #    ... and covering a instead gives both nodes in source order
        check_region(graph, src_env, ["t0", "b", "a"], ["m"], ["n_t2", "n_m"], {"w"})
        # 4. several outputs, one of them an intermediate of the other, mixed names/objects
        check_region(
            graph, src_env, ["a", V["b"]], ["t1", V["dead"], "t0"],
            ["n_t0", "n_t1", "n_dead"], {"w"},
        )  # fmt: skip
        # 5. an input that is also an initializer is kept as an initializer
        check_region(graph, src_env, ["a", "w"], ["t0"], ["n_t0"], {"w"})
        # 6. unbounded / malformed requests are rejected
        expect_value_error(
            lambda: ir.convenience.extract(graph, inputs=[], outputs=["out"]),
            "not provided: a, b, cond",
        )
        expect_value_error(
            lambda: ir.convenience.extract(graph, inputs=["a", "b"], outputs=["r"]),
            "not provided: cond",
        )
        expect_value_error(
            lambda: ir.convenience.extract(graph, inputs=["a"], outputs=[]), "At least one output"
        )
        expect_value_error(
            lambda: ir.convenience.extract(graph, inputs=["nope"], outputs=["out"]), "not found"
        )
        other = build()
        expect_value_error(
            lambda: ir.convenience.extract(graph, inputs=["a"], outputs=[other.outputs[0]]),
            "does not belong",
        )
        # a value of a nested graph is not a value of this graph
        expect_value_error(
            lambda: ir.convenience.extract(graph, inputs=["a"], outputs=["then_out"]), "not found"
        )
        # 7. output == input: empty region
        check_region(graph, src_env, ["t1"], ["t1"], [], set())

        # 8. Function and GraphView sources
        fgraph = build()
        func = ir.Function("dom", "Fn", graph=fgraph, attributes=[])
        fenv = evaluate(fgraph, {"a": 2.0, "b": 7.0, "cond": cond_value})
        fsub = ir.convenience.extract(func, inputs=["t1", "t2", "cond"], outputs=["r"])
        assert [n.name for n in fsub] == ["n_r"]
        assert not (all_objects(fsub) & all_objects(fgraph))
        expect_value_error(
            lambda: ir.convenience.extract(func, inputs=["t1", "cond"], outputs=["r"]),
            "not provided: a",
        )
        del fenv
        view = ir.GraphView(
            graph.inputs, graph.outputs, nodes=list(graph),
            initializers=list(graph.initializers.values()), name="view",
        )  # fmt: skip
        vsub = ir.convenience.extract(view, inputs=["a", "b", "cond"], outputs=["out"])
        assert [n.name for n in vsub] == ["n_t0", "n_t1", "n_t2", "n_r", "n_m", "n_out"]
        assert set(vsub.initializers) == {"w", "k"}
        assert not (all_objects(vsub) & all_objects(graph))

        # the source is untouched
        assert [n.name for n in graph] == before
        assert evaluate(graph, {"a": 2.0, "b": 7.0, "cond": cond_value}) == src_env

        # 9. implicit-capture analysis == brute force, on the source and on an extracted region
        for g in (graph, vsub, fsub):
            got = analyze_implicit_usage(g)
            want = brute_force_captures(g)
            assert set(got) == set(want), (set(got), set(want))
            for sub in want:
                assert got[sub] == want[sub], (
                    sub.name,
                    sorted(v.name for v in got[sub]),
                    sorted(v.name for v in want[sub]),
                )
        by_name = {
            g.name: sorted(v.name for v in vs) for g, vs in analyze_implicit_usage(graph).items()
        }
        assert by_name == {
            "then_g": ["k", "t1"],
            "else_g": ["cond", "k", "t1", "t2"],
            "inner_then": ["k", "t2"],
            "inner_else": ["e1", "t1"],
            "g1": ["t2"],
            "g2": ["w"],
        }, by_name
        # a graph without nested graphs has nothing to report
        flat = ir.convenience.extract(graph, inputs=["a", "b"], outputs=["t1"])
        assert analyze_implicit_usage(flat) == {}

    print("C18 demo OK")
    return 0


if __name__ == "__main__":
    sys.exit(main())
