"""Demo for property C18: region extraction and implicit-capture analysis.

Exercises onnx_ir.convenience.extract (boundary given by object and by name, on a
Graph, a Function and a GraphView, with nested sub-graphs, duplicates, empty
boundary sets and rejected calls) and onnx_ir.analysis.analyze_implicit_usage.
Exits 0 when every check passes.
"""

from __future__ import annotations

import numpy as np

import onnx_ir as ir
from onnx_ir.analysis import analyze_implicit_usage
from onnx_ir.convenience import extract

FLOAT = ir.TensorType(ir.DataType.FLOAT)


def val(name: str) -> ir.Value:
    return ir.Value(name=name, type=FLOAT, shape=ir.Shape([2]))


def init(name: str, data) -> ir.Value:
    return ir.Value(
        name=name,
        type=FLOAT,
        shape=ir.Shape([2]),
        const_value=ir.tensor(np.array(data, dtype=np.float32), name=name),
    )


def node(op: str, inputs, out_names, name: str, attributes=None) -> ir.Node:
    return ir.Node(
        "",
        op,
        inputs=inputs,
        attributes=attributes or [],
        outputs=[val(n) for n in out_names],
        name=name,
    )


def build():
    """Main graph:

    x, y : inputs;  w, w2, w_unused : initializers (w2 only used inside a branch)
    n0: a  = Add(x, w)
    n1: b, b2 = Split2(a)           (two outputs)
    n2: c  = Mul(b, y)
    n3: cond = Less(c, b2)
    n4: r  = If(cond) then { t = Add(a, w2); t2 = If(cond){ u = Mul(c, t) } ; out t2 }
                      else { e = Neg(b2) }
    n5: d  = Relu(r)
    n6: z  = Sub(x, y)              (independent of the rest)
    n7: o  = Opt(z, None, z)        (missing input and a duplicate input)
    """
    x, y = val("x"), val("y")
    w, w2, w_unused = init("w", [1, 2]), init("w2", [3, 4]), init("w_unused", [5, 6])
    n0 = node("Add", [x, w], ["a"], "n0")
    a = n0.outputs[0]
    n1 = node("Split2", [a], ["b", "b2"], "n1")
    b, b2 = n1.outputs
    n2 = node("Mul", [b, y], ["c"], "n2")
    c = n2.outputs[0]
    n3 = node("Less", [c, b2], ["cond"], "n3")
    cond = n3.outputs[0]

    # innermost graph: captures c (main graph) and t (then-branch)
    t_node = node("Add", [a, w2], ["t"], "then_add")
    t = t_node.outputs[0]
    u_node = node("Mul", [c, t], ["u"], "inner_mul")
    inner = ir.Graph([], [u_node.outputs[0]], nodes=[u_node], name="inner")
    inner_else_node = node("Neg", [t], ["v"], "inner_neg")
    inner_else = ir.Graph(
        [], [inner_else_node.outputs[0]], nodes=[inner_else_node], name="inner_else"
    )
    inner_if = node(
        "If",
        [cond],
        ["t2"],
        "inner_if",
        attributes=[
            ir.Attr("then_branch", ir.AttributeType.GRAPH, inner),
            ir.Attr("else_branch", ir.AttributeType.GRAPH, inner_else),
        ],
    )
    then_g = ir.Graph([], [inner_if.outputs[0]], nodes=[t_node, inner_if], name="then")
    e_node = node("Neg", [b2], ["e"], "else_neg")
    else_g = ir.Graph([], [e_node.outputs[0]], nodes=[e_node], name="else")
    n4 = node(
        "If",
        [cond],
        ["r"],
        "n4",
        attributes=[
            ir.Attr("then_branch", ir.AttributeType.GRAPH, then_g),
            ir.Attr("else_branch", ir.AttributeType.GRAPH, else_g),
        ],
    )
    r = n4.outputs[0]
    n5 = node("Relu", [r], ["d"], "n5")
    n6 = node("Sub", [x, y], ["z"], "n6")
    z = n6.outputs[0]
    n7 = node("Opt", [z, None, z], ["o"], "n7")
    graph = ir.Graph(
        [x, y],
        [n5.outputs[0], n7.outputs[0]],
        nodes=[n0, n1, n2, n3, n4, n5, n6, n7],
        initializers=[w, w2, w_unused],
        opset_imports={"": 20},
        name="main",
        doc_string="doc",
        metadata_props={"k": "v"},
    )
    subgraphs = {"then": then_g, "else": else_g, "inner": inner, "inner_else": inner_else}
    return graph, subgraphs


def names(values) -> list:
    return [v.name for v in values]


def all_objects(g: ir.Graph) -> set:
    """ids of every graph/node/value reachable from g (at any depth)."""
    seen: set = {id(g)}
    for v in (*g.inputs, *g.outputs, *g.initializers.values()):
        seen.add(id(v))
    for n in g:
        seen.add(id(n))
        for v in (*n.inputs, *n.outputs):
            if v is not None:
                seen.add(id(v))
        for attr in n.attributes.values():
            if attr.type == ir.AttributeType.GRAPH:
                seen |= all_objects(attr.as_graph())
            elif attr.type == ir.AttributeType.GRAPHS:
                for sg in attr.as_graphs():
                    seen |= all_objects(sg)
    return seen


def check_extract(source, src_graph, inputs, outputs, want_nodes, want_inits):
    before = [n.name for n in source]
    got = extract(source, inputs=inputs, outputs=outputs)
    assert isinstance(got, ir.Graph)
    assert [n.name for n in got] == want_nodes, ([n.name for n in got], want_nodes)
    assert sorted(got.initializers) == sorted(want_inits), sorted(got.initializers)
    in_names = [i if isinstance(i, str) else i.name for i in inputs]
    out_names = [o if isinstance(o, str) else o.name for o in outputs]
    assert names(got.inputs) == in_names, names(got.inputs)
    assert names(got.outputs) == out_names, names(got.outputs)
    # independent of the source
    assert not (all_objects(got) & all_objects(src_graph))
    # initializers keep their data
    for name, v in got.initializers.items():
        np.testing.assert_array_equal(
            v.const_value.numpy(), src_graph.initializers[name].const_value.numpy()
        )
    # the source is untouched
    assert [n.name for n in source] == before
    assert got.name == source.name and got.doc_string == source.doc_string
    assert dict(got.opset_imports) == dict(source.opset_imports)
    return got


def expect_value_error(fn, fragment: str) -> str:
    try:
        fn()
    except ValueError as e:
        assert fragment in str(e), str(e)
        return str(e)
    raise AssertionError(f"expected ValueError containing {fragment!r}")


def main() -> None:
    graph, sub = build()
    v = ir.convenience.create_value_mapping(graph, include_subgraphs=False)

    # --- whole computation of d, boundary by name; nested captures pull in a, c, b2, w2
    got = check_extract(
        graph, graph, ["x", "y"], ["d"], ["n0", "n1", "n2", "n3", "n4", "n5"], ["w", "w2"]
    )
    # nested graphs were cloned too and refer to the clone's values
    n4c = got.node("n4")
    then_c = n4c.attributes["then_branch"].as_graph()
    assert then_c is not sub["then"]
    a_clone = got.node("n0").outputs[0]
    assert then_c.node("then_add").inputs[0] is a_clone
    assert then_c.node("then_add").inputs[1] is got.initializers["w2"]
    inner_c = then_c.node("inner_if").attributes["then_branch"].as_graph()
    assert inner_c.node("inner_mul").inputs[0] is got.node("n2").outputs[0]
    assert inner_c.node("inner_mul").inputs[1] is then_c.node("then_add").outputs[0]

    # --- by object, mixed with names, and cut in the middle: a is a boundary input.
    # The nested graphs capture a, c, b2 and w2; x and w are no longer needed.
    check_extract(graph, graph, [v["a"], "y"], [v["d"]], ["n1", "n2", "n3", "n4", "n5"], ["w2"])

    # --- cut just above the If: everything it captures must be covered
    check_extract(graph, graph, ["cond", "a", "c", "b2"], ["r"], ["n4"], ["w2"])
    msg = expect_value_error(
        lambda: extract(graph, inputs=["cond", "a"], outputs=["r"]), "not properly bounded"
    )
    # c and b2 are captured by the nested graphs; their producers need a (given) and y
    assert msg.endswith("required but not provided: y"), msg

    # --- initializer listed as boundary input stays an initializer of the result
    g2 = check_extract(graph, graph, ["x", "w"], ["a"], ["n0"], ["w"])
    assert names(g2.inputs) == ["x", "w"]

    # --- duplicates in inputs and in outputs, two outputs of one node
    check_extract(graph, graph, ["a", "a"], ["b", "b2", "b"], ["n1"], [])

    # --- missing (None) input and a duplicated node input
    g3 = check_extract(graph, graph, ["x", "y"], ["o"], ["n6", "n7"], [])
    o_node = g3.node("n7")
    assert o_node.inputs[1] is None and o_node.inputs[0] is o_node.inputs[2]

    # --- output that is itself a boundary input: empty region
    check_extract(graph, graph, ["a"], ["a"], [], [])
    # --- output that is a graph input listed as boundary input
    check_extract(graph, graph, ["x"], ["x"], [], [])
    # --- output that is an initializer
    check_extract(graph, graph, [], ["w_unused"], [], ["w_unused"])

    # --- rejected calls
    expect_value_error(lambda: extract(graph, inputs=["x"], outputs=["d"]), "provided: y")
    expect_value_error(lambda: extract(graph, inputs=[], outputs=["z"]), "provided: x, y")
    expect_value_error(lambda: extract(graph, inputs=["x", "y"], outputs=[]), "At least one output")
    # the inputs are validated before the emptiness of outputs is reported
    expect_value_error(lambda: extract(graph, inputs=["nope"], outputs=[]), "'nope' not found")
    # inputs are validated before outputs; names of nested graphs are not visible
    expect_value_error(
        lambda: extract(graph, inputs=["bad_in"], outputs=["bad_out"]), "'bad_in' not found"
    )
    expect_value_error(lambda: extract(graph, inputs=["x"], outputs=["t"]), "'t' not found")
    # not a Value and not a str: treated as an unknown name
    expect_value_error(lambda: extract(graph, inputs=[None], outputs=["a"]), "'None' not found")
    # a value of a nested graph, or of no graph, does not belong to the graph
    t_val = sub["then"].node("then_add").outputs[0]
    expect_value_error(
        lambda: extract(graph, inputs=["x", "y"], outputs=[t_val]), "does not belong to the given Graph (main)"
    )
    expect_value_error(
        lambda: extract(graph, inputs=[val("foreign")], outputs=["a"]), "does not belong to the given Graph"
    )
    # a foreign object is reported before an unknown name that comes later
    expect_value_error(
        lambda: extract(graph, inputs=[t_val], outputs=["nope"]), "does not belong"
    )
    # an unnamed graph
    anon_in = val("p")
    anon_node = node("Relu", [anon_in], ["q"], "anon")
    anon = ir.Graph([anon_in], anon_node.outputs, nodes=[anon_node])
    expect_value_error(
        lambda: extract(anon, inputs=[v["x"]], outputs=["q"]), "(unnamed graph)"
    )
    # nothing was changed by the rejected calls
    assert [n.name for n in graph] == ["n0", "n1", "n2", "n3", "n4", "n5", "n6", "n7"]
    assert sorted(graph.initializers) == ["w", "w2", "w_unused"]

    # --- extraction from a nested graph whose nodes use outer-scope values that are not
    # covered by the boundary inputs is rejected
    then_g = sub["then"]
    expect_value_error(
        lambda: extract(then_g, inputs=[], outputs=["t2"]), "not properly bounded"
    )

    # --- a GraphView accepts values of the underlying graph
    view = ir.GraphView(
        [v["a"], v["y"]], [v["cond"]], nodes=[graph.node("n1"), graph.node("n2"), graph.node("n3")]
    )
    gv = extract(view, inputs=[v["a"], "y"], outputs=["cond"])
    assert [n.name for n in gv] == ["n1", "n2", "n3"]
    assert not (all_objects(gv) & all_objects(graph))
    gv2 = extract(view, inputs=["b", "y", v["b2"]], outputs=[v["cond"]])
    assert [n.name for n in gv2] == ["n2", "n3"]

    # --- a Function: no initializers are recorded
    fx, fy = val("fx"), val("fy")
    f0 = node("Add", [fx, fy], ["fa"], "f0")
    f1 = node("Mul", [f0.outputs[0], fx], ["fb"], "f1")
    f2 = node("Neg", [fy], ["fc"], "f2")
    fgraph = ir.Graph(
        [fx, fy],
        [f1.outputs[0], f2.outputs[0]],
        nodes=[f0, f1, f2],
        opset_imports={"": 20},
        name="fn_graph",
    )
    func = ir.Function("dom", "fn", graph=fgraph, attributes=[])
    gf = extract(func, inputs=["fx", fy], outputs=["fb"])
    assert [n.name for n in gf] == ["f0", "f1"] and not gf.initializers
    assert not (all_objects(gf) & all_objects(fgraph))
    expect_value_error(lambda: extract(func, inputs=["fx"], outputs=["fb"]), "provided: fy")
    expect_value_error(
        lambda: extract(func, inputs=[v["x"]], outputs=["fb"]), "does not belong to the given Function"
    )

    # --- implicit-capture analysis: exactly the outer-scope values used inside or deeper
    usage = analyze_implicit_usage(graph)
    assert set(usage) == set(sub.values()), [g.name for g in usage]
    t_val = sub["then"].node("then_add").outputs[0]
    want = {
        "then": {v["a"], v["w2"], v["cond"], v["c"]},
        "else": {v["b2"]},
        "inner": {v["c"], t_val},
        "inner_else": {t_val},
    }
    for key, g in sub.items():
        assert usage[g] == want[key], (key, names(usage[g]))
    # the analysed graph itself has no entry; analysing a nested graph directly
    assert graph not in usage
    usage_then = analyze_implicit_usage(sub["then"])
    assert set(usage_then) == {sub["inner"], sub["inner_else"]}
    assert usage_then[sub["inner"]] == {v["c"], t_val}
    assert usage_then[sub["inner_else"]] == {t_val}
    # a graph without nested graphs, and an empty graph
    assert analyze_implicit_usage(fgraph) == {}
    assert analyze_implicit_usage(ir.Graph([], [], nodes=[])) == {}
    # a nested graph using a value owned by no graph on the stack, and a None input
    stray = val("stray")
    q_node = node("Opt", [stray, None, anon_in], ["qq"], "q_node")
    q_graph = ir.Graph([], q_node.outputs, nodes=[q_node], name="q")
    host = node(
        "Loop", [], ["h"], "host", attributes=[ir.Attr("body", ir.AttributeType.GRAPHS, [q_graph])]
    )
    host_graph = ir.Graph([], host.outputs, nodes=[host], name="host_graph")
    assert analyze_implicit_usage(host_graph) == {q_graph: {stray, anon_in}}

    # the captures reported for the If node are what bounds its extraction
    captured = usage[sub["then"]] | usage[sub["else"]]
    needed = sorted(x.name for x in captured if not x.is_initializer())
    assert needed == ["a", "b2", "c", "cond"]
    check_extract(graph, graph, needed, ["r"], ["n4"], ["w2"])
    for drop, missing in (("a", "x"), ("c", "y")):
        expect_value_error(
            lambda drop=drop: extract(
                graph, inputs=[n for n in needed if n != drop], outputs=["r"]
            ),
            f"required but not provided: {missing}",
        )
    # b2 can be recomputed from a, so leaving it out only enlarges the region
    check_extract(graph, graph, ["a", "c", "cond"], ["r"], ["n1", "n4"], ["w2"])

    print("C18 demo OK")


if __name__ == "__main__":
    main()
