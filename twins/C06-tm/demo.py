"""C06 demo: rejected initializer edits and rejected sorts leave the IR untouched."""
import numpy as np

import onnx_ir as ir


def snap_value(v):
    return (
        id(v), v.name, id(v.graph) if v.graph is not None else None,
        v.is_graph_input(), v.is_graph_output(), v.is_initializer(),
        id(v.producer()) if v.producer() is not None else None, v.index(),
        tuple((id(n), i) for n, i in v.uses()),
        id(v.const_value) if v.const_value is not None else None,
    )


def snap_graph(g, extra_values=()):
    nodes = []
    for n in g:
        sub = []
        for a in n.attributes.values():
            if a.type == ir.AttributeType.GRAPH:
                sub.append((a.name, snap_graph(a.value)))
        nodes.append((
            id(n), n.name, n.op_type, id(n.graph) if n.graph is not None else None,
            tuple(None if v is None else snap_value(v) for v in n.inputs),
            tuple(snap_value(v) for v in n.outputs), tuple(sub),
        ))
    return (
        g.name, tuple(nodes),
        tuple(snap_value(v) for v in g.inputs), tuple(snap_value(v) for v in g.outputs),
        tuple((k, snap_value(v)) for k, v in g.initializers.items()),
        tuple(snap_value(v) for v in extra_values),
    )


def const(name):
    return ir.Value(name=name, const_value=ir.tensor(np.array([1.0], dtype=np.float32), name=name or "t"))


def expect(exc_type, fn, graphs, extra=()):
    before = [snap_graph(g, extra) for g in graphs]
    try:
        fn()
    except exc_type:
        pass
    else:
        raise AssertionError("call was not rejected")
    after = [snap_graph(g, extra) for g in graphs]
    assert before == after, "a rejected call changed the IR"


def build():
    x = ir.Value(name="x")
    w = const("w")
    n1 = ir.Node("", "Add", [x, w], name="n1")
    n2 = ir.Node("", "Relu", [n1.outputs[0]], name="n2")
    g = ir.Graph([x], [n2.outputs[0]], nodes=[n1, n2], initializers=[w], name="g")
    return g, x, w, n1, n2


# ---------------------------------------------------------------- initializers
g, x, w, n1, n2 = build()
other = ir.Graph([], [], nodes=[], name="other")
foreign = const("foreign")
other.initializers.add(foreign)
produced = n1.outputs[0]
good1, good2, good3 = const("a"), const("b"), const("c")
bad_items = [
    ("foreign", foreign, ValueError),          # owned by another graph
    (produced.name, produced, ValueError),     # produced by a node
    ("not_the_name", const("zzz"), ValueError),  # key != name
    ("", const(""), ValueError),               # empty key
    ("k", "not a value", TypeError),           # wrong type
    (3, const("three"), TypeError),            # key not a string
]
for key, bad, exc in bad_items:
    for pos in range(4):  # the rejected item at every position
        goods = [("a", good1), ("b", good2), ("c", good3)]
        pairs = goods[:pos] + [(key, bad)] + goods[pos:]
        extra = [good1, good2, good3, foreign] + ([bad] if isinstance(bad, ir.Value) else [])
        expect(exc, lambda: g.initializers.update(pairs), [g, other], extra)
        expect(exc, lambda: g.initializers.update(dict(pairs)), [g, other], extra)

        def ior():
            g.initializers.__ior__(dict(pairs))
        expect(exc, ior, [g, other], extra)
        expect(exc, lambda: ir.Graph([], [], nodes=[], initializers=[]).initializers.update(pairs),
               [g, other], extra)

# An unnamed value under two keys: rejected, also mixed with valid items and an invalid one later
unnamed = ir.Value(name=None, const_value=ir.tensor(np.array([2.0], dtype=np.float32)))
for pairs, exc in [
    ([("u1", unnamed), ("u2", unnamed)], ValueError),
    ([("a", good1), ("u1", unnamed), ("b", good2), ("u2", unnamed)], ValueError),
    ([("u1", unnamed), ("u2", unnamed), ("k", "not a value")], ValueError),
    ([("u1", unnamed), ("k", "not a value"), ("u2", unnamed)], TypeError),
]:
    expect(exc, lambda: g.initializers.update(pairs), [g], [unnamed, good1, good2])
    assert unnamed.name is None and unnamed.graph is None
try:
    g.initializers.update([("u1", unnamed), ("u2", unnamed)])
except ValueError as e:
    assert "'u1' and 'u2'" in str(e), str(e)

# Empty update and duplicate pairs (same key twice in a list -> last wins) are accepted
g.initializers.update()
g.initializers.update([])
g.initializers.update([("a", good1), ("a", good1)], b=good2)
assert list(g.initializers) == ["w", "a", "b"] and good1.graph is g and good2.graph is g
# The same unnamed value under ONE key is fine and gets named after the key
g.initializers.update([("u1", unnamed)])
assert unnamed.name == "u1" and unnamed.graph is g and g.initializers["u1"] is unnamed

# register_initializer
w2 = const("w")
expect(ValueError, lambda: g.register_initializer(w2), [g], [w2])          # name collision
try:
    g.register_initializer(w2)
except ValueError as e:
    assert "Initializer 'w' is already registered" in str(e)
expect(ValueError, lambda: g.register_initializer(const("")), [g])          # missing name
expect(ValueError, lambda: g.register_initializer(const(None)), [g])
noconst = ir.Value(name="noconst")
expect(ValueError, lambda: g.register_initializer(noconst), [g], [noconst])  # no const_value
expect(ValueError, lambda: g.register_initializer(foreign), [g, other], [foreign])
expect(ValueError, lambda: g.register_initializer(produced), [g])
s = snap_graph(g)
g.register_initializer(w)  # re-registering the same object is accepted and changes nothing
assert snap_graph(g) == s
g.register_initializer(good3)
assert g.initializers["c"] is good3 and good3.graph is g
# a Function has no initializers but the graph inside behaves the same
expect(ValueError, lambda: g.initializers.__setitem__("mismatch", const("other_name")), [g])
expect(KeyError, lambda: g.initializers.__delitem__("missing"), [g])

# ---------------------------------------------------------------- sort
# cycle in the main graph
g, x, w, n1, n2 = build()
n3 = ir.Node("", "Neg", [n2.outputs[0]], name="n3")
g.append(n3)
n1.replace_input_with(0, n3.outputs[0])  # n1 -> n2 -> n3 -> n1
expect(ValueError, g.sort, [g])
expect(ValueError, g.sort, [g])  # retry: still rejected, still unchanged
n1.replace_input_with(0, x)
g.remove(n3)
g.insert_before(n1, n3)  # order n3, n1, n2 is not topological
g.sort()
assert [n.name for n in g] == ["n1", "n2", "n3"]

# cycle only inside a nested subgraph; the outer graph is out of order as well
ia = ir.Node("", "Abs", [ir.Value(name="dummy")], name="ia")
ib = ir.Node("", "Neg", [ia.outputs[0]], name="ib")
ia.replace_input_with(0, ib.outputs[0])
inner = ir.Graph([], [ib.outputs[0]], nodes=[ia, ib], name="inner")
ox = ir.Value(name="ox")
o1 = ir.Node("", "Relu", [ox], name="o1")
o_if = ir.Node("", "If", [o1.outputs[0]], attributes=[ir.AttrGraph("then_branch", inner)], name="o_if")
o2 = ir.Node("", "Neg", [o_if.outputs[0]], name="o2")
outer = ir.Graph([ox], [o2.outputs[0]], nodes=[o2, o_if, o1], name="outer")
expect(ValueError, outer.sort, [outer])
assert [n.name for n in outer] == ["o2", "o_if", "o1"]
assert [n.name for n in inner] == ["ia", "ib"]
fdummy = ir.Value(name="fd")
ia.replace_input_with(0, fdummy)  # break the cycle; inner order becomes fine, outer gets sorted
outer.sort()
assert [n.name for n in outer] == ["o1", "o_if", "o2"]
assert [n.name for n in inner] == ["ia", "ib"]

# Function.sort delegates; empty graph sorts trivially
fx = ir.Value(name="fx")
f1 = ir.Node("", "Relu", [fx], name="f1")
f2 = ir.Node("", "Neg", [f1.outputs[0]], name="f2")
fg = ir.Graph([fx], [f2.outputs[0]], nodes=[f2, f1], name="fg")
func = ir.Function("dom", "fn", graph=fg, attributes=[])
func.sort()
assert [n.name for n in func] == ["f1", "f2"]
f1.replace_input_with(0, f2.outputs[0])
expect(ValueError, func.sort, [fg])
empty = ir.Graph([], [], nodes=[], name="empty")
empty.sort()
assert len(empty) == 0
print("C06 demo OK")
