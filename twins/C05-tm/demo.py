"""Demo for C05: OutputFixPass (alone and composed) preserves what the model computes."""
import sys

import numpy as np
import onnx
import onnx.reference

import onnx_ir as ir
from onnx_ir.passes.common import (
    IdentityEliminationPass,
    OutputFixPass,
    RemoveUnusedNodesPass,
    TopologicalSortPass,
)

FLOAT = ir.TensorType(ir.DataType.FLOAT)


def val(name, shape=(2,)):
    return ir.Value(name=name, type=FLOAT, shape=ir.Shape(list(shape)))


def build_model():
    x = val("x")
    y = val("y")
    cond = ir.Value(name="cond", type=ir.TensorType(ir.DataType.BOOL), shape=ir.Shape([]))
    x.metadata_props["origin"] = "input-x"
    x.doc_string = "the x input"

    add = ir.node("Add", inputs=[x, y], outputs=[val("s")])
    s = add.outputs[0]

    # then-branch: outer value captured and returned twice (duplicate subgraph outputs)
    t_id = ir.node("Neg", inputs=[s], outputs=[val("t_neg")])
    then_g = ir.Graph(
        inputs=[], outputs=[t_id.outputs[0], t_id.outputs[0]], nodes=[t_id], name="then_g"
    )
    e_a = ir.node("Abs", inputs=[x], outputs=[val("e_abs")])
    e_b = ir.node("Mul", inputs=[s, y], outputs=[val("e_mul")])
    else_g = ir.Graph(
        inputs=[], outputs=[e_a.outputs[0], e_b.outputs[0]], nodes=[e_a, e_b], name="else_g"
    )
    if_node = ir.node(
        "If",
        inputs=[cond],
        attributes={"then_branch": then_g, "else_branch": else_g},
        outputs=[val("r0"), val("r1")],
    )
    # Names chosen so that the fresh-name search has to skip taken names.
    clash1 = ir.node("Relu", inputs=[s], outputs=[val("x_orig")])
    clash2 = ir.node("Relu", inputs=[s], outputs=[val("s_alias_3")])
    graph = ir.Graph(
        inputs=[x, y, cond],
        # x: input used directly as output, twice; s: ordinary value used 3 times
        outputs=[
            x,
            s,
            s,
            s,
            x,
            if_node.outputs[0],
            if_node.outputs[1],
            clash1.outputs[0],
            clash2.outputs[0],
        ],
        nodes=[add, if_node, clash1, clash2],
        opset_imports={"": 20},
        name="main",
    )
    return ir.Model(graph, ir_version=10)


def run(model, feeds):
    proto = ir.to_proto(model)
    sess = onnx.reference.ReferenceEvaluator(proto)
    return sess.run(None, feeds)


def feeds_list():
    rng = np.random.default_rng(0)
    out = []
    for c in (True, False):
        out.append(
            {
                "x": rng.standard_normal(2).astype(np.float32),
                "y": rng.standard_normal(2).astype(np.float32),
                "cond": np.array(c),
            }
        )
    return out


def check_same(expected, model, feeds, what):
    got = run(model, feeds)
    assert len(got) == len(expected), (what, len(got), len(expected))
    for i, (a, b) in enumerate(zip(expected, got)):
        np.testing.assert_array_equal(a, b, err_msg=f"{what}: output {i}")


def main():
    all_feeds = feeds_list()
    reference = [run(build_model(), f) for f in all_feeds]

    # 1. OutputFixPass alone
    model = build_model()
    n_inputs = [v.name for v in model.graph.inputs]
    result = OutputFixPass()(model)
    assert result.modified is True
    assert result.model is model
    assert len(model.graph.outputs) == 9
    assert len({id(v) for v in model.graph.outputs}) == 9, "outputs must be unique now"
    assert not any(v.is_graph_input() for v in model.graph.outputs)
    assert len(model.graph.inputs) == 3
    # All value names unique in main graph
    names = [v.name for v in model.graph.inputs] + [
        o.name for n in model.graph for o in n.outputs
    ]
    assert len(names) == len(set(names)), names
    # The output keeps the public name "x"; the input was renamed, skipping the taken x_orig
    assert model.graph.outputs[0].name == "x"
    assert model.graph.inputs[0].name == "x_orig_1", model.graph.inputs[0].name
    assert model.graph.outputs[0].metadata_props == {"origin": "input-x"}
    assert model.graph.outputs[0].doc_string == "the x input"
    assert model.graph.outputs[3].name == "s_alias_3_1", model.graph.outputs[3].name
    # subgraph duplicate output fixed too
    if_node = next(n for n in model.graph if n.op_type == "If")
    then_g = if_node.attributes["then_branch"].as_graph()
    assert then_g.outputs[0] is not then_g.outputs[1]
    assert then_g.outputs[1].name == "t_neg_alias_1"
    onnx.checker.check_model(ir.to_proto(model), full_check=True)
    for f, exp in zip(all_feeds, reference):
        f2 = dict(f)
        # the first graph input has been renamed (position preserved)
        f2[model.graph.inputs[0].name] = f2.pop("x")
        check_same(exp, model, f2, "OutputFixPass")
    assert [v.name for v in model.graph.inputs][1:] == n_inputs[1:]

    # 2. Idempotence: a second run does nothing
    result2 = OutputFixPass()(model)
    assert result2.modified is False
    assert len(list(model.graph)) == len(list(result.model.graph))

    # 3. Composed with other passes
    model = build_model()
    seq = ir.passes.Sequential(
        OutputFixPass(),
        IdentityEliminationPass(),
        OutputFixPass(),
        RemoveUnusedNodesPass(),
        TopologicalSortPass(),
    )
    seq(model)
    assert len(model.graph.outputs) == 9 and len(model.graph.inputs) == 3
    onnx.checker.check_model(ir.to_proto(model), full_check=True)
    for f, exp in zip(all_feeds, reference):
        f2 = {v.name: arr for v, arr in zip(model.graph.inputs, (f["x"], f["y"], f["cond"]))}
        check_same(exp, model, f2, "Sequential")

    # 4. Unusual: a function whose input is also its output twice, and an empty graph
    fx = val("fx")
    func_graph = ir.Graph(inputs=[fx], outputs=[fx, fx], nodes=[], opset_imports={"": 20})
    func = ir.Function("custom", "Pass2", graph=func_graph, attributes=[])
    a = val("a")
    call = ir.node("Pass2", domain="custom", inputs=[a], outputs=[val("p"), val("q")])
    g = ir.Graph(
        inputs=[a],
        outputs=list(call.outputs),
        nodes=[call],
        opset_imports={"": 20, "custom": 1},
        name="fmain",
    )
    fmodel = ir.Model(g, ir_version=10, functions=[func])
    arr = np.array([1.5, -2.0], dtype=np.float32)
    before = run(fmodel, {"a": arr})
    res = OutputFixPass()(fmodel)
    assert res.modified is True
    assert [n.op_type for n in func] == ["Identity", "Identity"]
    assert func.outputs[0] is not func.outputs[1]
    assert len(func.inputs) == 1 and not any(o.is_graph_input() for o in func.outputs)
    onnx.checker.check_model(ir.to_proto(fmodel))
    check_same(before, fmodel, {"a": arr}, "function")

    empty = ir.Model(ir.Graph(inputs=[], outputs=[], nodes=[], opset_imports={"": 20}), ir_version=10)
    res = OutputFixPass()(empty)
    assert res.modified is False and len(list(empty.graph)) == 0

    # 5. Rejected call: a pass is applied to models only
    try:
        OutputFixPass()(g)  # a Graph, not a Model
    except AttributeError:
        pass
    else:
        raise AssertionError("expected AttributeError")
    assert len(list(g)) == 1, "rejected call must not touch the graph"
    try:
        ir.passes.Sequential()
    except ValueError:
        pass
    else:
        raise AssertionError("expected ValueError")

    print("OK")
    return 0


if __name__ == "__main__":
    sys.exit(main())
