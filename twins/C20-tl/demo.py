"""Demo for C20: journaling observes without interfering and always restores the classes."""
import gc
import os
import weakref

import onnx_ir as ir
from onnx_ir import _core, _graph_containers
from onnx_ir.journaling import Journal, get_current_journal

# (worktree-path assertion removed when the twin was stored)

PATCHED = [
    (_core.TensorBase, ["__init__"]),
    (_core.Node, ["__init__", "name", "domain", "version", "op_type", "overload",
                  "resize_inputs", "prepend", "append", "resize_outputs", "graph"]),
    (_core.Value, ["__init__", "name", "type", "shape", "const_value",
                   "replace_all_uses_with", "merge_shapes"]),
    (_core.Graph, ["__init__", "register_initializer", "append", "extend", "remove",
                   "insert_after", "insert_before", "sort"]),
    (_core.Model, ["__init__"]),
    (_core.Function, ["__init__", "name", "domain", "overload"]),
    (_core.Attr, ["__init__"]),
    (_graph_containers._GraphIO, ["append", "extend", "insert", "pop", "remove", "clear",
                                  "__setitem__"]),
    (_graph_containers.GraphInitializers, ["__setitem__", "__delitem__"]),
    (_graph_containers.Attributes, ["__setitem__"]),
]


def snapshot():
    """Functions reachable through every patched attribute (fget/fset for properties)."""
    snap = {}
    for cls, names in PATCHED:
        for n in names:
            a = cls.__dict__[n]
            if isinstance(a, property):
                snap[(cls.__name__, n)] = (a.fget, a.fset, a.fdel, a.__doc__)
            else:
                snap[(cls.__name__, n)] = a
    return snap


def scenario():
    """A sequence of IR operations incl. rejected calls; returns an observable summary."""
    log = []
    x = ir.Value(name="x", type=ir.TensorType(ir.DataType.FLOAT), shape=ir.Shape([1, 2]))
    y = ir.Value(name="y")
    n1 = ir.Node("", "Add", [x, y], name="n1", num_outputs=1)
    n2 = ir.Node("", "Mul", [n1.outputs[0], n1.outputs[0]], name="n2")  # duplicate inputs
    g = ir.Graph([x, y], [n2.outputs[0]], nodes=[n1, n2], name="g")
    n1.name = "n1_renamed"
    n1.domain = "custom"
    n2.op_type = "Div"
    y.shape = ir.Shape([3])
    n3 = ir.Node("", "Relu", [x], name="n3")
    g.append(n3)
    g.extend([])  # empty input
    g.outputs.append(n3.outputs[0])
    g.inputs.extend([])
    n2.attributes["alpha"] = ir.AttrFloat32("alpha", 1.0)
    n1.outputs[0].replace_all_uses_with(x)
    # rejected: removing a node that is not in the graph / node already owned
    for bad in (lambda: g.remove(ir.Node("", "Id", [], name="stray")),
                lambda: ir.Graph([], [], nodes=[n1], name="g2"),
                lambda: g.insert_after(n3, [n1])):
        try:
            bad()
            log.append("ok")
        except Exception as e:  # noqa: BLE001
            log.append(type(e).__name__)
    n3.resize_inputs(2)
    g.sort()
    log.append([n.name for n in g])
    log.append([(n.name, n.domain, n.op_type, [i.name if i is not None else None for i in n.inputs])
                for n in g])
    log.append([v.name for v in g.inputs])
    log.append([v.name for v in g.outputs])
    log.append(sorted(n2.attributes))
    log.append(str(y.shape))
    return log


class Boom(Exception):
    pass


before = snapshot()
plain = scenario()

# 1. same observable result inside a journal; one entry per operation in program order
with Journal() as j:
    assert get_current_journal() is j
    inside = scenario()
assert inside == plain, (inside, plain)
assert get_current_journal() is None
assert snapshot() == before
ops = [(e.operation, e.class_name) for e in j.entries]
assert ops[0] == ("init", "Value") and ops[1] == ("init", "Value"), ops[:3]
assert ("set_name", "Node") in ops and ("sort", "Graph") in ops and ("append_io", "Graph") in ops
assert ops.index(("set_name", "Node")) < ops.index(("set_domain", "Node")) < ops.index(("set_op_type", "Node"))
# the stack trace of an entry ends in user code (this file), not in a wrapper / record frame
for e in j.entries:
    assert e.stack_trace, e
    assert e.stack_trace[-1].name != "record" and e.stack_trace[-1].name != "wrapper", e.stack_trace[-1]
first = j.entries[0]
assert first.stack_trace[-1].filename == __file__ and first.stack_trace[-1].name == "scenario", first.stack_trace[-1]

# 2. nesting depth 3 with an exception thrown from the innermost block
outer, mid, inner = Journal(), Journal(), Journal()
try:
    with outer:
        s1 = snapshot()
        with mid:
            s2 = snapshot()
            assert s2 != s1
            try:
                with inner:
                    assert get_current_journal() is inner
                    v = ir.Value(name="deep")
                    raise Boom()
            except Boom:
                pass
            assert get_current_journal() is mid
            assert snapshot() == s2
            v2 = ir.Value(name="mid")
            raise Boom("again")
        raise AssertionError("unreachable")
except Boom as e:
    assert e.args == ("again",)
assert get_current_journal() is None
assert snapshot() == before
# inner journal's operation is seen by all three journals; mid's by mid and outer
assert [e.details for e in inner.entries] == [repr(v)]
assert len(inner.entries) == 1 and len(mid.entries) == 2 and len(outer.entries) == 2
assert [e.obj for e in outer.entries] == [v, v2]

# 3. an exception escaping the block is propagated unchanged and classes are restored
try:
    with Journal() as j3:
        node = ir.Node("", "X", [], name="x")
        node.resize_outputs(2)
        raise Boom("out")
except Boom as e:
    assert e.args == ("out",)
assert snapshot() == before and get_current_journal() is None
assert [e.operation for e in j3.entries][:1] == ["init"]
assert "resize_outputs" in [e.operation for e in j3.entries]

# 4. entries keep no strong reference
with Journal() as j4:
    tmp = ir.Value(name="tmp")
    tmp.name = "tmp2"
wr = weakref.ref(tmp)
entries4 = list(j4.entries)
del tmp
gc.collect()
assert wr() is None
assert all(e.obj is None and e.ref is not None for e in entries4)

# 5. an empty journal block, and direct record() of a non-weakrefable / None object
with Journal() as j5:
    pass
assert list(j5.entries) == [] and snapshot() == before
seen = []
j5.add_hook(seen.append)
j5.record(None, "noop")
assert j5.entries[-1].ref is None and j5.entries[-1].obj is None and seen == list(j5.entries)
try:
    j5.record(5, "bad")
except TypeError:
    pass
else:
    raise AssertionError("expected TypeError")
assert len(j5.entries) == 1

# 6. after everything, plain behaviour is still identical
assert scenario() == plain
print("OK", len(j.entries), "entries", plain[:3])
