"""C06 demo: rejected edits of graph inputs / outputs leave every IR object as it was.

Exercises the ownership bookkeeping of GraphInputs / GraphOutputs (taking and
releasing values, duplicates, values that play several roles) through the public API.
"""

from __future__ import annotations

import sys

import onnx_ir as ir


def snapshot(graphs, values, nodes):
    """Every observable property we care about, as plain comparable data."""
    snap = {}
    for gi, g in enumerate(graphs):
        snap["graph", gi] = (
            g.name,
            tuple(id(v) for v in g.inputs),
            tuple(id(v) for v in g.outputs),
            tuple((k, id(v)) for k, v in g.initializers.items()),
            tuple(id(n) for n in g),
        )
    for vi, v in enumerate(values):
        snap["value", vi] = (
            v.name,
            id(v.graph) if v.graph is not None else None,
            v.is_graph_input(),
            v.is_graph_output(),
            v.is_initializer(),
            id(v.producer()) if v.producer() is not None else None,
            v.index(),
            tuple((id(u.node), u.idx) for u in v.uses()),
        )
    for ni, n in enumerate(nodes):
        snap["node", ni] = (
            n.name,
            id(n.graph) if n.graph is not None else None,
            tuple(id(v) if v is not None else None for v in n.inputs),
            tuple(id(v) for v in n.outputs),
        )
    return snap


def main() -> int:
    failures = []

    def check(cond, msg):
        if not cond:
            failures.append(msg)

    a, b, c = ir.val("a"), ir.val("b"), ir.val("c")
    w = ir.val("w", const_value=ir.tensor([1.0], name="w"))
    node = ir.Node("", "Add", inputs=[a, b], name="n0")
    y = node.outputs[0]
    y.name = "y"
    # y is listed twice as an output, a is an input and an output, w is input + initializer
    g = ir.Graph([a, b, w], [y, y, a], nodes=[node], initializers=[w], name="g")

    foreign = ir.val("foreign")
    other_node = ir.Node("", "Neg", inputs=[foreign], name="m0")
    z = other_node.outputs[0]
    z.name = "z"
    g2 = ir.Graph([foreign], [z], nodes=[other_node], name="g2")

    free1, free2 = ir.val("free1"), ir.val("free2")
    graphs = [g, g2]
    values = [a, b, c, w, y, z, foreign, free1, free2]
    nodes = [node, other_node]

    def expect_rejected(label, fn, exc=ValueError):
        before = snapshot(graphs, values, nodes)
        try:
            fn()
        except exc:
            pass
        else:
            failures.append(f"{label}: no exception")
            return
        after = snapshot(graphs, values, nodes)
        check(before == after, f"{label}: state changed by a rejected call")
        # Retrying gives the same rejection and the same state
        try:
            fn()
        except exc:
            pass
        else:
            failures.append(f"{label}: retry not rejected")
        check(before == snapshot(graphs, values, nodes), f"{label}: state changed by retry")

    # --- rejected calls on inputs, the bad element at every position ---
    for pos in range(3):
        for bad, why in ((foreign, "foreign"), (y, "produced")):
            items = [free1, free2]
            items.insert(pos, bad)
            expect_rejected(f"inputs.extend {why}@{pos}", lambda items=items: g.inputs.extend(items))
            expect_rejected(
                f"inputs[0:2]= {why}@{pos}",
                lambda items=items: g.inputs.__setitem__(slice(0, 2), items),
            )
            expect_rejected(
                f"inputs[0:3:1]= from iterator {why}@{pos}",
                lambda items=items: g.inputs.__setitem__(slice(0, 3, 1), iter(items)),
            )
    expect_rejected("inputs.append foreign", lambda: g.inputs.append(foreign))
    expect_rejected("inputs.append produced", lambda: g.inputs.append(y))
    expect_rejected("inputs.insert foreign", lambda: g.inputs.insert(1, z))
    expect_rejected("inputs[0]= foreign", lambda: g.inputs.__setitem__(0, foreign))
    expect_rejected("inputs[-1]= produced", lambda: g.inputs.__setitem__(-1, y))
    expect_rejected("inputs[7]= out of range", lambda: g.inputs.__setitem__(7, free1), IndexError)
    expect_rejected(
        "inputs[::2]= wrong size", lambda: g.inputs.__setitem__(slice(None, None, 2), [free1])
    )
    expect_rejected("inputs.remove missing", lambda: g.inputs.remove(free1))
    expect_rejected("inputs.pop out of range", lambda: g.inputs.pop(9), IndexError)
    expect_rejected("del inputs[9]", lambda: g.inputs.__delitem__(9), IndexError)
    expect_rejected("inputs + list", lambda: g.inputs + [free1], RuntimeError)
    expect_rejected("empty-graph inputs", lambda: ir.Graph([free1, foreign], [], nodes=[]))

    # --- rejected calls on outputs ---
    for pos in range(3):
        items = [free1, y]
        items.insert(pos, z)
        expect_rejected(f"outputs.extend foreign@{pos}", lambda items=items: g.outputs.extend(items))
        expect_rejected(
            f"outputs[1:]= foreign@{pos}",
            lambda items=items: g.outputs.__setitem__(slice(1, None), items),
        )
    expect_rejected("outputs.append foreign", lambda: g.outputs.append(z))
    expect_rejected("outputs.insert foreign", lambda: g.outputs.insert(0, foreign))
    expect_rejected("outputs[1]= foreign", lambda: g.outputs.__setitem__(1, z))
    expect_rejected("outputs[{}]", lambda: g.outputs.__setitem__("k", free1), TypeError)
    expect_rejected("outputs.pop out of range", lambda: g.outputs.pop(-4), IndexError)
    expect_rejected("outputs.remove missing", lambda: g.outputs.remove(b))
    expect_rejected("new graph outputs", lambda: ir.Graph([], [free1, z], nodes=[]))
    # A function shares the containers of its graph
    fn_graph = ir.Graph([c], [], nodes=[], name="fg")
    func = ir.Function("dom", "F", graph=fn_graph, attributes=())
    graphs.append(fn_graph)
    expect_rejected("function.inputs.extend", lambda: func.inputs.extend([free1, foreign]))
    expect_rejected("function.outputs.extend", lambda: func.outputs.extend([free2, z]))
    check(free1.graph is None and free2.graph is None, "free values adopted by a rejected call")

    # --- accepted calls: duplicates are reference counted, roles are independent ---
    check(y.is_graph_output() and y.graph is g, "y output twice")
    popped = g.outputs.pop(0)
    check(popped is y and y.is_graph_output() and y.graph is g, "y still listed once")
    g.outputs.remove(y)
    check(not y.is_graph_output(), "y no longer an output")
    check(y.graph is g and y.producer() is node, "y keeps its producer; its graph is the node's")
    check(list(g.outputs) == [a], "outputs are [a]")

    # a is input and output: dropping one role keeps the other and the owner
    del g.outputs[0]
    check(not a.is_graph_output() and a.is_graph_input() and a.graph is g, "a still an input")
    g.outputs.append(a)
    g.inputs[0] = a  # replacing a value by itself keeps it owned
    check(a.is_graph_input() and a.is_graph_output() and a.graph is g, "a self replace")
    g.inputs[0:1] = [a, a]  # now listed twice
    check(list(g.inputs) == [a, a, b, w], "a listed twice")
    g.inputs.remove(a)
    check(a.is_graph_input() and a.graph is g, "a listed once more")
    del g.inputs[0]
    check(not a.is_graph_input() and a.is_graph_output() and a.graph is g, "a only an output")
    g.outputs.clear()
    check(not a.is_graph_output() and a.graph is None, "a released")
    check(len(g.outputs) == 0, "outputs empty")
    g.outputs.clear()  # clearing an empty list is fine
    g.outputs.extend([])  # so is extending by nothing
    g.inputs[1:1] = []
    check(list(g.inputs) == [b, w], "inputs are [b, w]")

    # w is input and initializer: leaving the inputs keeps it owned as an initializer
    g.inputs.remove(w)
    check(not w.is_graph_input() and w.is_initializer() and w.graph is g, "w still initializer")
    del g.initializers["w"]
    check(w.graph is None and not w.is_initializer(), "w released")

    # A released value can be adopted by another graph; an owned one cannot
    g2.inputs.append(a)
    check(a.graph is g2 and a.is_graph_input(), "a adopted by g2")
    expect_rejected("g.inputs.append(a) after adoption", lambda: g.inputs.append(a))
    expect_rejected("g.outputs.extend([free1, a])", lambda: g.outputs.extend([free1, a]))
    g2.inputs.pop()
    check(a.graph is None and not a.is_graph_input(), "a released by g2")
    g.outputs.extend([y, free1, y])
    check(free1.graph is g and free1.is_graph_output() and not free1.is_graph_input(), "free1")
    g.outputs[:] = [y]
    check(free1.graph is None and not free1.is_graph_output(), "free1 released by slice")
    check(y.is_graph_output() and list(g.outputs) == [y], "y kept by slice")
    check(list(g.outputs.copy()) == [y] and type(g.outputs.copy()) is list, "copy is a list")

    if failures:
        for f in failures:
            print("FAIL:", f)
        return 1
    print("OK: all rejected edits left the IR unchanged; ownership bookkeeping as expected")
    return 0


if __name__ == "__main__":
    sys.exit(main())
