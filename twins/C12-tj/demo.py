"""Demo for C12: Graph.sort / Function.sort / TopologicalSortPass across scopes."""

from __future__ import annotations

import itertools
import random

import onnx_ir as ir
from onnx_ir.passes.common import TopologicalSortPass


def graphs_of(graph):
    """This graph and all graphs nested in it, at any depth."""
    yield graph
    for node in graph:
        for attr in node.attributes.values():
            if attr.type == ir.AttributeType.GRAPH:
                yield from graphs_of(attr.value)
            elif attr.type == ir.AttributeType.GRAPHS:
                for g in attr.value:
                    yield from graphs_of(g)


def used_values(node):
    """Values used by the node or by any node nested inside it."""
    for v in node.inputs:
        if v is not None:
            yield v
    for attr in node.attributes.values():
        subs = []
        if attr.type == ir.AttributeType.GRAPH:
            subs = [attr.value]
        elif attr.type == ir.AttributeType.GRAPHS:
            subs = list(attr.value)
        for g in subs:
            for n in g:
                yield from used_values(n)


def is_sorted(graph) -> bool:
    for g in graphs_of(graph):
        pos = {n: i for i, n in enumerate(g)}
        for n in g:
            for v in used_values(n):
                p = v.producer()
                if p is not None and p is not n and p.graph is g and pos[p] >= pos[n]:
                    return False
    return True


def snapshot(graph):
    return [(g, list(g)) for g in graphs_of(graph)]


def names(graph):
    return [[n.name for n in g] for g in graphs_of(graph)]


def build(perm_seed=None):
    """Main graph with a nested If (depth 2) and a GRAPHS attribute, possibly shuffled."""
    x = ir.Value(name="x")
    a = ir.Node("", "A", [x], name="a", num_outputs=2)  # multi-output
    b = ir.Node("", "B", [a.outputs[0], a.outputs[0], None], name="b")  # repeated + optional
    c = ir.Node("", "C", [a.outputs[1], b.outputs[0]], name="c")
    late = ir.Node("", "Late", [c.outputs[0]], name="late")

    # innermost graph captures c's output (main graph) and m1's output (middle graph)
    m1 = ir.Node("", "M1", [b.outputs[0]], name="m1")
    i1 = ir.Node("", "I1", [c.outputs[0], m1.outputs[0]], name="i1")
    i2 = ir.Node("", "I2", [i1.outputs[0]], name="i2")
    inner_nodes = [i2, i1]
    inner = ir.Graph([], [i2.outputs[0]], nodes=inner_nodes, name="inner")
    m_if = ir.Node(
        "", "If", [m1.outputs[0]], attributes=[ir.AttrGraph("then_branch", inner)], name="m_if"
    )
    m2 = ir.Node("", "M2", [m_if.outputs[0]], name="m2")
    middle_nodes = [m2, m_if, m1]
    middle = ir.Graph([], [m2.outputs[0]], nodes=middle_nodes, name="middle")

    # GRAPHS attribute: two graphs, one of them capturing `late`, one empty
    g1n = ir.Node("", "G1", [late.outputs[0]], name="g1n")
    gs1 = ir.Graph([], [g1n.outputs[0]], nodes=[g1n], name="gs1")
    gs2 = ir.Graph([], [], nodes=[], name="gs2_empty")
    multi = ir.Node(
        "", "Multi", [], attributes=[ir.AttrGraphs("branches", [gs1, gs2])], name="multi"
    )
    outer_if = ir.Node(
        "", "If", [a.outputs[0]], attributes=[ir.AttrGraph("then_branch", middle)], name="outer_if"
    )
    indep = ir.Node("", "Indep", [x], name="indep")
    main_nodes = [multi, outer_if, late, c, indep, b, a]
    if perm_seed is not None:
        random.Random(perm_seed).shuffle(main_nodes)
    graph = ir.Graph(
        [x], [outer_if.outputs[0], multi.outputs[0]], nodes=main_nodes, name="main"
    )
    return graph


def main():
    # 1. empty graph
    empty = ir.Graph([], [], nodes=[], name="empty")
    empty.sort()
    assert list(empty) == []

    # 2. nested graph, many permutations; own nodes kept; idempotent; deterministic
    for seed in [None, *range(25)]:
        g = build(seed)
        before = snapshot(g)
        g.sort()
        assert is_sorted(g), (seed, names(g))
        after = snapshot(g)
        assert [x[0] for x in before] == [x[0] for x in after]
        for (gr, old), (_, new) in zip(before, after):
            assert len(old) == len(new) and set(old) == set(new), gr.name
            assert all(n.graph is gr for n in new)
        # already sorted -> left exactly as is
        g.sort()
        assert all(
            len(a) == len(b) and all(p is q for p, q in zip(a, b))
            for (_, a), (_, b) in zip(after, snapshot(g))
        )
        # determinism: same structure + same previous order -> same result
        g2 = build(seed)
        g2.sort()
        assert names(g) == names(g2), seed

    # 3. stability on a concrete case
    g = build(None)
    g.sort()
    assert names(g)[0] == ["a", "b", "c", "late", "multi", "outer_if", "indep"], names(g)[0]
    assert [n.name for n in g.node("outer_if").attributes["then_branch"].value] == [
        "m1",
        "m_if",
        "m2",
    ]

    # 4. all permutations of a small diamond with repeated inputs
    for perm in itertools.permutations(range(4)):
        x = ir.Value(name="x")
        p = ir.Node("", "P", [x, x], name="p")
        q = ir.Node("", "Q", [p.outputs[0], None, p.outputs[0]], name="q")
        r = ir.Node("", "R", [p.outputs[0]], name="r")
        s = ir.Node("", "S", [q.outputs[0], r.outputs[0], q.outputs[0]], name="s")
        base = [p, q, r, s]
        dg = ir.Graph([x], [s.outputs[0]], nodes=[base[i] for i in perm], name="d")
        dg.sort()
        assert is_sorted(dg)
        assert len(dg) == 4 and set(dg) == set(base)

    # 5. cycles: in the main graph, and through a subgraph capture -> ValueError, nothing moves
    g = build(3)
    # late <- c <- b ; make b depend on late: cycle in main graph
    g.node("b").replace_input_with(2, g.node("late").outputs[0])
    before = snapshot(g)
    try:
        g.sort()
    except ValueError:
        pass
    else:
        raise AssertionError("cycle not detected")
    for (_, old), (_, new) in zip(before, snapshot(g)):
        assert len(old) == len(new) and all(p is q for p, q in zip(old, new))

    g = build(7)
    # a uses outer_if's output, while outer_if's subgraph captures values downstream of a
    g.node("a").replace_input_with(0, g.node("outer_if").outputs[0])
    before = snapshot(g)
    try:
        g.sort()
    except ValueError:
        pass
    else:
        raise AssertionError("cycle through subgraph not detected")
    for (_, old), (_, new) in zip(before, snapshot(g)):
        assert len(old) == len(new) and all(p is q for p, q in zip(old, new))

    # self loop
    n = ir.Node("", "Self", [None], name="self")
    n.replace_input_with(0, n.outputs[0])
    sg = ir.Graph([], [], nodes=[n], name="selfloop")
    try:
        sg.sort()
    except ValueError:
        pass
    else:
        raise AssertionError("self loop not detected")
    assert list(sg) == [n]

    # 6. Function.sort and the pass
    fg = build(11)
    func = ir.Function("dom", "f", "", graph=fg, attributes=[])
    func.sort()
    assert is_sorted(fg)

    mg = build(None)  # only unsorted
    model = ir.Model(mg, ir_version=10)
    res = TopologicalSortPass()(model)
    assert res.modified and is_sorted(mg)
    res = TopologicalSortPass()(model)
    assert not res.modified

    print("C12 demo OK")


if __name__ == "__main__":
    main()
