"""Demo for C12 (topological sort across scopes: correct, stable, deterministic, atomic).

Exercises Graph.sort / Function.sort through the public API only.
"""

import itertools
import random

import onnx_ir as ir


def all_graphs(graph):
    """The graph and every nested subgraph (depth first)."""
    result = [graph]
    for node in graph:
        for attr in node.attributes.values():
            if attr.is_ref():
                continue
            if attr.type == ir.AttributeType.GRAPH:
                result.extend(all_graphs(attr.value))
            elif attr.type == ir.AttributeType.GRAPHS:
                for sub in attr.value:
                    result.extend(all_graphs(sub))
    return result


def nested_nodes(node):
    yield node
    for attr in node.attributes.values():
        if attr.is_ref():
            continue
        subs = []
        if attr.type == ir.AttributeType.GRAPH:
            subs = [attr.value]
        elif attr.type == ir.AttributeType.GRAPHS:
            subs = list(attr.value)
        for sub in subs:
            for inner in sub:
                yield from nested_nodes(inner)


def check_sorted(graph):
    """Every node comes after the same-graph producers of the values used by it or inside it."""
    for g in all_graphs(graph):
        position = {node: i for i, node in enumerate(g)}
        for node in g:
            for user in nested_nodes(node):
                for value in user.inputs:
                    if value is None:
                        continue
                    producer = value.producer()
                    if producer is None or producer.graph is not g or producer is node:
                        continue
                    assert position[producer] < position[node], (producer, node)


def snapshot(graph):
    return [(g, list(g)) for g in all_graphs(graph)]


def same_snapshot(a, b):
    return len(a) == len(b) and all(
        ga is gb and len(na) == len(nb) and all(x is y for x, y in zip(na, nb))
        for (ga, na), (gb, nb) in zip(a, b)
    )


def build(perm_seed=None):
    """A graph with an If node whose branches (nested twice) capture outer values."""
    x = ir.Value(name="x")
    a = ir.Node("", "A", [x], name="a")
    b = ir.Node("", "B", [a.outputs[0], None, a.outputs[0]], num_outputs=2, name="b")
    c = ir.Node("", "C", [b.outputs[1], x], name="c")
    # innermost graph captures b (two levels up) and an inner value
    i1 = ir.Node("", "I1", [b.outputs[0]], name="i1")
    i2 = ir.Node("", "I2", [i1.outputs[0], c.outputs[0]], name="i2")
    inner_nodes = [i2, i1]  # deliberately unsorted
    inner = ir.Graph([], [i2.outputs[0]], nodes=inner_nodes, name="inner")
    m1 = ir.Node("", "M1", [a.outputs[0]], name="m1")
    m2 = ir.Node(
        "", "Loop", [m1.outputs[0]], attributes=[ir.AttrGraph("body", inner)], name="m2"
    )
    m3 = ir.Node("", "M3", [m2.outputs[0], m1.outputs[0]], name="m3")
    then_graph = ir.Graph([], [m3.outputs[0]], nodes=[m3, m2, m1], name="then")
    e1 = ir.Node("", "E1", [x], name="e1")
    else_graph = ir.Graph([], [e1.outputs[0]], nodes=[e1], name="else")
    empty_graph = ir.Graph([], [], nodes=[], name="empty")
    if_node = ir.Node(
        "",
        "If",
        [a.outputs[0]],
        attributes=[
            ir.AttrGraphs("branches", [then_graph, else_graph, empty_graph]),
            ir.AttrInt64("k", 3),
            ir.RefAttr("r", "outer_r", ir.AttributeType.GRAPH),
        ],
        name="if",
    )
    d = ir.Node("", "D", [if_node.outputs[0], c.outputs[0]], name="d")
    lone = ir.Node("", "Lone", [], name="lone")
    nodes = [a, b, c, if_node, d, lone]
    if perm_seed is not None:
        random.Random(perm_seed).shuffle(nodes)
    graph = ir.Graph([x], [d.outputs[0]], nodes=nodes, name="main")
    return graph


def names(graph):
    return [[n.name for n in g] for g in all_graphs(graph)]


def main():
    # 1. Correctness on every permutation of the top level, nested graphs unsorted.
    base = build()
    top = list(base)
    results = set()
    for perm in itertools.permutations(range(len(top))):
        g = build()
        nodes = list(g)
        g.remove(nodes)
        g.extend([nodes[i] for i in perm])
        members_before = [set(sub) for sub in all_graphs(g)]
        g.sort()
        check_sorted(g)
        members_after = [set(sub) for sub in all_graphs(g)]
        assert members_before == members_after  # each graph keeps exactly its nodes
        # idempotent: a sorted graph is left exactly as it was
        snap = snapshot(g)
        g.sort()
        assert same_snapshot(snap, snapshot(g))
        results.add(str(names(g)))
    assert len(results) >= 1

    # 2. Deterministic: same structure + same previous order => same result.
    for seed in range(20):
        g1, g2 = build(seed), build(seed)
        g1.sort()
        g2.sort()
        assert names(g1) == names(g2)
        check_sorted(g1)

    # 3. Stability: an already sorted graph is untouched; exact expected order otherwise.
    g = build()
    g.sort()
    assert names(g)[0] == ["a", "b", "c", "if", "d", "lone"]
    assert [n.name for n in all_graphs(g)[1]] == ["m1", "m2", "m3"]
    inner = [sub for sub in all_graphs(g) if sub.name == "inner"][0]
    assert [n.name for n in inner] == ["i1", "i2"]

    # 4. The capture makes the If node depend on `c` only through the innermost graph.
    g = build()
    nodes = {n.name: n for n in g}
    g.remove(list(g))
    g.extend([nodes[k] for k in ["lone", "d", "if", "c", "b", "a"]])
    g.sort()
    order = [n.name for n in g]
    assert order.index("c") < order.index("if") < order.index("d")
    assert order.index("a") < order.index("b") < order.index("c")
    check_sorted(g)

    # 5. Atomic on a cycle located in a nested graph: ValueError, nothing moves anywhere.
    g = build(7)
    inner = [sub for sub in all_graphs(g) if sub.name == "inner"][0]
    i1 = [n for n in inner if n.name == "i1"][0]
    i2 = [n for n in inner if n.name == "i2"][0]
    i1.replace_input_with(0, i2.outputs[0])  # i1 <-> i2
    snap = snapshot(g)
    try:
        g.sort()
    except ValueError as e:
        assert "cycle" in str(e)
    else:
        raise AssertionError("cycle not detected")
    assert same_snapshot(snap, snapshot(g))

    # 5b. Cycle through a captured value: outer node uses the output of the node
    # whose subgraph uses the outer node's output.
    g = build(3)
    nodes = {n.name: n for n in g}
    nodes["a"].replace_input_with(0, nodes["if"].outputs[0])
    snap = snapshot(g)
    try:
        g.sort()
    except ValueError:
        pass
    else:
        raise AssertionError("cycle through subgraph not detected")
    assert same_snapshot(snap, snapshot(g))

    # 5c. Self loop.
    s = ir.Node("", "S", [None], name="s")
    s.replace_input_with(0, s.outputs[0])
    t = ir.Node("", "T", [], name="t")
    g = ir.Graph([], [], nodes=[t, s], name="selfloop")
    try:
        g.sort()
    except ValueError:
        pass
    else:
        raise AssertionError("self loop not detected")
    assert [n.name for n in g] == ["t", "s"]

    # 6. Empty graph and graph whose only inputs come from nowhere.
    g = ir.Graph([], [], nodes=[], name="nothing")
    g.sort()
    assert len(g) == 0

    # 7. Function.sort goes through the same mechanism.
    x = ir.Value(name="fx")
    p = ir.Node("", "P", [x], name="p")
    q = ir.Node("", "Q", [p.outputs[0], p.outputs[0]], name="q")
    r = ir.Node("", "R", [], name="r")
    f = ir.Function(
        "dom", "fn", "", graph=ir.Graph([x], [q.outputs[0]], nodes=[r, q, p]), attributes=[]
    )
    f.sort()
    assert [n.name for n in f] == ["r", "p", "q"]
    f.sort()
    assert [n.name for n in f] == ["r", "p", "q"]

    # 8. Sorting a subgraph alone ignores producers living in enclosing graphs.
    g = build()
    then_graph = [sub for sub in all_graphs(g) if sub.name == "then"][0]
    top_before = list(g)
    then_graph.sort()
    assert [n.name for n in then_graph] == ["m1", "m2", "m3"]
    assert all(x is y for x, y in zip(top_before, g))

    print("C12 demo OK")


if __name__ == "__main__":
    main()
