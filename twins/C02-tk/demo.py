"""Demo for C02: proto -> IR -> proto is lossless (TYPE_PROTO(S) attributes, value-info types/shapes)."""

import logging

import onnx
from onnx import TensorProto, TypeProto, helper

import onnx_ir as ir
from onnx_ir import serde


def tensor_type(elem, dims, denotations=None, type_denotation=""):
    tp = TypeProto()
    tp.tensor_type.elem_type = elem
    if type_denotation:
        tp.denotation = type_denotation
    if dims is not None:
        tp.tensor_type.shape.ClearField("dim")  # shape present, possibly rank 0
        for i, d in enumerate(dims):
            dim = tp.tensor_type.shape.dim.add()
            if isinstance(d, int):
                dim.dim_value = d
            elif isinstance(d, str):
                dim.dim_param = d
            if denotations and denotations[i]:
                dim.denotation = denotations[i]
    return tp


def wrap(kind, inner, denotation=""):
    tp = TypeProto()
    getattr(tp, kind).elem_type.CopyFrom(inner)
    if denotation:
        tp.denotation = denotation
    return tp


def sparse_type(elem, dims):
    tp = TypeProto()
    tp.sparse_tensor_type.elem_type = elem
    for d in dims:
        tp.sparse_tensor_type.shape.dim.add().dim_value = d
    return tp


def roundtrip_attr(attr_proto):
    back = serde.serialize_attribute(serde.deserialize_attribute(attr_proto))
    assert back == attr_proto, f"attribute changed:\n{attr_proto}\n--->\n{back}"
    return back


def main():
    leaf = tensor_type(TensorProto.FLOAT, [2, "N", None, 0], [None, "DATA_BATCH", "X", None], "TENSOR")
    rank0 = tensor_type(TensorProto.INT64, [])
    no_shape = tensor_type(TensorProto.BFLOAT16, None)
    nested = wrap("optional_type", wrap("sequence_type", wrap("sequence_type", leaf, "inner"), "mid"), "outer")
    nested_sparse = wrap("sequence_type", sparse_type(TensorProto.DOUBLE, [3, 4]))
    nested_no_shape = wrap("optional_type", wrap("sequence_type", no_shape))
    nested_rank0 = wrap("sequence_type", rank0)
    all_types = [leaf, rank0, no_shape, nested, nested_sparse, nested_no_shape, nested_rank0]

    # 1. TYPE_PROTO attribute, one per type
    for i, tp in enumerate(all_types):
        a = onnx.AttributeProto()
        a.name = f"tp{i}"
        a.type = onnx.AttributeProto.TYPE_PROTO
        a.doc_string = "doc"
        a.tp.CopyFrom(tp)
        roundtrip_attr(a)

    # 2. TYPE_PROTOS attribute with duplicates and an empty list
    a = onnx.AttributeProto()
    a.name = "tps"
    a.type = onnx.AttributeProto.TYPE_PROTOS
    for tp in all_types + [leaf, leaf, nested]:
        a.type_protos.add().CopyFrom(tp)
    back = roundtrip_attr(a)
    assert len(back.type_protos) == len(all_types) + 3
    empty = onnx.AttributeProto()
    empty.name = "none"
    empty.type = onnx.AttributeProto.TYPE_PROTOS
    roundtrip_attr(empty)

    # 3. unusual: TYPE_PROTO attribute whose type proto is entirely unset: type None, shape None
    bare = onnx.AttributeProto()
    bare.name = "bare"
    bare.type = onnx.AttributeProto.TYPE_PROTO
    ir_attr = serde.deserialize_attribute(bare)
    assert ir_attr.value.type is None and ir_attr.value.shape is None
    out = serde.serialize_attribute(ir_attr)
    assert out == bare and not out.HasField("tp")

    # 4. unusual: shape known but type unknown on the way down -> warning, shape skipped, nothing written
    records = []

    class Grab(logging.Handler):
        def emit(self, record):
            records.append(record.getMessage())

    handler = Grab()
    logging.getLogger("onnx_ir.serde").addHandler(handler)
    try:
        # (a) top level type missing
        attr = ir.Attr("t", ir.AttributeType.TYPE_PROTO, ir.TypeAndShape(None, ir.Shape([1, 2])))
        out = serde.serialize_attribute(attr)
        assert out.type == onnx.AttributeProto.TYPE_PROTO and not out.HasField("tp")
        assert len(records) == 1 and "is not known" in records[0], records
        # (b) sequence whose element type is unset: direct call into the public function
        hollow = TypeProto()
        hollow.sequence_type.SetInParent()
        before = hollow.SerializeToString()
        serde.serialize_shape_into(hollow, ir.Shape([3]))
        assert len(records) == 2 and "is not known" in records[1], records
        assert hollow.SerializeToString() == before
        # (c) list form, first entry typed, second untyped
        attr = ir.Attr(
            "ts",
            ir.AttributeType.TYPE_PROTOS,
            [
                ir.TypeAndShape(ir.SequenceType(ir.TensorType(ir.DataType.FLOAT)), ir.Shape(["a", 2])),
                ir.TypeAndShape(None, ir.Shape([])),
                ir.TypeAndShape(None, None),
            ],
        )
        out = serde.serialize_attribute(attr)
        assert len(out.type_protos) == 3 and len(records) == 3
        dims = out.type_protos[0].sequence_type.elem_type.tensor_type.shape.dim
        assert [d.dim_param or d.dim_value for d in dims] == ["a", 2]
        assert out.type_protos[1] == TypeProto() and out.type_protos[2] == TypeProto()
    finally:
        logging.getLogger("onnx_ir.serde").removeHandler(handler)

    # 5. rejected calls: unsupported type object / map type; error type and chain unchanged
    class Weird:
        denotation = None

    try:
        serde.serialize_attribute(
            ir.Attr("bad", ir.AttributeType.TYPE_PROTO, ir.TypeAndShape(Weird(), None))
        )
    except serde.SerdeError as e:
        assert "serialize_attribute_into" in str(e)
        inner = e.__cause__
        assert isinstance(inner, serde.SerdeError) and "serialize_type_into" in str(inner)
        assert isinstance(inner.__cause__, TypeError)
    else:
        raise AssertionError("expected SerdeError")

    map_tp = TypeProto()
    map_tp.map_type.key_type = TensorProto.INT64
    map_tp.map_type.value_type.CopyFrom(leaf)
    try:
        serde.serialize_shape_into(map_tp, ir.Shape([1]))
    except serde.SerdeError as e:
        assert "serialize_shape_into" in str(e) and isinstance(e.__cause__, AttributeError)
    else:
        raise AssertionError("expected SerdeError for map type")

    # 6. whole model: nested types on graph inputs/outputs/value_info plus the attributes above on a node
    x = onnx.ValueInfoProto(name="x", doc_string="in")
    x.type.CopyFrom(nested)
    y = onnx.ValueInfoProto(name="y")
    y.type.CopyFrom(nested_sparse)
    mid = onnx.ValueInfoProto(name="mid")
    mid.type.CopyFrom(nested_rank0)
    n1 = helper.make_node("Custom", ["x"], ["mid"], name="n1", domain="my.domain")
    n1.attribute.append(a)
    n1.attribute.append(bare)
    n2 = helper.make_node("Custom2", ["mid"], ["y"], name="n2", domain="my.domain")
    graph = helper.make_graph([n1, n2], "g", [x], [y], value_info=[mid])
    model = helper.make_model(
        graph,
        ir_version=10,
        opset_imports=[helper.make_opsetid("", 21), helper.make_opsetid("my.domain", 1)],
    )
    back = serde.serialize_model(serde.deserialize_model(model))
    assert back == model, "model changed"
    # and once more through the generic entry points
    assert ir.to_proto(ir.from_proto(model)) == model
    print("OK")


if __name__ == "__main__":
    main()
