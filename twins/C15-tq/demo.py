"""Demo for C15: the name-fixing pass produces unique, non-empty names and keeps unique ones."""

import onnx_ir as ir
from onnx_ir.passes.common import naming


def check_graph(graph, outer_names=frozenset()):
    """Names are non-empty, unique per graph, and differ from enclosing-scope value names."""
    own = []
    own_ids = set()

    def own_add(v):
        if id(v) not in own_ids:
            own_ids.add(id(v))
            own.append(v)

    for v in graph.inputs:
        own_add(v)
    if isinstance(graph, ir.Graph):
        for k, v in graph.initializers.items():
            assert k == v.name, (k, v.name)
            own_add(v)
    for node in graph:
        for v in node.outputs:
            own_add(v)
    names = [v.name for v in own]
    assert all(names), names
    assert len(set(names)) == len(names), names
    assert not (set(names) & outer_names), (names, outer_names)
    node_names = [n.name for n in graph]
    assert all(node_names), node_names
    assert len(set(node_names)) == len(node_names), node_names
    for v in graph.outputs:
        assert v.name
    for node in graph:
        for attr in node.attributes.values():
            if attr.type == ir.AttributeType.GRAPH:
                check_graph(attr.as_graph(), outer_names | set(names))
            elif attr.type == ir.AttributeType.GRAPHS:
                for g in attr.as_graphs():
                    check_graph(g, outer_names | set(names))


def build_model():
    x = ir.Value(name="x")
    y = ir.Value(name="x")  # duplicated input name
    w = ir.Value(name="v", const_value=ir.tensor([1.0], name="v"))
    # explicit names shaped like the ones the pass generates
    n0 = ir.Node("", "Add", [x, y], name="node")
    n0.outputs[0].name = "v_1"
    n1 = ir.Node("", "Mul", [n0.outputs[0], w], name="node")  # duplicate node name
    n1.outputs[0].name = None  # unnamed -> preferred "v" (taken by the initializer)
    n2 = ir.Node("", "Neg", [n1.outputs[0]], name=None)
    n2.outputs[0].name = "x"  # duplicates the inputs
    n3 = ir.Node("", "Abs", [n2.outputs[0]], name="node_1")  # would be generated for n1
    n3.outputs[0].name = "x_1"  # would be generated for y

    # Subgraph: shadows outer names, has unnamed items and refers to an outer value
    sx = ir.Value(name="x")
    s0 = ir.Node("", "Add", [sx, n0.outputs[0]], name="node")
    s0.outputs[0].name = ""
    s1 = ir.Node("", "Relu", [s0.outputs[0]], name="")
    s1.outputs[0].name = "v_1"
    sub = ir.Graph([sx], [s1.outputs[0]], nodes=[s0, s1], name="body")
    # Empty subgraph (unusual input)
    empty = ir.Graph([], [], nodes=[], name="empty")
    n4 = ir.Node(
        "",
        "If",
        [n3.outputs[0]],
        attributes=[ir.AttrGraph("then_branch", sub), ir.AttrGraph("else_branch", empty)],
        name="node_1",
    )
    n4.outputs[0].name = "out"
    graph = ir.Graph(
        [x, y],
        [n4.outputs[0]],
        nodes=[n0, n1, n2, n3, n4],
        initializers=[w],
        name="main",
        opset_imports={"": 20},
    )

    # A function with duplicates and missing names
    fa = ir.Value(name="a")
    fb = ir.Value(name="a")
    f0 = ir.Node("", "Add", [fa, fb], name=None)
    f0.outputs[0].name = None
    f1 = ir.Node("", "Neg", [f0.outputs[0]], name=None)
    f1.outputs[0].name = "a"
    func = ir.Function(
        "dom", "F", "", graph=ir.Graph([fa, fb], [f1.outputs[0]], nodes=[f0, f1], name="F"),
        attributes=[],
    )
    model = ir.Model(graph, ir_version=10, functions=[func])
    # Graphs name unnamed nodes/values when they adopt them; take those names away again
    # so that the pass meets really unnamed items (None and "")
    n1.outputs[0].name = None
    n2.name = None
    f0.name = ""
    f0.outputs[0].name = None
    f1.name = None
    return model


def snapshot_structure(model):
    out = []
    for g in [model.graph, *model.functions.values()]:
        for node in ir.traversal.RecursiveGraphIterator(g):
            out.append((node.op_type, node.domain, len(node.inputs), len(node.outputs),
                        tuple(id(v) for v in node.inputs), tuple(id(v) for v in node.outputs)))
    return out


def main():
    model = build_model()
    before = snapshot_structure(model)
    x, y = model.graph.inputs
    w = next(iter(model.graph.initializers.values()))
    nodes = list(model.graph)

    result = naming.NameFixPass()(model)
    assert result.modified
    assert snapshot_structure(model) == before, "only names may change"

    check_graph(model.graph)
    for f in model.functions.values():
        check_graph(f)

    # Names that were unique are kept; first holder of a duplicated name keeps it
    assert x.name == "x"
    assert w.name == "v" and model.graph.initializers["v"] is w
    assert nodes[0].name == "node"
    assert nodes[0].outputs[0].name == "v_1"
    assert nodes[3].name == "node_1"
    assert nodes[3].outputs[0].name == "x_1"
    assert nodes[4].outputs[0].name == "out"
    # Generated names avoid both the names seen so far and the names present before the pass
    all_value_names = {x.name, y.name, w.name} | {o.name for n in nodes for o in n.outputs}
    assert len(all_value_names) == 3 + 5
    assert y.name not in ("x", "x_1") and y.name.startswith("x_")
    assert nodes[1].name not in ("node", "node_1") and nodes[1].name.startswith("node_")
    assert nodes[1].outputs[0].name not in ("v", "v_1")
    print("main graph values:", sorted(all_value_names))
    print("main graph nodes:", [n.name for n in nodes])
    sub = nodes[4].attributes["then_branch"].as_graph()
    print("subgraph values:", [v.name for v in sub.inputs], [o.name for n in sub for o in n.outputs])
    print("subgraph nodes:", [n.name for n in sub])
    func = next(iter(model.functions.values()))
    print("function values:", [v.name for v in func.inputs], [o.name for n in func for o in n.outputs])

    # Exact outcome (the numbering of generated names is observable behaviour)
    assert sorted(all_value_names) == ["out", "v", "v_1", "v_2", "x", "x_1", "x_2", "x_3"]
    assert [n.name for n in nodes] == ["node", "node_2", "node_3", "node_1", "node_1_1"]
    assert [v.name for v in sub.inputs] == ["x_4"]
    assert [o.name for n in sub for o in n.outputs] == ["v_3", "v_1_1"]
    assert [n.name for n in sub] == ["node", "node_4"]
    assert [v.name for v in func.inputs] == ["a", "a_1"]
    assert [o.name for n in func for o in n.outputs] == ["v", "a_2"]

    # Idempotent: a second run changes nothing
    names_after = [(n.name, tuple(o.name for o in n.outputs))
                   for n in ir.traversal.RecursiveGraphIterator(model.graph)]
    result2 = naming.NameFixPass()(model)
    assert not result2.modified
    assert names_after == [(n.name, tuple(o.name for o in n.outputs))
                           for n in ir.traversal.RecursiveGraphIterator(model.graph)]

    # Custom generator: same preferred name for everything; the counter is shared per base name
    class Gen:
        def generate_node_name(self, node):
            return "N"

        def generate_value_name(self, value):
            return "V"

    a = ir.Value(name="V_2")
    ns = []
    prev = a
    for i in range(5):
        n = ir.Node("", "Neg", [prev], name=None if i % 2 else "N_1")
        n.outputs[0].name = None if i != 3 else "V_2"
        ns.append(n)
        prev = n.outputs[0]
    g = ir.Graph([a], [prev], nodes=ns, name="g", opset_imports={"": 20})
    for i, n in enumerate(ns):
        if i % 2:
            n.name = None
        if i != 3:
            n.outputs[0].name = None
    m = ir.Model(g, ir_version=10)
    assert naming.NameFixPass(name_generator=Gen())(m).modified
    check_graph(g)
    assert a.name == "V_2"
    assert ns[0].name == "N_1"
    assert [n.name for n in ns] == ["N_1", "N", "N_2", "N_3", "N_4"]
    assert [n.outputs[0].name for n in ns] == ["V_1", "V_3", "V_4", "V_5", "V"]
    print("custom:", [n.name for n in ns], [n.outputs[0].name for n in ns])

    # Rejected call: a generator that fails leaves the model untouched and propagates
    class Bad:
        def generate_node_name(self, node):
            raise RuntimeError("no node name")

        def generate_value_name(self, value):
            raise RuntimeError("no value name")

    b = ir.Value(name="b")
    bn = ir.Node("", "Neg", [b], name=None)
    bn.outputs[0].name = "b"
    bg = ir.Graph([b], bn.outputs, nodes=[bn], name="bg", opset_imports={"": 20})
    assigned = bn.name  # name given by the graph's name authority
    assert assigned
    bn.name = None
    try:
        naming.NameFixPass(name_generator=Bad())(ir.Model(bg, ir_version=10))
    except Exception as e:  # PassError wrapping or the RuntimeError itself
        print("rejected:", type(e).__name__)
    else:
        raise AssertionError("expected failure")
    assert bn.name is None and bn.outputs[0].name == "b" and b.name == "b"

    # Empty model graph
    eg = ir.Graph([], [], nodes=[], name="e", opset_imports={"": 20})
    assert not naming.NameFixPass()(ir.Model(eg, ir_version=10)).modified
    print("OK")


if __name__ == "__main__":
    main()
