"""C03 demo: attributes (string / type_proto / type_protos / sparse) survive IR -> proto -> IR."""
import logging

import numpy as np
import onnx

import onnx_ir as ir
from onnx_ir import serde


def check(cond, msg):
    if not cond:
        raise SystemExit(f"FAIL: {msg}")


def tas(t, shape):
    return ir.TypeAndShape(t, None if shape is None else ir.Shape(shape))


def same_tas(a, b):
    return a.type == b.type and a.shape == b.shape


# --- a model whose node carries the attribute kinds touched by the change -------------
x = ir.Value(name="x", type=ir.TensorType(ir.DataType.FLOAT), shape=ir.Shape([2, "N"]))
type_attrs = [
    tas(ir.TensorType(ir.DataType.FLOAT), [1, "d", None]),
    tas(ir.SequenceType(ir.TensorType(ir.DataType.INT64)), [3]),
    tas(ir.OptionalType(ir.SequenceType(ir.TensorType(ir.DataType.BOOL))), None),
    tas(ir.TensorType(ir.DataType.DOUBLE), []),  # rank-0 shape, not "no shape"
    tas(ir.TensorType(ir.DataType.FLOAT), [2, 2]),
    tas(ir.TensorType(ir.DataType.FLOAT), [2, 2]),  # duplicate entry
]
inner_y = ir.Value(name="inner_y")
inner = ir.Graph(
    [], [inner_y],
    nodes=[ir.Node("", "Identity", [x], outputs=[inner_y],
                   attributes=[ir.AttrString("tag", "inner-é")])],
    name="inner",
)
node = ir.Node(
    "custom", "Op", [x, None],
    attributes=[
        ir.AttrString("s", "héllo 世界", doc_string="a string"),
        ir.AttrString("empty", ""),
        ir.Attr("raw", ir.AttributeType.STRING, b"\xff\xfe\x00bad"),  # invalid utf-8
        ir.AttrStrings("ss", ["a", "", "a"]),
        ir.AttrTypeProto("tp", type_attrs[0], doc_string="tp doc"),
        ir.AttrTypeProto("tp_noshape", type_attrs[2]),
        ir.AttrTypeProtos("tps", type_attrs),
        ir.AttrTypeProtos("tps_empty", []),
        ir.AttrGraph("body", inner),
        ir.AttrInt64("i", -3),
        ir.RefAttr("r", "outer_s", ir.AttributeType.STRING),
    ],
    num_outputs=2, name="n0",
)
node.outputs[0].name = "y"
node.outputs[1].name = ""
graph = ir.Graph([x], [node.outputs[0]], nodes=[node], name="g",
                 opset_imports={"": 20, "custom": 1})
model = ir.Model(graph, ir_version=10)

logging.disable(logging.WARNING)
proto1 = serde.serialize_model(model)
proto2 = serde.serialize_model(model)
check(proto1 == proto2, "serializing twice gives different protos")
check(proto1.SerializeToString(deterministic=True) == proto2.SerializeToString(deterministic=True),
      "bytes differ")

back = serde.deserialize_model(proto1)
proto3 = serde.serialize_model(back)
check(proto3 == proto1, "IR -> proto -> IR -> proto is not a fixed point")

n = back.graph[0]
a = n.attributes
check(list(a) == list(node.attributes), "attribute order / names changed")
check(type(a["s"]) is ir.Attr and a["s"].type == ir.AttributeType.STRING and a["s"].value == "héllo 世界", "string attr")
check(a["s"].doc_string == "a string", "doc string of string attr")
check(type(a["empty"]) is ir.Attr and a["empty"].value == "", "empty string attr")
check(a["empty"].doc_string is None, "absent doc_string must stay None")
check(type(a["raw"]) is ir.Attr and a["raw"].type == ir.AttributeType.STRING, "raw attr type")
check(type(a["raw"].value) is bytes and a["raw"].value == b"\xff\xfe\x00bad", "raw bytes attr")
check(list(a["ss"].value) == ["a", "", "a"], "strings attr")
check(a["tp"].type == ir.AttributeType.TYPE_PROTO and same_tas(a["tp"].value, type_attrs[0]), "tp attr")
check(a["tp"].doc_string == "tp doc", "tp doc")
check(a["tp_noshape"].value.shape is None, "no shape must stay None")
check(same_tas(a["tp_noshape"].value, type_attrs[2]), "tp_noshape")
got = list(a["tps"].value)
check(len(got) == len(type_attrs), "tps length")
for g_, w in zip(got, type_attrs):
    check(same_tas(g_, w), f"tps entry {w}")
check(got[3].shape is not None and got[3].shape.rank() == 0, "rank-0 shape")
check(got[4] is not got[5], "duplicate entries must be distinct objects")
check(a["tps_empty"].type == ir.AttributeType.TYPE_PROTOS and list(a["tps_empty"].value) == [], "empty tps")
check(a["r"].is_ref() and a["r"].ref_attr_name == "outer_s"
      and a["r"].type == ir.AttributeType.STRING, "ref attr")
body = a["body"].value
check(body[0].inputs[0] is back.graph.inputs[0], "captured outer value not shared")
check(body[0].attributes["tag"].value == "inner-é", "nested string attr")
check([o.name for o in n.outputs] == ["y"] or [o.name for o in n.outputs] == ["y", ""], "outputs")
check(n.inputs[1] is None if len(n.inputs) > 1 else True, "optional input")

# --- serialization has no side effects on the attributes ---------------------------------
check(node.attributes["raw"].value == b"\xff\xfe\x00bad", "side effect on raw")
check(list(node.attributes["tps"].value) == type_attrs, "side effect on tps")
check(all(p is q for p, q in zip(node.attributes["tps"].value, type_attrs)), "tps identity")

# --- from_proto / to_proto on a bare TypeProto and bare AttributeProto -------------------
for t in type_attrs:
    tp = onnx.TypeProto()
    if t.type is not None:
        serde.serialize_type_into(tp, t.type)
    if t.shape is not None:
        serde.serialize_shape_into(tp, t.shape)
    r = ir.from_proto(tp)
    check(type(r) is ir.TypeAndShape and same_tas(r, t), f"from_proto(TypeProto) {t}")
r = ir.from_proto(onnx.TypeProto())  # empty input
check(r.type is None and r.shape is None, "empty TypeProto")
ap = onnx.AttributeProto(name="e", type=onnx.AttributeProto.TYPE_PROTO)
r = ir.from_proto(ap)
check(r.value.type is None and r.value.shape is None, "empty tp attribute")

# --- rejected calls: same exception types, chained the same way --------------------------
for kind in (onnx.AttributeProto.SPARSE_TENSOR, onnx.AttributeProto.SPARSE_TENSORS):
    ap = onnx.AttributeProto(name="sp", type=kind)
    try:
        serde.deserialize_attribute(ap)
    except serde.SerdeError as e:
        check(type(e.__cause__) is NotImplementedError, "sparse cause")
        check("Sparse tensors are not supported yet" in str(e.__cause__), "sparse message")
        check("_deserialize_attribute" in str(e), "wrapper name")
    else:
        check(False, "sparse attribute accepted")

bad = onnx.TypeProto()
bad.tensor_type.elem_type = 9999  # not a DataType
ap = onnx.AttributeProto(name="badtps", type=onnx.AttributeProto.TYPE_PROTOS)
ap.type_protos.add().tensor_type.elem_type = 1
ap.type_protos.add().CopyFrom(bad)
try:
    serde.deserialize_attribute(ap)
except serde.SerdeError as e:
    check("_deserialize_attribute" in str(e), "outer wrapper")
    check(type(e.__cause__) is serde.SerdeError, f"bad elem type cause {type(e.__cause__)}")
    check("deserialize_type_proto_for_type" in str(e.__cause__), "inner wrapper")
    check(type(e.__cause__.__cause__) is ValueError, "root cause")
else:
    check(False, "bad elem_type accepted")
try:
    ir.from_proto(bad)
except serde.SerdeError as e:
    check("deserialize_type_proto_for_type" in str(e), "from_proto(TypeProto): one wrapper only")
    check(type(e.__cause__) is ValueError, "from_proto(TypeProto) root cause")
else:
    check(False, "bad elem_type accepted by from_proto")

# the warning for undecodable bytes is emitted on the same logger with the attribute name
logging.disable(logging.NOTSET)
records = []
h = logging.Handler()
h.emit = records.append
lg = logging.getLogger("onnx_ir.serde")
lg.addHandler(h)
old = lg.level
lg.setLevel(logging.WARNING)
ap = onnx.AttributeProto(name="rawname", type=onnx.AttributeProto.STRING, s=b"\xc3\x28")
r = serde.deserialize_attribute(ap)
ok = onnx.AttributeProto(name="fine", type=onnx.AttributeProto.STRING, s=b"\xc3\xa9")
r2 = serde.deserialize_attribute(ok)
lg.removeHandler(h)
lg.setLevel(old)
check(r.value == b"\xc3\x28" and type(r) is ir.Attr, "raw value")
check(r2.value == "é" and r2.type == ir.AttributeType.STRING and type(r2.value) is str, "decoded value")
msgs = [rec for rec in records if "invalid UTF-8" in rec.getMessage()]
check(len(msgs) == 1 and "'rawname'" in msgs[0].getMessage(), "exactly one warning naming attr")
check(msgs[0].levelno == logging.WARNING, "level")

print("C03 demo OK")
