"""Demo for C18: region extraction and implicit-capture analysis (public API only)."""

import numpy as np

import onnx_ir as ir
from onnx_ir.analysis import analyze_implicit_usage


def val(name):
    return ir.Value(name=name, type=ir.TensorType(ir.DataType.FLOAT), shape=ir.Shape([2]))


def build():
    x, y, cond = val("x"), val("y"), val("cond")
    w = val("w")
    w.const_value = ir.tensor(np.array([1.0, 2.0], dtype=np.float32), name="w")
    unused_init = val("unused_init")
    unused_init.const_value = ir.tensor(np.array([0.0, 0.0], dtype=np.float32), name="unused_init")

    n_add = ir.Node("", "Add", [x, w], name="add", outputs=[val("a")])
    a = n_add.outputs[0]
    n_mul = ir.Node("", "Mul", [a, y], name="mul", outputs=[val("m")])
    m = n_mul.outputs[0]
    n_side = ir.Node("", "Neg", [y], name="side", outputs=[val("s")])
    s = n_side.outputs[0]

    # innermost graph (captures m from the main graph and t from the then-branch)
    t_holder = {}
    inner_node = None

    def make_then():
        n_t = ir.Node("", "Relu", [a], name="then_relu", outputs=[val("t")])
        t = n_t.outputs[0]
        t_holder["t"] = t
        in_n = ir.Node("", "Sub", [t, m], name="deep_sub", outputs=[val("d")])
        deep = ir.Graph([], [in_n.outputs[0]], nodes=[in_n], name="deep")
        deep_else_n = ir.Node("", "Identity", [s], name="deep_id", outputs=[val("de")])
        deep_else = ir.Graph([], [deep_else_n.outputs[0]], nodes=[deep_else_n], name="deep_else")
        n_if2 = ir.Node(
            "",
            "If",
            [cond],
            attributes=[
                ir.AttrGraph("then_branch", deep),
                ir.AttrGraph("else_branch", deep_else),
            ],
            name="inner_if",
            outputs=[val("ti")],
        )
        g = ir.Graph([], [n_if2.outputs[0]], nodes=[n_t, n_if2], name="then")
        return g, deep, deep_else

    then_g, deep, deep_else = make_then()
    n_e = ir.Node("", "Identity", [None, w][1:], name="else_id", outputs=[val("e")])
    else_g = ir.Graph([], [n_e.outputs[0]], nodes=[n_e], name="else")
    n_if = ir.Node(
        "",
        "If",
        [cond],
        attributes=[ir.AttrGraph("then_branch", then_g), ir.AttrGraph("else_branch", else_g)],
        name="outer_if",
        outputs=[val("r")],
    )
    r = n_if.outputs[0]
    # a node with a missing optional input, a duplicated input and a GRAPHS attribute
    gs_n = ir.Node("", "Abs", [y], name="gs_abs", outputs=[val("ga")])
    gs_g = ir.Graph([], [gs_n.outputs[0]], nodes=[gs_n], name="gs0")
    n_multi = ir.Node(
        "custom",
        "Multi",
        [r, None, r],
        attributes=[ir.AttrGraphs("bodies", [gs_g]), ir.RefAttr("ref", "outer", ir.AttributeType.GRAPH)],
        name="multi",
        outputs=[val("z")],
    )
    z = n_multi.outputs[0]
    graph = ir.Graph(
        [x, y, cond],
        [z, s],
        nodes=[n_add, n_mul, n_side, n_if, n_multi],
        initializers=[w, unused_init],
        name="main",
        opset_imports={"": 20, "custom": 1},
    )
    subs = dict(then=then_g, deep=deep, deep_else=deep_else, els=else_g, gs0=gs_g)
    return graph, subs, t_holder["t"]


def names(it):
    return sorted(v.name for v in it)


def all_objects(g):
    objs = set()
    for node in ir.traversal.RecursiveGraphIterator(g):
        objs.add(id(node))
        for v in list(node.inputs) + list(node.outputs):
            if v is not None:
                objs.add(id(v))
    for v in list(g.inputs) + list(g.outputs) + list(g.initializers.values()):
        objs.add(id(v))
    return objs


def main():
    graph, subs, t = build()

    # ---- capture analysis
    usage = analyze_implicit_usage(graph)
    assert set(usage) == set(subs.values()), usage.keys()
    assert names(usage[subs["deep"]]) == ["m", "t"]
    assert names(usage[subs["deep_else"]]) == ["s"]
    assert names(usage[subs["then"]]) == ["a", "cond", "m", "s"], names(usage[subs["then"]])
    assert names(usage[subs["els"]]) == ["w"]
    assert names(usage[subs["gs0"]]) == ["y"]
    # analysing a nested graph directly: the graph itself has no entry
    inner = analyze_implicit_usage(subs["then"])
    assert set(inner) == {subs["deep"], subs["deep_else"]}
    assert names(inner[subs["deep"]]) == ["m", "t"]
    assert names(inner[subs["deep_else"]]) == ["s"]

    src_objs = all_objects(graph)
    before = [n.name for n in graph]

    # ---- full extraction by name: needs every node (side is captured at depth 2)
    ex = ir.convenience.extract(graph, ["x", "y", "cond"], ["z"])
    assert [n.name for n in ex] == ["add", "mul", "side", "outer_if", "multi"]
    assert names(ex.initializers.values()) == ["w"]
    assert [v.name for v in ex.inputs] == ["x", "y", "cond"]
    assert [v.name for v in ex.outputs] == ["z"]
    assert not (all_objects(ex) & src_objs)
    assert ex.name == "main" and ex.opset_imports == {"": 20, "custom": 1}
    ex_usage = analyze_implicit_usage(ex)
    assert sorted(names(s) for s in ex_usage.values()) == sorted(
        names(s) for s in usage.values()
    )

    # ---- cut in the middle, mixing objects and names, with a duplicated boundary input
    a = graph[0].outputs[0]
    m = graph[1].outputs[0]
    s = graph[2].outputs[0]
    ex2 = ir.convenience.extract(graph, [a, "m", "s", "cond", a, "y"], ["z", "r"])
    assert [n.name for n in ex2] == ["outer_if", "multi"]
    assert names(ex2.initializers.values()) == ["w"]  # captured by the else branch
    assert not (all_objects(ex2) & src_objs)

    # ---- only the side node; outputs in the original order even if asked in reverse
    ex3 = ir.convenience.extract(graph, ["x", "y"], ["s", "m"])
    assert [n.name for n in ex3] == ["add", "mul", "side"]
    assert names(ex3.initializers.values()) == ["w"]

    # ---- initializer given as boundary input is kept as initializer
    ex4 = ir.convenience.extract(graph, ["x", "w"], ["a"])
    assert [n.name for n in ex4] == ["add"]
    assert names(ex4.initializers.values()) == ["w"]

    # ---- empty inputs: region that depends on initializers only cannot be found here,
    # so it must raise and name exactly the missing graph inputs, sorted
    def rejects(fn, *fragments):
        try:
            fn()
        except ValueError as e:
            for f in fragments:
                assert f in str(e), (f, str(e))
        else:
            raise AssertionError("expected ValueError")

    rejects(lambda: ir.convenience.extract(graph, [], ["z"]), "required but not provided: cond, x, y")
    # m is covered, but a (then-branch), s (depth 2) and cond are not
    rejects(
        lambda: ir.convenience.extract(graph, ["m"], ["r"]),
        "required but not provided: cond, x, y",
    )
    rejects(lambda: ir.convenience.extract(graph, ["m", "a", "cond"], ["r"]), "provided: y")
    rejects(lambda: ir.convenience.extract(graph, ["x"], []), "At least one output")
    rejects(lambda: ir.convenience.extract(graph, ["nope"], ["z"]), "'nope' not found")
    rejects(lambda: ir.convenience.extract(graph, ["x"], [7]), "'7' not found")
    rejects(lambda: ir.convenience.extract(graph, ["x"], [t]), "does not belong")
    rejects(lambda: ir.convenience.extract(graph, ["t"], ["z"]), "'t' not found")

    # ---- output equal to an input: empty region
    ex5 = ir.convenience.extract(graph, ["a"], ["a"])
    assert len(ex5) == 0 and [v.name for v in ex5.inputs] == ["a"]
    assert ex5.inputs[0] is ex5.outputs[0] and ex5.inputs[0] is not a

    # ---- views and functions
    view = ir.GraphView(graph.inputs, graph.outputs, nodes=list(graph), initializers=[graph.initializers["w"]])
    ex6 = ir.convenience.extract(view, ["a", "y"], ["m"])
    assert [n.name for n in ex6] == ["mul"] and not ex6.initializers

    fx, fy = val("fx"), val("fy")
    f1 = ir.Node("", "Add", [fx, fy], name="f_add", outputs=[val("fa")])
    f2 = ir.Node("", "Neg", [f1.outputs[0]], name="f_neg", outputs=[val("fn")])
    f3 = ir.Node("", "Abs", [fx], name="f_abs", outputs=[val("fb")])
    fgraph = ir.Graph([fx, fy], [f2.outputs[0], f3.outputs[0]], nodes=[f1, f3, f2], name="fg", opset_imports={"": 20})
    func = ir.Function("dom", "F", graph=fgraph, attributes=[])
    ex7 = ir.convenience.extract(func, ["fx", fy], ["fn"])
    assert [n.name for n in ex7] == ["f_add", "f_neg"]
    rejects(lambda: ir.convenience.extract(func, ["fy"], ["fn"]), "provided: fx")

    # the source is untouched
    assert [n.name for n in graph] == before
    assert all_objects(graph) == src_objs
    assert analyze_implicit_usage(graph) == usage
    print("C18 demo OK")


if __name__ == "__main__":
    main()
