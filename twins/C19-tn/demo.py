"""Demo for C19: the device-configuration check on sharding specs.

Exercises Node.shard / set_pipeline_stage / replace_input_with / resize_outputs /
Model.add_/remove_device_configuration / clone / serde round trip and, after each
step, the library's own device-configuration check; then feeds the check
hand-built (invalid) annotations and compares the exact messages and their order.
"""

import onnx

import onnx_ir as ir
from onnx_ir import _multi_device as md
from onnx_ir import serde

check = md._check_device_configurations


def build():
    x = ir.Value(name="x", shape=ir.Shape([4, 8, 2]), type=ir.TensorType(ir.DataType.FLOAT))
    w = ir.Value(name="w", type=ir.TensorType(ir.DataType.FLOAT))  # unknown rank
    node = ir.Node(
        "", "Add", [x, w, x], outputs=[ir.Value(name="y"), ir.Value(name="z")], name="add0"
    )
    graph = ir.Graph([x, w], [node.outputs[0]], nodes=[node], opset_imports={"": 18})
    model = ir.Model(graph, ir_version=11)
    return model, node, x, w


def expect_raises(fn, exc=ValueError):
    try:
        fn()
    except exc:
        return
    raise AssertionError("expected " + exc.__name__)


def assert_sound(model):
    """Every annotation targets an own value and a registered configuration."""
    assert check(model) == [], check(model)
    for node in model.graph.all_nodes():
        io = [v for v in (*node.inputs, *node.outputs) if v is not None]
        for cfg in node.device_configurations:
            assert any(cfg.configuration is c for c in model.device_configurations)
            for spec in cfg.sharding_specs:
                assert any(spec.value is v for v in io)


# ---- 1. valid histories: the check reports nothing ---------------------------------
model, node, x, w = build()
conf = model.add_device_configuration("mesh", device_names=("d0", "d1", "d2", "d3"))
other = model.add_device_configuration("pipe", num_devices=2)
node.shard(x, configuration=conf, axis=-1, num_shards=2, device_indices=(0, 1))
node.shard(x, configuration=conf, axis=0, num_shards=2, device_indices=(1, 2), pipeline_stage=1)
node.shard(w, configuration=conf, axis=-5, num_shards=3)  # unknown rank: any axis
node.shard(w, configuration=conf, axis=7, num_shards=1)
node.shard(node.outputs[1], configuration=other, axis=0, num_shards=2)
node.set_pipeline_stage(other, 0)
assert_sound(model)

# rejected requests have no effect
before = node.device_configurations
expect_raises(lambda: node.shard(x, configuration=conf, axis=2, num_shards=2))  # == -1
expect_raises(lambda: node.shard(x, configuration=conf, axis=3, num_shards=2))
expect_raises(lambda: node.shard(x, configuration=conf, axis=-4, num_shards=2))
expect_raises(lambda: node.shard(x, configuration=conf, axis=1, num_shards=0))
expect_raises(lambda: node.shard(x, configuration=conf, axis=1, num_shards=2, pipeline_stage=3))
expect_raises(lambda: node.shard(w, configuration=conf, axis=-5, num_shards=2))
expect_raises(lambda: node.shard(ir.Value(name="alien"), configuration=conf, axis=0, num_shards=2))
expect_raises(lambda: node.set_pipeline_stage(conf, -1))
assert node.device_configurations is before
assert_sound(model)

# rename: serialized references use the current names
x.name = "x_renamed"
w.name = "w_renamed"
assert_sound(model)
if hasattr(onnx.NodeProto(), "device_configurations"):
    proto = serde.serialize_model(model)
    names = {
        s.tensor_name for n in proto.graph.node for c in n.device_configurations
        for s in c.sharding_spec
    }
    assert names == {"x_renamed", "w_renamed", "z"}, names
    back = serde.deserialize_model(proto)
    assert_sound(back)
    assert len(back.graph.node(0).device_configurations) == 2

# x is used twice: replacing one use keeps its annotations, replacing both drops them
node.replace_input_with(0, w)
assert len(node.sharding_of(x)) == 1
assert_sound(model)
node.replace_input_with(2, None)
assert node.sharding_of(x) == ()
assert_sound(model)
node.resize_outputs(1)
assert all(not c.sharding_specs for c in node.device_configurations if c.configuration is other)
assert_sound(model)

cloned = model.clone()
assert_sound(cloned)
assert cloned.graph.node(0).sharding_of(w) == ()
assert len(cloned.graph.node(0).sharding_of(cloned.graph.inputs[1])) == 1

model.remove_device_configuration("pipe", cascade=True)
assert [c.configuration for c in node.device_configurations] == [conf]
assert_sound(model)
model.remove_device_configuration(conf)  # no cascade: dangling reference is reported
assert any("not declared" in e for e in check(model)), check(model)

# ---- 2. hand-built invalid annotations: exact messages, exact order ---------------
model, node, x, w = build()
conf = model.add_device_configuration("mesh", num_devices=2)
alien = ir.Value(name="", shape=ir.Shape([3]))


def dim(axis, *shards):
    return md.ShardedDim(
        axis=axis, simple_shardings=tuple(md.SimpleShardedDim(num_shards=s) for s in shards)
    )


node.device_configurations = (
    md.NodeDeviceConfiguration(
        configuration=conf,
        sharding_specs=(
            md.ShardingSpec(),  # no value
            md.ShardingSpec(  # x has rank 3
                value=x,
                device=(0, 2, -1, -2, -3, 1),
                index_to_device_group_map=(
                    md.IndexToDeviceGroupMapEntry(key=-1, value=(0, 5, 1, -1)),
                    md.IndexToDeviceGroupMapEntry(key=-2, value=(9,)),
                    md.IndexToDeviceGroupMapEntry(key=-2, value=()),  # duplicate key: last wins
                ),
                sharded_dims=(
                    dim(-1, 2, 0),
                    dim(3, -1),
                    dim(2),
                    dim(-4),
                    dim(2, 1),
                    dim(0),
                ),
            ),
            md.ShardingSpec(  # unknown rank: -1 and 1 are distinct, repeats found literally
                value=w, device=(), sharded_dims=(dim(-1), dim(1), dim(-1, 0), dim(100))
            ),
            md.ShardingSpec(value=alien, device=(1, 2), sharded_dims=(dim(-1), dim(0), dim(1))),
        ),
    ),
    md.NodeDeviceConfiguration(  # unregistered configuration object without a name
        configuration=md.ModelConfiguration("", num_devices=1),
        sharding_specs=(md.ShardingSpec(value=x, device=(0, 1)),),
    ),
    md.NodeDeviceConfiguration(  # no configuration: device indices are not checked
        sharding_specs=(md.ShardingSpec(value=w, device=(99,), sharded_dims=(dim(0, 0),)),),
    ),
    md.NodeDeviceConfiguration(configuration=conf),  # empty specs
)
expected = [
    "Node 'add0' has a ShardingSpec without a value.",
    "Node 'add0': num_shards=0 for value 'x' must be >= 1.",
    "Node 'add0': sharded axis 3 of value 'x' is out of range (rank=3).",
    "Node 'add0': num_shards=-1 for value 'x' must be >= 1.",
    "Node 'add0': value 'x' is sharded along axis 2 more than once.",
    "Node 'add0': sharded axis -4 of value 'x' is out of range (rank=3).",
    "Node 'add0': value 'x' is sharded along axis 2 more than once.",
    "Node 'add0': device index 2 for value 'x' is out of range (num_devices=2).",
    "Node 'add0': device 5 in group -1 for value 'x' is out of range (num_devices=2).",
    "Node 'add0': device -1 in group -1 for value 'x' is out of range (num_devices=2).",
    "Node 'add0': device index -3 for value 'x' is out of range (num_devices=2).",
    "Node 'add0': value 'w' is sharded along axis -1 more than once.",
    "Node 'add0': num_shards=0 for value 'w' must be >= 1.",
    "Node 'add0' shards a value with an empty name (cannot be serialized).",
    "Node 'add0' shards value '' which is not an input or output of the node.",
    "Node 'add0': value '' is sharded along axis 0 more than once.",
    "Node 'add0': sharded axis 1 of value '' is out of range (rank=1).",
    "Node 'add0': device index 2 for value '' is out of range (num_devices=2).",
    "Node 'add0' references a configuration with an empty name (cannot be serialized).",
    "Node 'add0': device index 1 for value 'x' is out of range (num_devices=1).",
    "Node 'add0' has a device configuration without a ModelConfiguration reference.",
    "Node 'add0': num_shards=0 for value 'w' must be >= 1.",
]
got = check(model)
assert got == expected, "\n".join(got)

# an exception half-way leaves the messages found so far in the caller's list
errors: list = []
bad = md.ShardingSpec(value=x, sharded_dims=(dim(5), dim("a")))
try:
    md._check_sharding_spec(bad, node, {x}, 2, errors)
except TypeError:
    pass
else:
    raise AssertionError("expected TypeError")
assert errors == ["Node 'add0': sharded axis 5 of value 'x' is out of range (rank=3)."], errors

# empty model: nothing to report
empty = ir.Model(ir.Graph([], [], nodes=[], opset_imports={"": 18}), ir_version=11)
assert check(empty) == []
print("OK")
