"""C10 demo: external tensor reads stay inside the base directory (the _load / mmap path)."""
import os
import sys
import tempfile

import numpy as np

import onnx_ir as ir


def ext(location, base_dir, dtype=ir.DataType.FLOAT, shape=(4,), offset=None, length=None):
    return ir.ExternalTensor(
        location, offset, length, dtype, shape=ir.Shape(shape), name="t", base_dir=base_dir
    )


def rejected(tensor, label):
    """Every read entry point must raise ValueError and nothing may get mapped."""
    import io

    for how, read in (
        ("numpy", lambda: tensor.numpy()),
        ("tobytes", lambda: tensor.tobytes()),
        ("__array__", lambda: np.asarray(tensor)),
        ("tofile", lambda: tensor.tofile(io.BytesIO())),
    ):
        try:
            read()
        except ValueError:
            pass
        else:
            raise AssertionError(f"{label}: {how} was not rejected")
        assert tensor.raw is None, f"{label}: {how} mapped a file although rejected"


def main():
    with tempfile.TemporaryDirectory() as root:
        root = os.path.realpath(root)
        base = os.path.join(root, "model")
        sibling = os.path.join(root, "model_evil")  # shares the base's name as a prefix
        os.makedirs(os.path.join(base, "sub"))
        os.makedirs(sibling)
        data = np.arange(4, dtype=np.float32)
        secret = np.full(4, 666.0, dtype=np.float32)
        data.tofile(os.path.join(base, "w.bin"))
        data.tofile(os.path.join(base, "sub", "w.bin"))
        secret.tofile(os.path.join(root, "secret.bin"))
        secret.tofile(os.path.join(sibling, "secret.bin"))
        packed = np.array([0x21, 0x43], dtype=np.uint8)  # int4: 1, 2, 3, 4
        packed.tofile(os.path.join(base, "i4.bin"))
        two_bit = np.array([0b11100100], dtype=np.uint8)  # uint2: 0, 1, 2, 3
        two_bit.tofile(os.path.join(base, "u2.bin"))
        os.symlink(os.path.join(root, "secret.bin"), os.path.join(base, "out_link.bin"))
        os.symlink(os.path.join(base, "w.bin"), os.path.join(base, "in_link.bin"))
        os.symlink(sibling, os.path.join(base, "out_dir"))
        os.link(os.path.join(root, "secret.bin"), os.path.join(base, "hard.bin"))

        # Accepted reads, several spellings of the base directory and of the location
        for base_spelling in (base, base + os.sep, os.path.join(base, "sub", ".."), os.path.relpath(base)):
            for location in ("w.bin", "./w.bin", "sub/../w.bin", "sub//w.bin", "in_link.bin"):
                t = ext(location, base_spelling)
                np.testing.assert_array_equal(t.numpy(), data)
                assert t.raw is not None
                assert t.tobytes() == data.tobytes()
                np.testing.assert_array_equal(np.asarray(t), data)
                t.release()
                assert t.raw is None
                # a second load after release maps again
                assert ext(location, base_spelling).tobytes() == data.tobytes()

        # Sub-byte packed types go through the byte-wise layout
        t4 = ext("i4.bin", base, dtype=ir.DataType.INT4)
        assert t4.numpy().tolist() == [1, 2, 3, 4], t4.numpy()
        assert t4.tobytes() == packed.tobytes()
        u2 = ext("u2.bin", base, dtype=ir.DataType.UINT2)
        assert u2.numpy().tolist() == [0, 1, 2, 3], u2.numpy()
        # offset / length within a file
        off = ext("w.bin", base, shape=(2,), offset=8, length=8)
        np.testing.assert_array_equal(off.numpy(), data[2:])
        assert off.tobytes() == data[2:].tobytes()
        # big-endian request never happens: the array is little endian
        assert ext("w.bin", base).numpy().dtype.newbyteorder("<") == np.dtype("<f4")

        # Rejected locations
        for location in (
            "../secret.bin",
            "sub/../../secret.bin",
            os.path.join(root, "secret.bin"),
            "../model_evil/secret.bin",
            "out_link.bin",
            "out_dir/secret.bin",
            "hard.bin",
        ):
            rejected(ext(location, base), location)
            rejected(ext(location, base + os.sep), location + " (trailing sep)")
            rejected(ext(location, base, dtype=ir.DataType.INT4, shape=(8,)), location + " int4")
        # base directory reached through a symlink: inside stays inside, outside stays outside
        os.symlink(base, os.path.join(root, "alias"))
        np.testing.assert_array_equal(ext("w.bin", os.path.join(root, "alias")).numpy(), data)
        rejected(ext("../secret.bin", os.path.join(root, "alias")), "alias/../secret.bin")

        # Unusual: an empty tensor maps nothing but is still checked
        empty_ok = ext("w.bin", base, shape=(0,))
        assert empty_ok.numpy().shape == (0,) and empty_ok.raw is None
        assert empty_ok.tobytes() == b""
        empty_bad = ext("../secret.bin", base, shape=(0,))
        for read in (empty_bad.numpy, empty_bad.tobytes):
            try:
                read()
            except ValueError:
                pass
            else:
                raise AssertionError("empty tensor outside the base was not rejected")

        # Unusual: the base directory is changed after a successful read
        moved = ext("secret.bin", sibling)
        np.testing.assert_array_equal(moved.numpy(), secret)
        moved.base_dir = base
        try:
            moved.numpy()
        except (ValueError, OSError):
            pass
        else:
            raise AssertionError("stale mapping served after base_dir change")
        retarget = ext("../secret.bin", base)
        rejected(retarget, "before retarget")
        retarget.base_dir = base  # same value: still rejected
        rejected(retarget, "after same-value retarget")

        # An accepted file that is missing or too short fails without a half-built array
        missing = ext("nope.bin", base)
        try:
            missing.numpy()
        except FileNotFoundError:
            pass
        else:
            raise AssertionError("missing file")
        assert missing.raw is None
        short = ext("w.bin", base, shape=(400,))
        try:
            short.numpy()
        except ValueError:
            pass
        else:
            raise AssertionError("short file")

        # A model loaded by a bare file name gets its directory as base
        weights = ir.Value(name="w", const_value=ir.tensor(data, name="w"))
        graph = ir.Graph([], [], nodes=[], initializers=[weights], name="g", opset_imports={"": 20})
        model = ir.Model(graph, ir_version=10)
        ir.save(model, os.path.join(base, "m.onnx"), external_data="m.data", size_threshold_bytes=0)
        old_cwd = os.getcwd()
        os.chdir(base)
        try:
            for spelling in ("m.onnx", "./m.onnx", os.path.join(base, "m.onnx"), "sub/../m.onnx"):
                loaded = ir.load(spelling)
                tensor = loaded.graph.initializers["w"].const_value
                assert isinstance(tensor, ir.ExternalTensor)
                assert tensor.base_dir, repr(tensor.base_dir)
                np.testing.assert_array_equal(tensor.numpy(), data)
                escaped = ext("../secret.bin", tensor.base_dir)
                rejected(escaped, f"load({spelling!r})")
        finally:
            os.chdir(old_cwd)
    print("C10 demo OK")


if __name__ == "__main__":
    main()
    sys.exit(0)
