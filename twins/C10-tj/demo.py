"""Demo for C10: external tensor reads never escape the model directory.

Run as:
  cd /tmp/wt_c10tj && PYTHONPATH=/tmp/wt_c10tj/src /venv/bin/python /tmp/seed_out/C10_tj/demo.py
"""

import io
import os
import sys
import tempfile

import numpy as np

import onnx_ir as ir

DATA = np.arange(4, dtype=np.float32)
SECRET = np.array([9, 9, 9, 9], dtype=np.float32)


def make(location, base_dir, shape=(4,)):
    return ir.ExternalTensor(
        location,
        offset=0,
        length=int(np.prod(shape)) * 4,
        dtype=ir.DataType.FLOAT,
        shape=ir.Shape(shape),
        name="t",
        base_dir=base_dir,
    )


READERS = {
    "numpy": lambda t: t.numpy().tobytes(),
    "tobytes": lambda t: bytes(t.tobytes()),
    "array": lambda t: np.asarray(t).tobytes(),
    "tofile": lambda t: (lambda b: (t.tofile(b), b.getvalue())[1])(io.BytesIO()),
}


def expect_ok(location, base_dir, what):
    for name, reader in READERS.items():
        got = reader(make(location, base_dir))
        assert got == DATA.tobytes(), (what, name, got)


def expect_rejected(location, base_dir, what, fragment):
    for name, reader in READERS.items():
        tensor = make(location, base_dir)
        try:
            got = reader(tensor)
        except ValueError as e:
            assert fragment in str(e), (what, name, str(e))
            assert tensor.raw is None, (what, name, "file was mapped")
        else:
            raise AssertionError(f"{what}/{name}: not rejected, got {got!r}")


def main():
    with tempfile.TemporaryDirectory() as root:
        root = os.path.realpath(root)
        base = os.path.join(root, "models")
        sibling = os.path.join(root, "models2")  # shares the base's name as a prefix
        os.makedirs(os.path.join(base, "sub"))
        os.makedirs(sibling)
        DATA.tofile(os.path.join(base, "w.bin"))
        DATA.tofile(os.path.join(base, "sub", "w.bin"))
        SECRET.tofile(os.path.join(root, "secret.bin"))
        SECRET.tofile(os.path.join(sibling, "secret.bin"))
        os.symlink(os.path.join(base, "w.bin"), os.path.join(base, "in_link.bin"))
        os.symlink(os.path.join(root, "secret.bin"), os.path.join(base, "out_link.bin"))
        os.symlink(sibling, os.path.join(base, "out_dir"))
        os.symlink(base, os.path.join(root, "base_link"))
        DATA.tofile(os.path.join(base, "h1.bin"))
        os.link(os.path.join(base, "h1.bin"), os.path.join(base, "h2.bin"))

        old_cwd = os.getcwd()
        os.chdir(root)
        try:
            bases = [
                base,
                base + os.sep,
                "models",
                os.path.join(".", "models", ""),
                os.path.join(root, "base_link"),
                os.path.join(base, "sub", ".."),
            ]
            for b in bases:
                # accepted locations, including non-normalised ones and an inside symlink
                expect_ok("w.bin", b, "plain")
                expect_ok(os.path.join(".", "sub", "..", "w.bin"), b, "non-normalised")
                expect_ok(os.path.join("sub", "w.bin"), b, "nested")
                expect_ok("in_link.bin", b, "symlink inside")
                # rejected locations
                expect_rejected(os.path.join("..", "secret.bin"), b, "parent", "outside the base")
                expect_rejected(
                    os.path.join("..", "models2", "secret.bin"), b, "sibling prefix", "outside the base"
                )
                expect_rejected(
                    os.path.join(root, "secret.bin"), b, "absolute", "outside the base"
                )
                expect_rejected("out_link.bin", b, "symlink out", "via symlink")
                expect_rejected(
                    os.path.join("out_dir", "secret.bin"), b, "symlinked dir out", "via symlink"
                )
                expect_rejected("h1.bin", b, "hard link", "multiple hard links")
                expect_rejected("h2.bin", b, "hard link (other name)", "nlink=2")

            # Unusual input: an empty tensor still fails closed on tobytes()/tofile().
            empty = make(os.path.join("..", "secret.bin"), base, shape=(0,))
            for fn in (empty.tobytes, lambda: empty.tofile(io.BytesIO())):
                try:
                    fn()
                except ValueError as e:
                    assert "outside the base" in str(e)
                else:
                    raise AssertionError("empty tensor escaping the base was not rejected")

            # The base directory itself as location passes both containment checks (it is
            # "equal to the base") and is then rejected by the link-count check, because a
            # directory has at least two links.
            try:
                make(".", base).numpy()
            except ValueError as e:
                assert "multiple hard links" in str(e), str(e)
            else:
                raise AssertionError("a directory must not be readable as tensor data")

            # A model loaded by a bare file name gets a non-empty base directory.
            tensor = ir.tensor(DATA, name="w")
            ok_model_path = os.path.join(base, "m.onnx")
            value = ir.Value(name="w", const_value=tensor, shape=tensor.shape, type=ir.TensorType(tensor.dtype))
            graph = ir.Graph([], [value], nodes=[], initializers=[value], opset_imports={"": 20}, name="g")
            model = ir.Model(graph, ir_version=10)
            ir.save(model, ok_model_path, external_data="m.data", size_threshold_bytes=0)
            # Patch the location on disk so that it points outside.
            import onnx

            proto = onnx.load(ok_model_path, load_external_data=False)
            for entry in proto.graph.initializer[0].external_data:
                if entry.key == "location":
                    entry.value = os.path.join("..", "secret.bin")
            onnx.save(proto, os.path.join(base, "evil.onnx"))
            os.chdir(base)
            for spelling in ("evil.onnx", os.path.join(".", "evil.onnx"), os.path.join(base, "evil.onnx")):
                loaded = ir.load(spelling)
                ext = loaded.graph.initializers["w"].const_value
                assert isinstance(ext, ir.ExternalTensor) and ext.base_dir, spelling
                try:
                    ext.numpy()
                except ValueError as e:
                    assert "outside the base" in str(e)
                else:
                    raise AssertionError(f"load({spelling!r}) escaped the model directory")
            good = ir.load("m.onnx").graph.initializers["w"].const_value
            assert good.tobytes() == DATA.tobytes()
        finally:
            os.chdir(old_cwd)
    print("C10 demo OK")
    return 0


if __name__ == "__main__":
    sys.exit(main())
