"""Demo for C15: bulk renaming is all-or-nothing; generated names never collide."""
import numpy as np

import onnx_ir as ir
from onnx_ir import convenience
from onnx_ir.passes.common import naming


def make_init(name):
    return ir.Value(name=name, const_value=ir.tensor(np.array([1.0], dtype=np.float32), name=name))


def make_graph(init_names, name="g"):
    x = ir.Value(name=f"{name}_x")
    inits = [make_init(n) for n in init_names]
    node = ir.Node("", "Add", inputs=[x, inits[0]], outputs=[ir.Value(name=f"{name}_y")])
    g = ir.Graph(inputs=[x], outputs=node.outputs, nodes=[node], initializers=inits, name=name)
    return g, x, inits, node


def snapshot(*graphs):
    snap = []
    for g in graphs:
        snap.append(
            (
                [(k, id(v), v.name, v.const_value.name) for k, v in g.initializers.items()],
                [(v.name) for v in g.inputs],
                [(n.name, [o.name for o in n.outputs]) for n in g],
            )
        )
    return snap


def check_keys(g):
    for k, v in g.initializers.items():
        assert k == v.name, (k, v.name)
        assert v.is_initializer()
        assert v.const_value.name == k


def expect(exc, fn, *graphs):
    before = snapshot(*graphs)
    try:
        fn()
    except exc:
        pass
    else:
        raise AssertionError(f"expected {exc}")
    assert snapshot(*graphs) == before, "rejected rename changed something"


# --- swap and 3-cycle, initializers included, mixed with a plain value
g, x, (a, b, c), node = make_graph(["a", "b", "c"])
convenience.rename_values([a, b], ["b", "a"])
assert (a.name, b.name) == ("b", "a")
assert g.initializers["b"] is a and g.initializers["a"] is b
check_keys(g)
convenience.rename_values([a, b, c, x], ["a", "c", "b", "xx"])
assert (a.name, b.name, c.name, x.name) == ("a", "c", "b", "xx")
assert set(g.initializers) == {"a", "b", "c"}
check_keys(g)

# --- single value / single name form and duplicates with the same target
convenience.rename_values(x, "g_x")
assert x.name == "g_x"
convenience.rename_values([a, a, b], ["a2", "a2", "b2"])
assert (a.name, b.name) == ("a2", "b2") and set(g.initializers) == {"a2", "b2", "b"}
check_keys(g)

# --- empty input is a no-op
before = snapshot(g)
convenience.rename_values([], [])
assert snapshot(g) == before

# --- rejected calls leave everything untouched
expect(ValueError, lambda: convenience.rename_values([a, b], ["z"]), g)
expect(ValueError, lambda: convenience.rename_values([a, a], ["p", "q"]), g)
expect(TypeError, lambda: convenience.rename_values([x, "nope"], ["p", "q"]), g)
expect(TypeError, lambda: convenience.rename_values([x, a], ["p", 3]), g)
expect(ValueError, lambda: convenience.rename_values([x, a], ["p", ""]), g)
# two renamed initializers target the same name
expect(ValueError, lambda: convenience.rename_values([x, a, b], ["p", "same", "same"]), g)
# target collides with an initializer outside the renamed set (c is named "b")
expect(ValueError, lambda: convenience.rename_values([x, a], ["p", "b"]), g)

# --- two graphs: the second graph's check fails -> the first is untouched as well
g1, x1, (a1, b1), _ = make_graph(["a", "b"], name="g1")
g2, x2, (a2, b2), _ = make_graph(["a", "b"], name="g2")
expect(
    ValueError,
    lambda: convenience.rename_values([a1, b1, x1, a2], ["b", "a", "moved", "b"]),
    g1,
    g2,
)
convenience.rename_values([a1, b1, a2, b2], ["b", "a", "b", "a"])
assert g1.initializers["a"] is b1 and g1.initializers["b"] is a1
assert g2.initializers["a"] is b2 and g2.initializers["b"] is a2
check_keys(g1)
check_keys(g2)

# --- generated names never collide with explicit names shaped like generated ones
h = ir.Graph(inputs=[], outputs=[], nodes=[], name="h")
n0 = ir.Node("", "Relu", inputs=[ir.Value(name="in")], outputs=[ir.Value(name="val_1")], name="node_Relu_1")
h.append(n0)
assert n0.name == "node_Relu_1" and n0.outputs[0].name == "val_1"
seen_nodes, seen_vals = {"node_Relu_1"}, {"val_1"}
for _ in range(4):
    n = ir.Node("", "Relu", inputs=[n0.outputs[0]])
    h.append(n)
    assert n.name not in seen_nodes and n.outputs[0].name not in seen_vals
    seen_nodes.add(n.name)
    seen_vals.add(n.outputs[0].name)
    h.remove(n)

# --- name fixing after a rename that produced duplicates among plain values
g3, x3, (a3,), node3 = make_graph(["w"], name="g3")
extra = ir.Node("", "Relu", inputs=[node3.outputs[0]], outputs=[ir.Value(name=None)], name=None)
g3.append(extra)
convenience.rename_values([x3, node3.outputs[0]], ["w", "w"])  # duplicates of the initializer name
extra.name = node3.name
model = ir.Model(g3, ir_version=10)
result = naming.NameFixPass()(model)
assert result.modified
names = [v.name for v in [x3, a3, node3.outputs[0], extra.outputs[0]]]
assert all(names) and len(set(names)) == len(names), names
node_names = [n.name for n in g3]
assert all(node_names) and len(set(node_names)) == len(node_names)
check_keys(g3)

print("OK")
