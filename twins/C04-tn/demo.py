"""Demo for C04: array-backed Tensor and PackedTensor agree on values and bytes.

Exercises Tensor.__init__ (bit-representation view through ml_dtypes), Tensor.tofile
(regular file at an offset, in-memory buffer, object whose fileno() raises),
and PackedTensor.numpy for 2- and 4-bit types with odd element counts, empty and
scalar shapes, plus rejected calls.
"""

import io
import math
import os
import tempfile

import ml_dtypes
import numpy as np

import onnx_ir as ir

NON_NATIVE = {
    ir.DataType.BFLOAT16: (np.uint16, ml_dtypes.bfloat16),
    ir.DataType.FLOAT8E4M3FN: (np.uint8, ml_dtypes.float8_e4m3fn),
    ir.DataType.FLOAT8E4M3FNUZ: (np.uint8, ml_dtypes.float8_e4m3fnuz),
    ir.DataType.FLOAT8E5M2: (np.uint8, ml_dtypes.float8_e5m2),
    ir.DataType.FLOAT8E5M2FNUZ: (np.uint8, ml_dtypes.float8_e5m2fnuz),
    ir.DataType.FLOAT8E8M0: (np.uint8, ml_dtypes.float8_e8m0fnu),
    ir.DataType.INT4: (np.uint8, ml_dtypes.int4),
    ir.DataType.UINT4: (np.uint8, ml_dtypes.uint4),
    ir.DataType.FLOAT4E2M1: (np.uint8, ml_dtypes.float4_e2m1fn),
    ir.DataType.INT2: (np.uint8, ml_dtypes.int2),
    ir.DataType.UINT2: (np.uint8, ml_dtypes.uint2),
}
SHAPES = [(), (0,), (1,), (3,), (5,), (2, 3), (1, 1, 7, 1), (2, 0, 3)]


class _NoFileno(io.BytesIO):
    """A buffer that advertises fileno() but raises, as BytesIO does."""

    def __init__(self):
        super().__init__()
        self.fileno_calls = 0

    def fileno(self):
        self.fileno_calls += 1
        raise io.UnsupportedOperation("fileno")


def bits_for(dtype, shape, raw_np):
    size = math.prod(shape)
    mask = (1 << dtype.bitwidth) - 1
    if dtype.bitwidth == 16:
        vals = [(i * 7919 + 0x7F80) & 0xFFFF for i in range(size)]  # includes inf/nan patterns
    else:
        vals = [(i * 37 + mask) & mask for i in range(size)]  # includes all-ones (nan/min)
    return np.array(vals, dtype=raw_np).reshape(shape)


def reference_bytes(dtype, bits):
    flat = bits.reshape(-1).astype(np.uint64)
    bw = dtype.bitwidth
    if bw >= 8:
        return flat.astype("<u2" if bw == 16 else "u1").tobytes()
    per = 8 // bw
    out = bytearray(math.ceil(flat.size * bw / 8))
    for i, v in enumerate(flat.tolist()):
        out[i // per] |= (v & ((1 << bw) - 1)) << (bw * (i % per))
    return bytes(out)


def check_destinations(tensor, expected):
    assert tensor.tobytes() == expected, (tensor.dtype, tensor.shape)
    assert tensor.nbytes == len(expected) == math.ceil(tensor.size * tensor.dtype.bitwidth / 8)
    # In-memory buffer
    buf = io.BytesIO()
    buf.write(b"hd")
    tensor.tofile(buf)
    assert buf.getvalue() == b"hd" + expected
    # Buffer whose fileno() raises -> falls back to write()
    nf = _NoFileno()
    tensor.tofile(nf)
    assert nf.getvalue() == expected
    # Regular file at a non-zero position
    with tempfile.TemporaryDirectory() as d:
        path = os.path.join(d, "t.bin")
        with open(path, "wb") as f:
            f.write(b"PREFIX!")
            tensor.tofile(f)
            f.write(b"END")
        with open(path, "rb") as f:
            assert f.read() == b"PREFIX!" + expected + b"END"
    return nf.fileno_calls


def main():
    count = 0
    for dtype, (raw_np, ml_np) in NON_NATIVE.items():
        assert dtype.numpy() == np.dtype(ml_np)
        for shape in SHAPES:
            bits = bits_for(dtype, shape, raw_np)
            expected = reference_bytes(dtype, bits)
            # (a) bit representation, viewed by the constructor
            t_bits = ir.Tensor(bits, dtype=dtype)
            # (b) ml_dtypes array, dtype inferred
            t_ml = ir.Tensor(bits.view(ml_np))
            # (c) ml_dtypes array with the dtype given
            t_ml2 = ir.Tensor(bits.view(ml_np), dtype=dtype)
            reps = [t_bits, t_ml, t_ml2]
            if dtype.bitwidth < 8:
                packed = np.frombuffer(expected, dtype=np.uint8)
                reps.append(ir.PackedTensor(packed, dtype, shape=ir.Shape(shape)))
                reps.append(ir.PackedTensor(packed.copy(), dtype, shape=list(shape)))
            for t in reps:
                assert t.dtype == dtype
                assert t.shape.numpy() == tuple(shape)
                arr = t.numpy()
                assert arr.dtype == np.dtype(ml_np), (type(t), dtype, arr.dtype)
                assert arr.shape == tuple(shape)
                assert np.array_equal(arr.view(raw_np), bits), (type(t), dtype, shape)
                check_destinations(t, expected)
                count += 1
            # The view must not copy the user's array
            assert bits.size == 0 or np.shares_memory(t_bits.numpy(), bits)
            assert t_bits.raw.dtype == np.dtype(ml_np)

    # Native dtypes are left untouched by the constructor (identity, no view)
    for np_dtype in (np.float32, np.int64, np.bool_, np.complex64, np.float16, np.uint8):
        for shape in SHAPES:
            a = (np.arange(math.prod(shape)) % 2).astype(np_dtype).reshape(shape)
            t = ir.Tensor(a)
            assert t.numpy() is a and t.raw is a
            calls = check_destinations(t, a.astype(a.dtype.newbyteorder("<")).tobytes())
            assert calls == 1  # fileno() probed exactly once for a numpy-backed tensor
            count += 1
    # uint8 data declared as UINT8 must stay uint8 (not viewed as any float8)
    u8 = np.array([0, 255, 128], dtype=np.uint8)
    assert ir.Tensor(u8, dtype=ir.DataType.UINT8).numpy() is u8

    # Non-numpy backing value: tofile must not probe fileno(), it writes tobytes()
    class ArrayLike:
        def __init__(self, a):
            self.a = a
            self.shape = a.shape

        def __array__(self, dtype=None, copy=None):
            return self.a

    al = ir.Tensor(ArrayLike(np.array([1, 2, 3], dtype=np.uint8).view(ml_dtypes.int4)),
                   dtype=ir.DataType.INT4)
    nf = _NoFileno()
    al.tofile(nf)
    assert nf.fileno_calls == 0 and nf.getvalue() == b"\x21\x03"
    with tempfile.TemporaryFile() as f:
        al.tofile(f)
        f.seek(0)
        assert f.read() == b"\x21\x03"

    # Rejected calls
    def rejected(exc, fn):
        try:
            fn()
        except exc:
            return
        raise AssertionError(f"expected {exc.__name__}")

    rejected(TypeError, lambda: ir.Tensor(np.zeros(3, np.float32), dtype=ir.DataType.BFLOAT16))
    rejected(TypeError, lambda: ir.Tensor(np.zeros(3, np.int8), dtype=ir.DataType.UINT4))
    rejected(TypeError, lambda: ir.Tensor(np.zeros(3, np.uint16), dtype=ir.DataType.FLOAT8E5M2))
    rejected(TypeError, lambda: ir.Tensor(np.zeros(3, np.float32), dtype=ir.DataType.DOUBLE))
    rejected(TypeError, lambda: ir.Tensor([1, 2, 3]))
    rejected(TypeError, lambda: ir.PackedTensor(np.zeros(2, np.uint8), ir.DataType.INT8, shape=[2]))
    rejected(
        TypeError,
        lambda: ir.PackedTensor(np.zeros(2, ml_dtypes.int4), ir.DataType.INT4, shape=[2]),
    )
    rejected(ValueError, lambda: ir.PackedTensor(np.zeros(2, np.uint8), ir.DataType.INT4, shape=[5]))
    # int8 bit representation is accepted for the signed sub-byte types and sign-preserving
    t = ir.Tensor(np.array([-8, 7, -1], dtype=np.int8), dtype=ir.DataType.INT4)
    assert t.numpy().dtype == np.dtype(ml_dtypes.int4)
    assert t.numpy().astype(np.int32).tolist() == [-8, 7, -1]
    assert t.tobytes() == b"\x78\x0f"
    t = ir.Tensor(np.array([-2, 1, -1, 0, 1], dtype=np.int8), dtype=ir.DataType.INT2)
    assert t.numpy().astype(np.int32).tolist() == [-2, 1, -1, 0, 1]
    assert t.tobytes() == bytes([0b00110110, 0b01])
    # The file object is only asked to write() when it cannot give a descriptor
    class WriteOnly:
        def __init__(self):
            self.chunks = []

        def write(self, b):
            self.chunks.append(bytes(b))

    w = WriteOnly()
    t.tofile(w)
    assert w.chunks == [bytes([0b00110110, 0b01])]

    print(f"OK: {count} tensor representations checked")


if __name__ == "__main__":
    main()
