"""Demo for C19: device annotations follow object identity through cloning.

Exercises Model.clone / Graph.clone / Cloner over nodes that carry sharding and
pipeline annotations, including unusual inputs: a rejected shard() call, a spec
with value=None, the same value sharded under two configurations, a nested
subgraph whose node shards an outer-scope value, an empty annotation tuple and
a value explicitly dropped (mapped to None) by the cloner.
"""

from __future__ import annotations

import sys

import onnx_ir as ir
from onnx_ir import _cloner, _multi_device, serde

FLOAT = ir.TensorType(ir.DataType.FLOAT)


def check(cond: bool, msg: str) -> None:
    if not cond:
        print("FAIL:", msg)
        sys.exit(1)


def all_nodes(model: ir.Model):
    nodes = list(model.graph.all_nodes())
    for func in model.functions.values():
        nodes.extend(func.all_nodes())
    return nodes


def assert_property(model: ir.Model, what: str) -> None:
    """Every annotation targets a current input/output and a registered configuration."""
    errors = _multi_device._check_device_configurations(model)
    check(errors == [], f"{what}: checker reports {errors}")
    for node in all_nodes(model):
        own = [v for v in (*node.inputs, *node.outputs) if v is not None]
        for config in node.device_configurations:
            check(
                any(config.configuration is c for c in model.device_configurations),
                f"{what}: node {node.name} references an unregistered configuration",
            )
            for spec in config.sharding_specs:
                check(
                    any(spec.value is v for v in own),
                    f"{what}: node {node.name} shards a value that is not its own",
                )


def expect_rejected(fn, what: str, exc: type = ValueError) -> None:
    try:
        fn()
    except exc:
        return
    check(False, f"{what}: expected ValueError")


def build() -> tuple[ir.Model, dict]:
    x = ir.Value(name="x", shape=ir.Shape([4, 8]), type=FLOAT)
    w = ir.Value(name="w", shape=ir.Shape([4, 8]), type=FLOAT)
    u = ir.Value(name="u", type=FLOAT)  # unknown rank
    cond = ir.Value(name="cond", shape=ir.Shape([]), type=ir.TensorType(ir.DataType.BOOL))

    add = ir.Node("", "Add", [x, w], outputs=[ir.Value(name="a", shape=ir.Shape([4, 8]), type=FLOAT)], name="add")
    a = add.outputs[0]

    # Nested subgraph whose node consumes the outer-scope value ``a``.
    inner = ir.Node("", "Relu", [a], outputs=[ir.Value(name="inner_out", shape=ir.Shape([4, 8]), type=FLOAT)], name="inner")
    then_graph = ir.Graph([], [inner.outputs[0]], nodes=[inner], name="then_branch")
    inner2 = ir.Node("", "Neg", [a], outputs=[ir.Value(name="inner2_out", shape=ir.Shape([4, 8]), type=FLOAT)], name="inner2")
    else_graph = ir.Graph([], [inner2.outputs[0]], nodes=[inner2], name="else_branch")
    if_node = ir.Node(
        "",
        "If",
        [cond],
        [ir.AttrGraph("then_branch", then_graph), ir.AttrGraph("else_branch", else_graph)],
        outputs=[ir.Value(name="b", shape=ir.Shape([4, 8]), type=FLOAT)],
        name="if",
    )
    b = if_node.outputs[0]
    mul = ir.Node("", "Mul", [b, u], outputs=[ir.Value(name="y", type=FLOAT)], name="mul")
    plain = ir.Node("", "Identity", [mul.outputs[0]], outputs=[ir.Value(name="z", type=FLOAT)], name="plain")

    graph = ir.Graph(
        [x, w, u, cond],
        [plain.outputs[0]],
        nodes=[add, if_node, mul, plain],
        opset_imports={"": 18},
        name="main",
    )
    model = ir.Model(graph, ir_version=11)
    return model, dict(x=x, w=w, u=u, a=a, b=b, add=add, inner=inner, inner2=inner2, if_node=if_node, mul=mul, plain=plain)


def main() -> None:
    model, o = build()
    add, inner, inner2, if_node, mul, plain = (o[k] for k in ("add", "inner", "inner2", "if_node", "mul", "plain"))
    x, w, u, a, b = (o[k] for k in ("x", "w", "u", "a", "b"))

    conf0 = model.add_device_configuration("conf0", num_devices=4)
    conf1 = model.add_device_configuration("conf1", device_names=("CPU", "GPU"))

    # Annotate: same value under two configurations, negative axis, unknown rank,
    # an outer-scope value inside a subgraph, and a pure pipeline placement.
    add.shard(x, configuration=conf0, axis=0, num_shards=2, device_indices=(0, 1))
    add.shard(x, configuration=conf0, axis=-1, num_shards=2)
    add.shard(x, configuration=conf1, axis=1, num_shards=2, pipeline_stage=1)
    add.shard(a, configuration=conf0, axis=-2, num_shards=4)
    inner.shard(a, configuration=conf0, axis=0, num_shards=2)
    inner.shard(inner.outputs[0], configuration=conf1, axis=-1, num_shards=2)
    inner2.set_pipeline_stage(conf1, 0)
    mul.shard(u, configuration=conf0, axis=5, num_shards=2)  # unknown rank: any axis accepted
    mul.shard(b, configuration=conf0, axis=0, num_shards=1)
    if_node.set_pipeline_stage(conf0, 2)

    # Rejected requests leave no trace.
    before = add.device_configurations
    expect_rejected(lambda: add.shard(x, configuration=conf0, axis=2, num_shards=2), "axis out of range")
    expect_rejected(lambda: add.shard(x, configuration=conf0, axis=-2, num_shards=2), "repeated axis (negative)")
    expect_rejected(lambda: add.shard(w, configuration=conf0, axis=0, num_shards=0), "num_shards < 1")
    expect_rejected(lambda: add.shard(w, configuration=conf1, axis=0, num_shards=2, pipeline_stage=3), "conflicting stage")
    expect_rejected(lambda: add.shard(b, configuration=conf0, axis=0, num_shards=2), "foreign value")
    check(add.device_configurations is before, "rejected shard() changed the annotations")
    check(plain.device_configurations == (), "un-annotated node has annotations")
    assert_property(model, "original")

    # ---- Model.clone: annotations move to the cloned values, configurations are shared.
    cloned = model.clone()
    assert_property(cloned, "clone")
    assert_property(model, "original after clone")
    c_add, c_if, c_mul, c_plain = list(cloned.graph)
    c_inner = c_if.attributes["then_branch"].as_graph()[0]
    c_inner2 = c_if.attributes["else_branch"].as_graph()[0]
    c_x, c_a = c_add.inputs[0], c_add.outputs[0]
    check(c_x is not x and c_a is not a, "clone shares values with the original")
    check(c_inner.inputs[0] is c_a, "cloned subgraph does not use the cloned outer value")
    check(len(c_add.device_configurations) == 2, "clone lost a configuration entry")
    check([c.configuration for c in c_add.device_configurations] == [conf0, conf1], "clone reordered configurations")
    check(all(c.configuration is r for c, r in zip(c_add.device_configurations, (conf0, conf1))), "configurations not shared by identity")
    specs0 = c_add.device_configurations[0].sharding_specs
    check([s.value for s in specs0] == [c_x, c_a] and all(s.value is v for s, v in zip(specs0, (c_x, c_a))), "spec order/targets changed")
    check([d.axis for d in specs0[0].sharded_dims] == [0, -1], "sharded dims of x changed")
    check(specs0[0].device == (0, 1), "device indices changed")
    check(c_add.device_configurations[1].pipeline_stage == 1, "pipeline stage lost")
    check(len(c_add.sharding_of(c_x)) == 2 and c_add.sharding_of(x) == (), "sharding_of on clone")
    check(len(add.sharding_of(x)) == 2 and add.sharding_of(c_x) == (), "original node was modified by clone")
    check(c_inner.sharding_of(c_a)[0].sharded_dims[0].axis == 0, "subgraph node spec for outer value")
    check(c_inner.sharding_of(c_inner.outputs[0])[0].sharded_dims[0].axis == -1, "subgraph node spec for own output")
    # Configurations without any spec are shared as the very same object.
    check(c_inner2.device_configurations[0] is inner2.device_configurations[0], "stage-only annotation was rebuilt")
    check(c_if.device_configurations[0] is if_node.device_configurations[0], "stage-only annotation was rebuilt")
    check(c_plain.device_configurations == (), "empty annotations")
    check(c_mul.sharding_of(c_mul.inputs[1])[0].sharded_dims[0].axis == 5, "unknown-rank axis")

    # Renaming after the clone: serialized references use the current names.
    c_x.name = "x_renamed"
    c_a.name = "a_renamed"
    proto = serde.serialize_model(cloned)
    names = [s.tensor_name for dc in proto.graph.node[0].device_configurations for s in dc.sharding_spec]
    check(names == ["x_renamed", "a_renamed", "x_renamed"], f"serialized names {names}")
    back = serde.deserialize_model(proto)
    assert_property(back, "round trip of clone")
    check(serde.serialize_model(back).SerializeToString(deterministic=True) == proto.SerializeToString(deterministic=True), "round trip not stable")
    orig_names = [s.tensor_name for dc in serde.serialize_model(model).graph.node[0].device_configurations for s in dc.sharding_spec]
    check(orig_names == ["x", "a", "x"], "original names changed by renaming the clone")

    # Clone of a clone after a graph edit: replacing an input prunes, clone stays consistent.
    c_add.replace_input_with(0, c_add.inputs[1])
    check(c_add.sharding_of(c_x) == (), "annotation survived input replacement")
    cc = cloned.clone()
    assert_property(cc, "clone of edited clone")
    check(len(cc.graph[0].device_configurations) == 2, "entry count after prune")
    check(cc.graph[0].device_configurations[1].sharding_specs == (), "pruned spec reappeared")
    check(cc.graph[0].device_configurations[1].pipeline_stage == 1, "stage lost after prune")

    # Cascade removal on the clone does not affect the original (tuples are per node).
    cc.remove_device_configuration("conf1", cascade=True)
    assert_property(cc, "after cascade")
    assert_property(cloned, "sibling after cascade")

    # ---- Graph.clone of a subgraph alone: the outer-scope value is not remapped.
    sub = inner.graph
    expect_rejected(lambda: sub.clone(), "outer-scope value without permission", RuntimeError)
    sub_clone = sub.clone(allow_outer_scope_values=True)
    s_inner = sub_clone[0]
    check(s_inner.inputs[0] is a, "outer value should be passed through")
    kept, remapped = s_inner.device_configurations
    check(kept is inner.device_configurations[0], "configuration with only unmapped specs must be shared")
    check(kept.sharding_specs[0].value is a, "outer-scope spec must still point at the outer value")
    check(remapped.sharding_specs[0].value is s_inner.outputs[0], "own output spec must be remapped")
    check(remapped.configuration is conf1, "configuration identity")

    # ---- Hand-made annotations: value=None spec, duplicates, dropped value, empty tuple.
    none_spec = _multi_device.ShardingSpec(value=None, device=(0,))
    spec_w = _multi_device.ShardingSpec(value=w, device=(1,))
    spec_x = add.device_configurations[0].sharding_specs[0]
    hand = (
        _multi_device.NodeDeviceConfiguration(configuration=conf0, sharding_specs=(none_spec,)),
        _multi_device.NodeDeviceConfiguration(configuration=conf1, sharding_specs=(spec_w, none_spec, spec_x, spec_w, spec_x)),
        _multi_device.NodeDeviceConfiguration(configuration=None, sharding_specs=()),
    )
    new_x = ir.Value(name="new_x", shape=ir.Shape([4, 8]), type=FLOAT)
    cloner = _cloner.Cloner(attr_map={}, value_map={w: None, x: new_x}, metadata_props={})
    out = cloner._remap_device_configurations(hand)
    check(isinstance(out, tuple) and len(out) == 3, "result shape")
    check(out[0] is hand[0] and out[2] is hand[2], "untouched configurations must be shared")
    check(out[1] is not hand[1] and out[1].configuration is conf1, "touched configuration must be rebuilt")
    got = out[1].sharding_specs
    check(len(got) == 3 and got[0] is none_spec, "dropped/kept specs")
    check(got[1].value is new_x and got[2].value is new_x and got[1] == got[2], "remapped duplicates")
    check(got[1].sharded_dims == spec_x.sharded_dims and got[1].device == spec_x.device, "other fields kept")
    check(hand[1].sharding_specs == (spec_w, none_spec, spec_x, spec_w, spec_x), "input was mutated")
    # Nothing mapped at all: the very same tuple comes back; empty input too.
    untouched = (hand[0], hand[2])
    check(cloner._remap_device_configurations(untouched) is untouched, "unchanged tuple must be returned as is")
    empty: tuple = ()
    check(cloner._remap_device_configurations(empty) is empty, "empty tuple")
    # Identity mapping still rebuilds (a new but equal spec).
    ident = _cloner.Cloner(attr_map={}, value_map={x: x}, metadata_props={})
    out2 = ident._remap_device_configurations((hand[1],))
    check(out2[0] is not hand[1] and out2[0].sharding_specs == hand[1].sharding_specs, "identity mapping")
    check(out2[0].sharding_specs[2] is not spec_x, "identity mapping creates a new spec object")

    # Clone of a node whose only annotation is a value=None spec keeps it as is.
    plain.device_configurations = (hand[0],)
    m2 = model.clone()
    check(m2.graph[3].device_configurations[0] is hand[0], "value=None spec configuration must be shared")
    plain.device_configurations = ()
    assert_property(model.clone(), "final clone")

    print("OK")


if __name__ == "__main__":
    main()
