"""Demo for C03: functions of an IR version 9 model keep their value info through
IR -> proto -> IR (experimental "{domain}::{name}/{value}" entries in the main graph),
serialization is repeatable and has no side effect on the IR.
"""

import logging
import sys

import onnx_ir as ir
from onnx_ir import serde

FLOAT = ir.TensorType(ir.DataType.FLOAT)
INT64 = ir.TensorType(ir.DataType.INT64)


class _Collect(logging.Handler):
    def __init__(self):
        super().__init__(level=logging.DEBUG)
        self.records = []

    def emit(self, record):
        self.records.append(record)


def make_function(domain, name, *, tag, unnamed_input=False, with_subgraph=False):
    """x, y -> Add -> (named typed, unnamed optional) -> Relu (untyped) -> Identity."""
    x = ir.Value(name="x", type=FLOAT, shape=ir.Shape([2, "N"]))
    x.doc_string = f"input x of {tag}"
    y = ir.Value(name="y")  # neither type nor shape: no value info
    inputs = [x, y]
    if unnamed_input:
        inputs.append(ir.Value(name="", type=INT64, shape=ir.Shape([1])))
    add = ir.Node("", "Add", [x, y], num_outputs=2, name=f"add_{tag}")
    add.outputs[0].name = "sum"
    add.outputs[0].type = FLOAT
    add.outputs[0].shape = ir.Shape([2, "N"])
    add.outputs[0].metadata_props["who"] = tag
    add.outputs[1].name = ""  # empty-named optional output with a type: warning, skipped
    add.outputs[1].type = INT64
    relu = ir.Node("", "Relu", [add.outputs[0]], name=f"relu_{tag}")
    relu.outputs[0].name = "a/b"  # value name containing the separator
    relu.outputs[0].shape = ir.Shape([2, 3])  # shape without type: no value info
    nodes = [add, relu]
    last = relu.outputs[0]
    if with_subgraph:
        def branch(graph_name):
            inner = ir.Node("", "Neg", [x], name="inner_neg")  # captured outer-scope value
            inner.outputs[0].name = "inner_out"
            inner.outputs[0].type = FLOAT
            return ir.Graph([], [inner.outputs[0]], nodes=[inner], name=graph_name)

        cond = ir.Value(name="cond", type=ir.TensorType(ir.DataType.BOOL), shape=ir.Shape([]))
        inputs.append(cond)
        if_node = ir.Node(
            "", "If", [cond],
            attributes=[ir.AttrGraph("then_branch", branch("then")),
                        ir.AttrGraph("else_branch", branch("else"))],
            name="if_node",
        )
        if_node.outputs[0].name = "if_out"
        if_node.outputs[0].type = FLOAT
        if_node.outputs[0].shape = ir.Shape([None, 3])
        nodes.append(if_node)
    ident = ir.Node("", "Identity", [last], name=f"id_{tag}")
    ident.outputs[0].name = "out"
    ident.outputs[0].type = FLOAT
    ident.outputs[0].shape = ir.Shape([2, 3])
    nodes.append(ident)
    graph = ir.Graph(inputs, [ident.outputs[0]], nodes=nodes, opset_imports={"": 18})
    return ir.Function(domain, name, graph=graph, attributes=[])


def make_model(ir_version):
    a = ir.Value(name="a", type=FLOAT, shape=ir.Shape([2, 3]))
    b = ir.Value(name="b", type=FLOAT, shape=ir.Shape([2, 3]))
    call = ir.Node("dom", "f", [a, b], name="call")
    call.outputs[0].name = "r"
    call.outputs[0].type = FLOAT
    call.outputs[0].shape = ir.Shape([2, 3])
    graph = ir.Graph([a, b], [call.outputs[0]], nodes=[call], name="main",
                     opset_imports={"": 18, "dom": 1, "dom::f/g": 1, "dom::f": 1})
    functions = [
        make_function("dom", "f", tag="plain", with_subgraph=True),
        # Ambiguous composite names: "dom::f/g::h/..." can be read as function
        # ("dom", "f") with value "g::h/...", but only the real functions are tried.
        make_function("dom::f/g", "h", tag="sep_in_domain", unnamed_input=True),
        make_function("dom::f", "g::h", tag="same_qualified_name"),
        # empty function: no inputs, no nodes, no outputs
        ir.Function("dom", "empty", graph=ir.Graph([], [], nodes=[], opset_imports={"": 18}),
                    attributes=[]),
    ]
    return ir.Model(graph, ir_version=ir_version, functions=functions)


def describe_value(v):
    return (v.name, str(v.type), str(v.shape), dict(v.metadata_props), v.doc_string)


def describe(model):
    out = {}
    for fid, func in model.functions.items():
        vals = [describe_value(v) for v in func.inputs]
        for node in func.all_nodes():
            vals.append((node.op_identifier(), node.name, [i.name if i else None for i in node.inputs]))
            outputs = list(node.outputs)
            while outputs and not outputs[-1].name:
                outputs.pop()  # trailing unnamed optional outputs are not part of a NodeProto
            vals.extend(describe_value(o) for o in outputs)
        vals.append([o.name for o in func.outputs])
        out[fid] = vals
    out["graph"] = [describe_value(v) for v in model.graph.inputs] + [
        describe_value(o) for n in model.graph for o in n.outputs
    ]
    return out


def check(cond, msg):
    if not cond:
        print("FAIL:", msg)
        sys.exit(1)


def main():
    handler = _Collect()
    serde_logger = logging.getLogger("onnx_ir.serde")
    serde_logger.addHandler(handler)
    serde_logger.setLevel(logging.DEBUG)

    for ir_version in (9, 10):
        handler.records.clear()
        model = make_model(ir_version)
        before = describe(model)
        proto1 = ir.to_proto(model)
        n_records_first = len(handler.records)
        first_messages = [(r.levelno, r.getMessage()) for r in handler.records]
        proto2 = ir.to_proto(model)
        check(proto1 == proto2, "serializing twice gives different protos")
        check(proto1.SerializeToString(deterministic=True)
              == proto2.SerializeToString(deterministic=True), "bytes differ")
        check(describe(model) == before, "serialization changed the IR model")
        check([(r.levelno, r.getMessage()) for r in handler.records[n_records_first:]]
              == first_messages, "second serialization logged something else")

        names = [vi.name for vi in proto1.graph.value_info]
        if ir_version == 9:
            expected = []
            for qualified, extra in (("dom::f", True), ("dom::f/g::h", False), ("dom::f::g::h", False)):
                expected.append(f"{qualified}/x")
                if extra:
                    expected.append(f"{qualified}/cond")
                expected.append(f"{qualified}/sum")
                if extra:
                    expected.append(f"{qualified}/if_out")
                expected.append(f"{qualified}/out")
            check(names == expected, f"value_info names in the main graph: {names}")
            check(all(len(f.value_info) == 0 for f in proto1.functions), "function value_info at v9")
            warnings = [m for lvl, m in first_messages if lvl == logging.WARNING]
            unnamed_in = [m for m in warnings if "Value name not set for function input" in m]
            unnamed_out = [m for m in warnings if "Value name not set for node output" in m]
            check(len(unnamed_in) == 1 and unnamed_in[0].startswith(
                "Function 'dom::f/g::h': Value name not set for function input: "), str(unnamed_in))
            check(len(unnamed_out) == 3 and unnamed_out[0].startswith(
                "Function 'dom::f': Value name not set for node output: "), str(unnamed_out))
        else:
            check(names == [], f"main graph value_info at v10: {names}")
            check([vi.name for vi in proto1.functions[0].value_info]
                  == ["x", "cond", "sum", "if_out", "out"], "function value_info at v10")

        back = ir.from_proto(proto1)
        after = describe(back)
        # The unnamed typed input / output cannot carry value info in a proto; everything
        # else must be identical.
        for fid in before:
            exp = [
                (t if not (isinstance(t, tuple) and len(t) == 5 and t[0] == "")
                 else ("", "None", "None", {}, None))
                for t in before[fid]
            ]
            # a shape without a type cannot be serialized
            exp = [
                (t[0], t[1], "None", t[3], t[4])
                if isinstance(t, tuple) and len(t) == 5 and t[1] == "None" else t
                for t in exp
            ]
            got = after[fid]
            check(got == exp, f"ir_version={ir_version} {fid}:\n  {got}\n  {exp}")
        proto3 = ir.to_proto(back)
        check(proto3 == proto1, "proto -> IR -> proto is not the identity")

    # Unusual input 1: no functions at all and an empty value_info list.
    empty = ir.Model(ir.Graph([], [], nodes=[], name="g", opset_imports={"": 18}), ir_version=9)
    p = ir.to_proto(empty)
    check(len(p.graph.value_info) == 0 and ir.to_proto(ir.from_proto(p)) == p, "empty model")

    # Unusual input 2: value info of the main graph that merely looks like the experimental
    # format ("nosuch::fn/v") or names a value the function does not have is ignored by
    # functions and kept out of the way.
    model = make_model(9)
    proto = ir.to_proto(model)
    stray = proto.graph.value_info.add()
    stray.name = "nosuch::fn/x"
    stray.type.tensor_type.elem_type = 7
    stray2 = proto.graph.value_info.add()
    stray2.name = "dom::f/not_a_value"
    stray2.type.tensor_type.elem_type = 7
    # duplicate entry for the same value: the last one wins
    dup = proto.graph.value_info.add()
    dup.name = "dom::f/x"
    dup.type.tensor_type.elem_type = 11
    back = ir.from_proto(proto)
    fx = back.functions[("dom", "f", "")].inputs[0]
    check(fx.dtype == ir.DataType.DOUBLE, f"last duplicate wins: {fx}")
    check(back.functions[("dom::f/g", "h", "")].inputs[0].dtype == ir.DataType.FLOAT, "other function")

    # Unusual input 3: a rejected call - an object that is not an IR object.
    try:
        ir.to_proto(object())
    except NotImplementedError:
        pass
    else:
        check(False, "to_proto(object()) was accepted")

    # Unusual input 4: a failing value (type that cannot be serialized) surfaces as the same
    # exception type, wrapped identically, and leaves the function untouched.
    class BadType:
        dtype = ir.DataType.FLOAT
        denotation = None

    model = make_model(9)
    func = model.functions[("dom", "f", "")]
    func.inputs[0].type = BadType()  # type: ignore[assignment]
    try:
        ir.to_proto(model)
    except Exception as e:  # noqa: BLE001
        chain = []
        while e is not None:
            chain.append(type(e).__name__)
            e = e.__cause__
        check(chain[0] == "SerdeError" and chain[-1] == "TypeError", f"exception chain {chain}")
    else:
        check(False, "unserializable type accepted")
    check(func.inputs[0].name == "x", "function input renamed")

    serde_logger.removeHandler(handler)
    print("OK")


if __name__ == "__main__":
    main()
