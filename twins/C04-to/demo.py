"""C04 demo: proto-backed tensors agree with array-backed tensors through every storage field.

Exercises TensorProtoTensor.tobytes()/tofile()/numpy() for raw_data, int32_data,
int64_data, uint64_data, float_data and double_data, against ir.Tensor built from the
same logical values and against the ONNX reference decoder.
"""

from __future__ import annotations

import io
import math
import os
import tempfile

import ml_dtypes
import numpy as np
import onnx
import onnx.numpy_helper

import onnx_ir as ir
from onnx_ir import serde

DT = ir.DataType
checks = 0


def check(cond, msg):
    global checks
    checks += 1
    if not cond:
        raise SystemExit(f"FAIL: {msg}")


def same_values(a: np.ndarray, b: np.ndarray) -> bool:
    if a.shape != b.shape or a.dtype != b.dtype:
        return False
    # Compare bit patterns so that NaN == NaN and -0.0 != 0.0
    return a.tobytes() == b.tobytes()


def make_proto(dtype: DT, dims, **fields) -> onnx.TensorProto:
    proto = onnx.TensorProto()
    proto.name = "t"
    proto.data_type = int(dtype)
    proto.dims.extend(dims)
    for key, value in fields.items():
        if key == "raw_data":
            proto.raw_data = value
        else:
            getattr(proto, key).extend(value)
    return proto


def file_bytes(tensor, prefix: bytes) -> bytes:
    """tofile() into a regular file at a non-zero position."""
    with tempfile.TemporaryDirectory() as d:
        path = os.path.join(d, "out.bin")
        with open(path, "wb") as f:
            f.write(prefix)
            tensor.tofile(f)
        with open(path, "rb") as f:
            data = f.read()
    check(data[: len(prefix)] == prefix, "prefix kept")
    return data[len(prefix) :]


def buffer_bytes(tensor) -> bytes:
    buf = io.BytesIO()
    tensor.tofile(buf)
    return buf.getvalue()


def agree(proto: onnx.TensorProto, reference: ir.TensorProtocol, label: str):
    t = serde.TensorProtoTensor(proto)
    check(t.dtype == reference.dtype, f"{label}: dtype")
    check(t.shape == reference.shape, f"{label}: shape {t.shape} {reference.shape}")
    check(t.size == reference.size, f"{label}: size")
    expected_nbytes = math.ceil(t.size * t.dtype.bitwidth / 8)
    check(t.nbytes == expected_nbytes == reference.nbytes, f"{label}: nbytes")
    ref_bytes = reference.tobytes()
    got = t.tobytes()
    check(isinstance(got, bytes), f"{label}: bytes type")
    check(got == ref_bytes, f"{label}: tobytes {got!r} != {ref_bytes!r}")
    check(len(got) == expected_nbytes, f"{label}: len(tobytes)")
    check(buffer_bytes(t) == ref_bytes, f"{label}: tofile(BytesIO)")
    check(file_bytes(t, b"\x01\x02\x03") == ref_bytes, f"{label}: tofile(regular file @3)")
    check(same_values(t.numpy(), reference.numpy()), f"{label}: numpy values")
    # Round trip through deserialize/serialize keeps the same bytes
    again = serde.deserialize_tensor(serde.serialize_tensor(t))
    check(again.tobytes() == ref_bytes, f"{label}: round trip")
    # The same tensor re-encoded as raw_data
    raw = serde.TensorProtoTensor(make_proto(t.dtype, proto.dims, raw_data=ref_bytes))
    check(raw.tobytes() == ref_bytes, f"{label}: raw_data tobytes")
    check(same_values(raw.numpy(), reference.numpy()), f"{label}: raw_data numpy")


# ---------------------------------------------------------------- int32_data: 16-bit
shapes16 = [(), (0,), (3,), (1, 3, 1), (0, 2)]
patterns16 = {
    DT.FLOAT16: (np.float16, [np.inf, -np.inf, np.nan, -0.0, 65504.0, 6e-8, 1.5]),
    DT.BFLOAT16: (ml_dtypes.bfloat16, [np.inf, -np.inf, np.nan, -0.0, 3.38e38, 1e-40, 1.5]),
    DT.INT16: (np.int16, [-32768, 32767, -1, 0, 1, 255, -256]),
    DT.UINT16: (np.uint16, [65535, 0, 1, 32768, 255, 256, 4660]),
}
for dtype, (np_type, values) in patterns16.items():
    for shape in shapes16:
        n = math.prod(shape)
        array = np.array((values * 2)[:n], dtype=np_type).reshape(shape)
        # ONNX stores INT16 as signed values, the others as their uint16 bit pattern
        if dtype == DT.INT16:
            entries = [int(v) for v in array.flatten()]
        else:
            entries = [int(v) for v in array.flatten().view(np.uint16)]
        agree(
            make_proto(dtype, shape, int32_data=entries),
            ir.Tensor(array, dtype=dtype),
            f"int32_data/{dtype}/{shape}",
        )

# ---------------------------------------------------------------- int32_data: 8-bit
patterns8 = {
    DT.INT8: (np.int8, [-128, 127, -1, 0, 5]),
    DT.UINT8: (np.uint8, [255, 128, 0, 1, 5]),
    DT.BOOL: (np.bool_, [True, False, True, True, False]),
    DT.FLOAT8E4M3FN: (ml_dtypes.float8_e4m3fn, [448.0, -448.0, np.nan, -0.0, 0.0625]),
    DT.FLOAT8E4M3FNUZ: (ml_dtypes.float8_e4m3fnuz, [240.0, -240.0, np.nan, 0.0, 0.5]),
    DT.FLOAT8E5M2: (ml_dtypes.float8_e5m2, [np.inf, -np.inf, np.nan, -0.0, 57344.0]),
    DT.FLOAT8E5M2FNUZ: (ml_dtypes.float8_e5m2fnuz, [57344.0, -57344.0, np.nan, 0.0, 0.5]),
    DT.FLOAT8E8M0: (ml_dtypes.float8_e8m0fnu, [1.0, 2.0, np.nan, 2.0**127, 2.0**-127]),
}
for dtype, (np_type, values) in patterns8.items():
    for shape in [(), (0,), (5,), (1, 1, 5, 1), (2, 0, 3)]:
        n = math.prod(shape)
        array = np.array(values[:n], dtype=np_type).reshape(shape)
        if dtype == DT.INT8:
            entries = [int(v) for v in array.flatten()]  # signed, e.g. -128
        else:
            entries = [int(v) for v in array.flatten().view(np.uint8)]
        agree(
            make_proto(dtype, shape, int32_data=entries),
            ir.Tensor(array, dtype=dtype),
            f"int32_data/{dtype}/{shape}",
        )

# ---------------------------------------------------------------- int32_data: packed 4/2-bit
sub_byte = {
    DT.INT4: (ml_dtypes.int4, [-8, 7, -1, 0, 3, -4, 1]),
    DT.UINT4: (ml_dtypes.uint4, [15, 0, 8, 7, 1, 9, 2]),
    DT.FLOAT4E2M1: (ml_dtypes.float4_e2m1fn, [6.0, -6.0, 0.5, -0.0, 1.5, 3.0, -1.0]),
    DT.INT2: (ml_dtypes.int2, [-2, 1, -1, 0, 1, -2, 0]),
    DT.UINT2: (ml_dtypes.uint2, [3, 0, 2, 1, 3, 1, 2]),
}
for dtype, (np_type, values) in sub_byte.items():
    for shape in [(), (0,), (1,), (3,), (7,), (1, 5, 1), (2, 0)]:
        n = math.prod(shape)
        array = np.array(values[:n], dtype=np_type).reshape(shape)
        reference = ir.Tensor(array, dtype=dtype)
        packed = reference.tobytes()
        check(len(packed) == math.ceil(n * dtype.bitwidth / 8), f"{dtype}/{shape}: packed length")
        # Each int32 entry carries one already-packed byte
        agree(
            make_proto(dtype, shape, int32_data=list(packed)),
            reference,
            f"int32_data/{dtype}/{shape}",
        )
        # PackedTensor over the same bytes
        pt = ir.PackedTensor(np.frombuffer(packed, dtype=np.uint8), dtype, shape=shape)
        check(pt.tobytes() == packed, f"packed/{dtype}/{shape}")
        check(same_values(pt.numpy(), array), f"packed numpy/{dtype}/{shape}")

# ---------------------------------------------------------------- int32_data: INT32 itself
for shape in [(), (0,), (3,), (1, 3)]:
    n = math.prod(shape)
    array = np.array([-(2**31), 2**31 - 1, -1][:n], dtype=np.int32).reshape(shape)
    agree(
        make_proto(DT.INT32, shape, int32_data=[int(v) for v in array.flatten()]),
        ir.Tensor(array),
        f"int32_data/INT32/{shape}",
    )

# ---------------------------------------------------------------- int64 / uint64 / uint32
for shape in [(), (0,), (3,), (3, 1)]:
    n = math.prod(shape)
    a64 = np.array([-(2**63), 2**63 - 1, -1][:n], dtype=np.int64).reshape(shape)
    agree(
        make_proto(DT.INT64, shape, int64_data=[int(v) for v in a64.flatten()]),
        ir.Tensor(a64),
        f"int64_data/{shape}",
    )
    u64 = np.array([2**64 - 1, 0, 2**63][:n], dtype=np.uint64).reshape(shape)
    agree(
        make_proto(DT.UINT64, shape, uint64_data=[int(v) for v in u64.flatten()]),
        ir.Tensor(u64),
        f"uint64_data/UINT64/{shape}",
    )
    u32 = np.array([2**32 - 1, 0, 2**31][:n], dtype=np.uint32).reshape(shape)
    agree(
        make_proto(DT.UINT32, shape, uint64_data=[int(v) for v in u32.flatten()]),
        ir.Tensor(u32),
        f"uint64_data/UINT32/{shape}",
    )

# ---------------------------------------------------------------- float / double / complex
for shape in [(), (0,), (3,), (1, 3, 1)]:
    n = math.prod(shape)
    f32 = np.array([np.inf, np.nan, -0.0][:n], dtype=np.float32).reshape(shape)
    agree(
        make_proto(DT.FLOAT, shape, float_data=[float(v) for v in f32.flatten()]),
        ir.Tensor(f32),
        f"float_data/FLOAT/{shape}",
    )
    f64 = np.array([-np.inf, 1.7976931348623157e308, 5e-324][:n], dtype=np.float64).reshape(shape)
    agree(
        make_proto(DT.DOUBLE, shape, double_data=[float(v) for v in f64.flatten()]),
        ir.Tensor(f64),
        f"double_data/DOUBLE/{shape}",
    )
    c64 = np.array([1 + 2j, complex(np.inf, -0.0), -3.5j][:n], dtype=np.complex64).reshape(shape)
    agree(
        make_proto(
            DT.COMPLEX64, shape, float_data=[float(v) for v in c64.flatten().view(np.float32)]
        ),
        ir.Tensor(c64),
        f"float_data/COMPLEX64/{shape}",
    )
    c128 = np.array([1 + 2j, complex(-np.inf, 1e-320), -3.5j][:n], dtype=np.complex128).reshape(
        shape
    )
    agree(
        make_proto(
            DT.COMPLEX128, shape, double_data=[float(v) for v in c128.flatten().view(np.float64)]
        ),
        ir.Tensor(c128),
        f"double_data/COMPLEX128/{shape}",
    )

# ---------------------------------------------------------------- ONNX reference decoder
for dtype, np_values in [
    (DT.INT8, np.array([-128, 127, -1], dtype=np.int8)),
    (DT.UINT16, np.array([65535, 0, 258], dtype=np.uint16)),
    (DT.FLOAT16, np.array([1.5, -2.0, np.inf], dtype=np.float16)),
    (DT.UINT32, np.array([2**32 - 1, 7], dtype=np.uint32)),
    (DT.BOOL, np.array([True, False, True], dtype=np.bool_)),
]:
    reference_proto = onnx.helper.make_tensor(
        "r", int(dtype), np_values.shape, np_values.tolist(), raw=False
    )
    check(not reference_proto.HasField("raw_data"), f"reference/{dtype}: typed field used")
    decoded = onnx.numpy_helper.to_array(reference_proto)
    t = serde.TensorProtoTensor(reference_proto)
    check(np.array_equal(t.numpy(), decoded), f"reference/{dtype}: numpy")
    check(t.tobytes() == decoded.astype(decoded.dtype.newbyteorder("<")).tobytes(), f"reference/{dtype}: bytes")
    check(t.tobytes() == onnx.numpy_helper.from_array(np_values).raw_data, f"reference/{dtype}: encoder")

# ---------------------------------------------------------------- unusual inputs
# Rejected calls: string, undefined, external, and an out-of-range element type.
string_proto = make_proto(DT.STRING, (2,), string_data=[b"a", b"bc"])
try:
    serde.TensorProtoTensor(string_proto).tobytes()
except ValueError as e:
    check("string" in str(e), "string message")
else:
    check(False, "string tensor tobytes must be rejected")
check(serde.TensorProtoTensor(string_proto).numpy().tolist() == [b"a", b"bc"], "string values")

undefined_proto = make_proto(DT.UNDEFINED, (1,), int32_data=[1])
for method in ("tobytes", "numpy"):
    try:
        getattr(serde.TensorProtoTensor(undefined_proto), method)()
    except ValueError as e:
        check("UNDEFINED" in str(e), "undefined message")
    else:
        check(False, f"UNDEFINED {method} must be rejected")

external_proto = make_proto(DT.STRING, (1,))
external_proto.data_location = onnx.TensorProto.EXTERNAL
try:
    serde.TensorProtoTensor(external_proto).tobytes()
except ValueError as e:
    # The external check comes before the string check
    check("external" in str(e), f"external message: {e}")
else:
    check(False, "external tensor tobytes must be rejected")

bogus_proto = make_proto(DT.FLOAT, (1,), float_data=[1.0])
bogus_proto.data_type = 99
try:
    serde.TensorProtoTensor(bogus_proto).tobytes()
except ValueError as e:
    check("99" in str(e), f"invalid data type message: {e}")
else:
    check(False, "invalid data_type must be rejected")
bogus_proto.data_location = onnx.TensorProto.EXTERNAL
try:
    serde.TensorProtoTensor(bogus_proto).tobytes()
except ValueError as e:
    check("external" in str(e), "external check precedes the element type lookup")

# A type stored in the wrong field is a bug assertion, not silently encoded.
if __debug__:
    for wrong in (
        make_proto(DT.FLOAT, (1,), int32_data=[1]),
        make_proto(DT.INT64, (1,), uint64_data=[1]),
    ):
        try:
            serde.TensorProtoTensor(wrong).tobytes()
        except AssertionError:
            check(True, "assertion")
        else:
            check(False, "mismatched storage field must trip the assertion")

# Field precedence when several storage fields are populated: raw_data, then float_data,
# int32_data, int64_data, double_data, uint64_data.
multi = make_proto(DT.INT32, (1,), int32_data=[7], int64_data=[9], uint64_data=[11])
check(serde.TensorProtoTensor(multi).tobytes() == np.array([7], "<i4").tobytes(), "int32 first")
multi.raw_data = b"\x2a\x00\x00\x00"
check(serde.TensorProtoTensor(multi).tobytes() == b"\x2a\x00\x00\x00", "raw_data wins")
check(serde.TensorProtoTensor(multi).numpy().tolist() == [42], "raw_data wins in numpy")
multi2 = make_proto(DT.UINT32, (1,), int64_data=[5], uint64_data=[6])
check(serde.TensorProtoTensor(multi2).tobytes() == np.array([5], "<i8").tobytes(), "int64 before uint64")

# Entries wider than the storage unit keep only their low bits (duplicates included).
wide = make_proto(DT.UINT8, (4,), int32_data=[0x1FF, 0x1FF, -1, 256])
check(serde.TensorProtoTensor(wide).tobytes() == b"\xff\xff\xff\x00", "low 8 bits kept")
wide16 = make_proto(DT.UINT16, (2,), int32_data=[0x12345, -2])
check(serde.TensorProtoTensor(wide16).tobytes() == b"\x45\x23\xfe\xff", "low 16 bits kept")

# Empty tensors with no storage field at all, for every non-string element type.
for dtype in DT:
    if dtype in (DT.UNDEFINED, DT.STRING):
        continue
    for shape in [(0,), (2, 0, 3)]:
        empty = serde.TensorProtoTensor(make_proto(dtype, shape))
        check(empty.tobytes() == b"", f"empty/{dtype}/{shape}: bytes")
        check(empty.nbytes == 0 and empty.size == 0, f"empty/{dtype}/{shape}: nbytes")
        check(empty.numpy().shape == shape, f"empty/{dtype}/{shape}: shape")
        check(empty.numpy().dtype == dtype.numpy(), f"empty/{dtype}/{shape}: numpy dtype")
        check(buffer_bytes(empty) == b"", f"empty/{dtype}/{shape}: tofile")

# Element-type tables are mutually consistent.
for dtype in DT:
    if dtype == DT.UNDEFINED:
        continue
    check(DT.from_short_name(dtype.short_name()) == dtype, f"short name {dtype}")
    if dtype == DT.STRING:
        continue
    check(dtype.itemsize == dtype.bitwidth / 8, f"itemsize {dtype}")
    check(DT.from_numpy(dtype.numpy()) == dtype, f"numpy type {dtype}")
    if dtype.bitwidth >= 8:
        check(dtype.numpy().itemsize * 8 == dtype.bitwidth, f"numpy itemsize {dtype}")

print(f"OK ({checks} checks)")
