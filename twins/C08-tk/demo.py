"""Demo for property C08: an interrupted external-data save never damages an existing data file.

Exercises the writer (_ExternalDataWriter.write/_write_tensor, serial and parallel,
with and without a byte budget) through the public API.
"""

from __future__ import annotations

import os
import sys
import tempfile

import numpy as np

import onnx_ir as ir
from onnx_ir import external_data as ed


class Boom(RuntimeError):
    pass


def mem(name: str, n: int, fill: int) -> ir.Tensor:
    return ir.Tensor(np.full((n,), fill, dtype=np.uint8), name=name)


def failing(name: str, n: int) -> ir.LazyTensor:
    def _raise():
        raise Boom(name)

    return ir.LazyTensor(_raise, dtype=ir.DataType.UINT8, shape=ir.Shape([n]), name=name)


def listing(d: str) -> list[str]:
    return sorted(os.listdir(d))


def read(path: str) -> bytes:
    with open(path, "rb") as f:
        return f.read()


def check(cond: bool, msg: str) -> None:
    if not cond:
        print("FAIL:", msg)
        sys.exit(1)


def main() -> None:
    for workers in (None, 1, 4):
        with tempfile.TemporaryDirectory() as d:
            dest = os.path.join(d, "w.data")
            # --- first save: creates the data file (duplicates: the same object twice)
            a = mem("a", 100, 1)
            b = mem("b", 50, 2)
            seen: list[tuple[int, int, str]] = []
            ext = ed.convert_tensors_to_external(
                [a, b, a],
                d,
                "w.data",
                callback=lambda t, info: seen.append((info.index, info.offset, info.filename)),
                max_workers=workers,
            )
            old = read(dest)
            check(old == b"\x01" * 100 + b"\x02" * 50 + b"\x01" * 100, "first save bytes")
            check(sorted(seen) == [(0, 0, "w.data"), (1, 100, "w.data"), (2, 150, "w.data")], "callbacks")
            check(listing(d) == ["w.data"], "no leftovers after first save")
            check([e.offset for e in ext] == [0, 100, 150], "offsets")

            # --- interrupted by a tensor: existing external tensors feed the new file
            try:
                ed.convert_tensors_to_external(
                    [ext[1], mem("c", 10, 3), failing("bad", 8), ext[0]],
                    d,
                    "w.data",
                    max_workers=workers,
                    max_in_flight_bytes=16,  # smaller than some tensors: oversized reservations
                )
            except Boom:
                pass
            else:
                check(False, "failing tensor must propagate")
            check(read(dest) == old, "destination unchanged after tensor failure")
            check(listing(d) == ["w.data"], "no temp file/dir after tensor failure")
            check(ext[0].numpy().tobytes() == b"\x01" * 100, "ext[0] still valid")
            check(ext[1].numpy().tobytes() == b"\x02" * 50, "ext[1] still valid")
            ext[0].release()
            ext[1].release()

            # --- interrupted by the callback (second invocation)
            calls = []

            def cb(t, info):
                calls.append(info.index)
                if len(calls) == 2:
                    raise Boom("callback")

            try:
                ed.convert_tensors_to_external(
                    [mem("x", 20, 9), ext[2], mem("y", 20, 8)], d, "w.data", callback=cb, max_workers=workers
                )
            except Boom:
                pass
            else:
                check(False, "failing callback must propagate")
            check(read(dest) == old, "destination unchanged after callback failure")
            check(listing(d) == ["w.data"], "no temp file/dir after callback failure")
            check(ext[2].numpy().tobytes() == b"\x01" * 100, "ext[2] still valid")
            ext[2].release()

            # --- rejected call: invalid option, nothing is touched
            try:
                ed.convert_tensors_to_external([a], d, "w.data", max_workers=0)
            except ValueError:
                pass
            else:
                check(False, "max_workers=0 must be rejected")
            check(read(dest) == old and listing(d) == ["w.data"], "rejected call leaves file alone")

            # --- sharded save never changes a pre-existing file
            model = ir.Model(
                ir.Graph([], [], nodes=[], initializers=[
                    ir.Value(name="a", const_value=mem("a", 100, 1)),
                    ir.Value(name="b", const_value=mem("b", 50, 2)),
                ], name="g"),
                ir_version=10,
            )
            shard2 = os.path.join(d, "s-00002-of-00002.data")
            with open(shard2, "wb") as f:
                f.write(b"precious")
            try:
                ed.unload_from_model(model, d, "s.data", max_shard_size_bytes=100, max_workers=workers)
            except FileExistsError:
                pass
            else:
                check(False, "sharded save over an existing shard must be refused")
            check(read(shard2) == b"precious", "existing shard untouched")
            check(listing(d) == ["s-00002-of-00002.data", "w.data"], "no shard was written")
            check(not isinstance(model.graph.initializers["a"].const_value, ir.ExternalTensor), "model unchanged")
            os.remove(shard2)
            ed.unload_from_model(model, d, "s.data", max_shard_size_bytes=100, max_workers=workers)
            check(read(os.path.join(d, "s-00001-of-00002.data")) == b"\x01" * 100, "shard 1")
            check(read(shard2) == b"\x02" * 50, "shard 2")
            check(read(dest) == old, "single-file destination unaffected by sharded save")

            # --- successful overwrite: complete new bytes, backing tensors invalidated, others not
            other = ed.convert_tensors_to_external([mem("o", 4, 7)], d, "other.data", max_workers=workers)[0]
            new = ed.convert_tensors_to_external(
                [ext[1], other, ext[1]], d, "w.data", max_workers=workers
            )
            check(read(dest) == b"\x02" * 50 + b"\x07" * 4 + b"\x02" * 50, "complete new bytes")
            check(not any(n.startswith(".") for n in listing(d)), "no leftovers after success")
            check(other.numpy().tobytes() == b"\x07" * 4, "tensor of another file still valid")
            other.release()
            try:
                ext[1].numpy()
            except Exception:
                pass
            else:
                check(False, "tensor backed by replaced file must be invalidated")
            check(new[2].numpy().tobytes() == b"\x02" * 50, "new tensor reads new file")
            new[2].release()

            # --- empty input: replaces the file by an empty one, atomically
            ed.convert_tensors_to_external([], d, "w.data", max_workers=workers)
            check(read(dest) == b"", "empty save gives empty file")
            check(not any(n.startswith(".") for n in listing(d)), "no leftovers after empty save")
    print("OK")


if __name__ == "__main__":
    main()
