"""Demo for C11: graph iteration stays well defined while the graph is edited.

Exercises DoublyLinkedSet.remove / insert_after / insert_before (value -> box lookup)
and Graph.remove / Function.remove (validation before detaching) through the public API.
"""
import onnx_ir as ir
from onnx_ir._linked_list import DoublyLinkedSet


def mk(name, inputs=(), **kw):
    return ir.Node("", "Op", inputs=list(inputs), name=name, **kw)


def names(it):
    return [n.name for n in it]


def expect(exc, fn, msg_part=None):
    try:
        fn()
    except exc as e:  # exact type or subclass, message checked
        if msg_part is not None:
            assert msg_part in str(e), (msg_part, str(e))
        return str(e)
    raise AssertionError(f"{exc.__name__} not raised")


def check_consistent(g, expected):
    assert names(g) == expected, (names(g), expected)
    assert names(reversed(g)) == expected[::-1]
    assert len(g) == len(expected)
    for i in range(len(expected)):
        assert g[i].name == expected[i]
        assert g[i - len(expected)].name == expected[i]
    assert names(g[:]) == expected
    expect(IndexError, lambda: g[len(expected)])
    expect(IndexError, lambda: g[-len(expected) - 1])
    for n in list(g):
        assert n in g and n.graph is not None


# ---------------------------------------------------------------- raw container
class Obj:
    def __init__(self, n):
        self.n = n

    def __repr__(self):
        return f"Obj({self.n})"


a, b, c, d, e = (Obj(i) for i in range(5))
s = DoublyLinkedSet([a, b, c])
stranger = Obj(99)
assert expect(ValueError, lambda: s.remove(stranger)) == "Value Obj(99) is not in the list"
assert expect(ValueError, lambda: s.insert_after(stranger, [d])) == "Value Obj(99) is not in the list"
assert expect(ValueError, lambda: s.insert_before(stranger, [d])) == "Value Obj(99) is not in the list"
# a value equal-by-id lookup only: None is never an element
expect(ValueError, lambda: s.remove(None))
# rejected calls must not have consumed / changed anything
consumed = []


def gen():
    consumed.append(1)
    yield d


expect(ValueError, lambda: s.insert_after(stranger, gen()))
assert consumed == [] and list(s) == [a, b, c] and len(s) == 3

# empty inputs are no-ops
s.insert_after(b, [])
s.insert_before(b, iter(()))
assert list(s) == [a, b, c]

# iterate and edit: remove current, insert after / before current, move later node
seen = []
it2 = reversed(s)
r_first = next(it2)  # c
for x in s:
    seen.append(x)
    if x is a and len(seen) == 1:
        s.insert_before(a, [d])  # before current: skipped by this iterator
        s.insert_after(a, [e])  # after current: visited
    elif x is e:
        s.remove(e)  # current removed: resumes with b
        expect(ValueError, lambda: s.remove(e))  # double remove rejected
    elif x is b:
        s.insert_after(c, [a])  # move an earlier node after a later one: visited again
assert seen == [a, e, b, c, a], seen
assert list(s) == [d, b, c, a]
assert r_first is c and list(it2) == [b, d]  # independent reverse iterator, a moved behind it
# duplicates in the inserted values: last position wins, no duplicates in the set
s.insert_before(b, [e, e, c, e])
assert list(s) == [d, c, e, b, a] and len(s) == 5
# inserting the anchor itself
s.insert_after(b, [b])
s.insert_before(b, [b])
assert list(s) == [d, c, e, b, a] and list(reversed(s)) == [a, b, e, c, d]
assert s[0] is d and s[-1] is a and s[2] is e and s[-4] is c

# ---------------------------------------------------------------- Graph level
x = ir.Value(name="x")
n0 = mk("n0", [x])
n1 = mk("n1", [n0.outputs[0]])
n2 = mk("n2", [n1.outputs[0]])
n3 = mk("n3", [n2.outputs[0]])
n4 = mk("n4", [x])
g = ir.Graph([x], [n3.outputs[0]], nodes=[n0, n1, n2, n3, n4], name="g")
check_consistent(g, ["n0", "n1", "n2", "n3", "n4"])

other = mk("other", [x])
og = ir.Graph([], [], nodes=[other], name="og")
free = mk("free", [x])

# rejected removals: nothing must change (validation happens before any detaching)
expect(ValueError, lambda: g.remove(free), "does not belong to this graph")
expect(ValueError, lambda: g.remove([n4, other]), "does not belong to this graph")
expect(ValueError, lambda: g.remove([n4, n4, free, n0]), "does not belong to this graph")
expect(ValueError, lambda: g.remove(n1, safe=True))  # still used by n2
expect(ValueError, lambda: g.remove([n4, n3], safe=True))  # n3 feeds a graph output
expect(ValueError, lambda: g.remove([n4, n1], safe=True))
expect(TypeError, lambda: g.remove([[n4]]))  # unhashable element
check_consistent(g, ["n0", "n1", "n2", "n3", "n4"])
assert all(n.graph is g for n in (n0, n1, n2, n3, n4)) and other.graph is og and free.graph is None
assert n4.inputs[0] is x and n1.inputs[0] is n0.outputs[0]
# rejected inserts with anchors that are not in this graph
expect(ValueError, lambda: g.insert_after(free, [mk("z")]))
expect(ValueError, lambda: g.insert_before(other, free))
assert free.graph is None
check_consistent(g, ["n0", "n1", "n2", "n3", "n4"])

# empty removal and removal with duplicates / generator input
g.remove([])
g.remove(iter(()), safe=True)
check_consistent(g, ["n0", "n1", "n2", "n3", "n4"])

# several iterators, both directions, edits in between
fwd1, fwd2, bwd = iter(g), iter(g), reversed(g)
assert next(fwd1) is n0 and next(fwd1) is n1  # fwd1 at n1
assert next(fwd2) is n0  # fwd2 at n0
assert next(bwd) is n4  # bwd at n4
p = mk("p", [x])
q = mk("q", [x])
g.insert_before(n1, [p])  # before fwd1's position, after fwd2's
g.insert_after(n1, q)  # single node form
g.remove(n for n in (n4, n4))  # generator with duplicates; bwd's current node removed
assert n4.graph is None and n4 not in g
assert n4.inputs[0] is x  # unsafe removal keeps inputs
assert names(fwd1) == ["q", "n2", "n3"]
assert names(fwd2) == ["p", "n1", "q", "n2", "n3"]
assert names(bwd) == ["n3", "n2", "q", "n1", "p", "n0"]
check_consistent(g, ["n0", "p", "n1", "q", "n2", "n3"])

# safe removal of a set: inputs detached; current node removed during for-loop
seen = []
for n in g:
    seen.append(n.name)
    if n is p and q in g:
        g.remove([p, q], safe=True)  # current and a later node
        assert p.inputs[0] is None and q.inputs[0] is None and p.graph is None
    if n is n1:
        g.insert_after(n1, p)  # re-insert removed node after the current position
        g.append(n4)  # n4 comes back at the end
assert seen == ["n0", "p", "n1", "p", "n2", "n3", "n4"], seen
check_consistent(g, ["n0", "n1", "p", "n2", "n3", "n4"])

# sort while an iterator is live: terminates, yields only members
it = iter(g)
assert next(it) is n0
g.insert_before(n0, [n3])  # break topological order
g.sort()
rest = list(it)
assert all(n.graph is g for n in rest)
order = names(g)
assert order.index("n0") < order.index("n1") < order.index("n2") < order.index("n3")
check_consistent(g, order)

# ---------------------------------------------------------------- nesting + Function
iv = ir.Value(name="iv")
s0 = mk("s0", [iv])
s1 = mk("s1", [s0.outputs[0]])
sub = ir.Graph([iv], [s1.outputs[0]], nodes=[s0, s1], name="sub")
f0 = mk("f0", [])
f_if = ir.Node("", "If", inputs=[f0.outputs[0]], attributes=[ir.AttrGraph("then_branch", sub)], name="f_if")
f1 = mk("f1", [f_if.outputs[0]])
fg = ir.Graph([], [f1.outputs[0]], nodes=[f0, f_if, f1], name="fg")
fn = ir.Function("dom", "fn", "", graph=fg, attributes=[])
assert names(fn.all_nodes()) == ["f0", "f_if", "s0", "s1", "f1"]
expect(ValueError, lambda: fn.remove(s0))  # belongs to the subgraph, not to the function body
expect(ValueError, lambda: fn.remove([f0, s1]))
expect(ValueError, lambda: sub.remove(f0))
assert names(fn) == ["f0", "f_if", "f1"] and names(sub) == ["s0", "s1"] and f0.graph is fg
seen = []
s_new = mk("s_new", [iv])
for n in fn.all_nodes():
    seen.append(n.name)
    if n is s0:
        sub.remove(s0)  # remove current node of the nested iterator
        sub.insert_after(s1, s_new)  # insert after a later node
        fn.insert_before(f0, mk("early"))  # before the position of the outer iterator
        expect(ValueError, lambda: sub.insert_after(s0, mk("never")))  # anchor gone
assert seen == ["f0", "f_if", "s0", "s1", "s_new", "f1"], seen
assert names(fn) == ["early", "f0", "f_if", "f1"] and names(sub) == ["s1", "s_new"]
assert len(fn) == 4 and fn[0].name == "early" and fn[-1] is f1 and len(sub) == 2
fn.remove(fn[0], safe=True)
assert names(reversed(fn)) == ["f1", "f_if", "f0"]

print("OK")
