"""Demo for C10: external tensor reads never escape the model directory.

Exercises every read entry point (numpy, __array__, tobytes, tofile, serialization)
on accepted and rejected locations, with several spellings of the base directory.
"""
import io
import os
import sys
import tempfile

import numpy as np

import onnx_ir as ir
from onnx_ir import serde

DATA = np.arange(6, dtype=np.float32)
PAD = b"\xff" * 8  # the tensor starts at offset 8 inside the file


def make(location, base_dir, *, offset=8, length=24, shape=(6,), dtype=ir.DataType.FLOAT):
    return ir.ExternalTensor(
        location, offset, length, dtype, shape=ir.Shape(shape), name="t", base_dir=base_dir
    )


def read_all(t):
    """Read through all entry points; return the list of byte strings obtained."""
    out = [t.numpy().tobytes(), np.asarray(t).tobytes(), np.array(t, dtype=np.float32).tobytes(), t.tobytes()]
    buf = io.BytesIO()
    t.tofile(buf)
    out.append(buf.getvalue())
    with tempfile.TemporaryFile() as real:  # regular file: kernel copy path
        real.write(b"hdr")
        t.tofile(real)
        real.seek(0)
        assert real.read(3) == b"hdr"
        out.append(real.read())
    proto = serde.serialize_tensor(ir.Tensor(t.numpy(), name="c"))
    out.append(proto.raw_data)
    return out


ENTRY_POINTS = {
    "numpy": lambda t: t.numpy(),
    "array": lambda t: np.asarray(t),
    "array_dtype": lambda t: t.__array__(np.float64),
    "tobytes": lambda t: t.tobytes(),
    "tofile_buf": lambda t: t.tofile(io.BytesIO()),
    "tofile_dev": lambda t: _tofile_real(t),
}


def _tofile_real(t):
    with tempfile.TemporaryFile() as f:
        t.tofile(f)


def expect_rejected(location, base_dir, what, **kw):
    for name, fn in ENTRY_POINTS.items():
        t = make(location, base_dir, **kw)  # fresh tensor: nothing cached
        try:
            fn(t)
        except ValueError as e:
            assert "outside the base directory" in str(e) or "hard link" in str(e), (what, name, e)
        else:
            raise AssertionError(f"{what}: {name} was not rejected for {location!r} in {base_dir!r}")
        assert t.raw is None, (what, name)


def main():
    with tempfile.TemporaryDirectory() as root:
        root = os.path.realpath(root)
        base = os.path.join(root, "model")
        sibling = os.path.join(root, "model_evil")  # shares the base's name as a prefix
        os.makedirs(os.path.join(base, "sub"))
        os.makedirs(sibling)
        payload = PAD + DATA.tobytes() + PAD
        for p in (os.path.join(base, "w.bin"), os.path.join(base, "sub", "w.bin"),
                  os.path.join(sibling, "w.bin"), os.path.join(root, "secret.bin")):
            with open(p, "wb") as f:
                f.write(payload)
        os.symlink(os.path.join(base, "w.bin"), os.path.join(base, "in_link.bin"))
        os.symlink(os.path.join(root, "secret.bin"), os.path.join(base, "out_link.bin"))
        os.symlink(sibling, os.path.join(base, "out_dir"))
        os.symlink(base, os.path.join(root, "alias"))  # base directory reached through a symlink
        with open(os.path.join(base, "hl_src.bin"), "wb") as f:
            f.write(payload)
        os.link(os.path.join(base, "hl_src.bin"), os.path.join(base, "hl.bin"))

        old_cwd = os.getcwd()
        os.chdir(root)
        try:
            bases = [base, base + os.sep, "model", "./model/", os.path.join(root, "alias"),
                     os.path.join(base, "sub", ".."), __import__("pathlib").Path(base)]
            # accepted locations, all spellings of the base, all entry points
            for b in bases:
                for loc in ("w.bin", "./w.bin", "sub/../w.bin", "sub/w.bin", "sub//w.bin", "in_link.bin"):
                    t = make(loc, b)
                    got = read_all(t)
                    assert all(g == DATA.tobytes() for g in got), (b, loc)
                    # repeated reads go through the cached map and give the same bytes
                    assert t.tobytes() == DATA.tobytes() and t.numpy() is t.numpy()
                    t.release()
                    assert t.raw is None
                    assert t.tobytes() == DATA.tobytes()  # reloads after release
                    t.release()
            # rejected locations
            for b in bases:
                expect_rejected("../secret.bin", b, "parent traversal")
                expect_rejected("sub/../../secret.bin", b, "nested traversal")
                expect_rejected(os.path.join(root, "secret.bin"), b, "absolute path")
                expect_rejected("../model_evil/w.bin", b, "sibling with prefix name")
                expect_rejected(os.path.join(sibling, "w.bin"), b, "absolute sibling")
                expect_rejected("out_link.bin", b, "symlink to outside")
                expect_rejected("out_dir/w.bin", b, "symlinked directory to outside")
                expect_rejected("hl.bin", b, "hard link")
                expect_rejected("hl_src.bin", b, "hard link (other name)")
            # unusual: empty tensor with an escaping location is still rejected, nothing mapped
            for fn_name in ("numpy", "array", "tobytes"):
                t = make("../secret.bin", base, offset=0, length=0, shape=(0,))
                try:
                    ENTRY_POINTS[fn_name](t)
                except ValueError:
                    pass
                else:
                    raise AssertionError("empty tensor escaped: " + fn_name)
            t = make("w.bin", base, offset=0, length=0, shape=(0,))
            assert t.tobytes() == b"" and t.numpy().shape == (0,) and t.raw is None
            # unusual: offset None / length None (whole file interpreted from 0)
            with open(os.path.join(base, "plain.bin"), "wb") as f:
                f.write(DATA.tobytes())
            t = make("plain.bin", base, offset=None, length=None)
            assert all(g == DATA.tobytes() for g in read_all(t))
            t.release()
            # unusual: re-pointing the base directory of an already loaded tensor drops the map
            t = make("w.bin", base)
            assert t.tobytes() == DATA.tobytes()
            t.base_dir = os.path.join(base, "sub")
            assert t.raw is None
            assert t.tobytes() == DATA.tobytes()  # sub/w.bin
            t.base_dir = root  # root/w.bin does not exist: fails, but not by escaping
            try:
                t.numpy()
            except FileNotFoundError:
                pass
            else:
                raise AssertionError("expected FileNotFoundError")
            # invalidated tensor: refused before the containment check
            t = make("w.bin", base)
            t.invalidate()
            for name, fn in ENTRY_POINTS.items():
                try:
                    fn(t)
                except ValueError as e:
                    assert "invalidated" in str(e), e
                else:
                    raise AssertionError("invalidated tensor read: " + name)
            # short file: tofile reports an OSError with the failing offset
            t = make("w.bin", base, offset=8, length=4096, shape=(1024,))
            try:
                t.tofile(io.BytesIO())
            except OSError as e:
                assert "shorter than expected" in str(e) and "offset 40" in str(e), e
            else:
                raise AssertionError("short file not reported")

            # a model loaded from a file gets the model's directory, also for a bare file name
            ext = make("w.bin", "")
            v = ir.Value(name="w", shape=ext.shape, type=ir.TensorType(ext.dtype), const_value=ext)
            graph = ir.Graph([], [], nodes=[], initializers=[v], opset_imports={"": 20}, name="g")
            model = ir.Model(graph, ir_version=10)
            ir.save(model, os.path.join(base, "m.onnx"))
            os.chdir(base)
            for spelling, expected in (("m.onnx", os.curdir), ("./m.onnx", "."),
                                       (os.path.join(base, "m.onnx"), base),
                                       ("../model/m.onnx", "../model"), ("sub/../m.onnx", "sub/..")):
                loaded = ir.load(spelling)
                lt = loaded.graph.initializers["w"].const_value
                assert isinstance(lt, ir.ExternalTensor)
                assert lt.base_dir and os.fspath(lt.base_dir) == expected, (spelling, lt.base_dir)
                assert lt.tobytes() == DATA.tobytes()
                lt.release()
        finally:
            os.chdir(old_cwd)
    print("demo OK")
    return 0


if __name__ == "__main__":
    sys.exit(main())
