"""C02 demo: attribute protos survive proto -> IR -> proto (serialize side of attributes)."""
import logging
import sys

import onnx
from onnx import TensorProto, helper

import onnx_ir as ir
from onnx_ir import serde

failures = []


def check(cond, msg):
    if not cond:
        failures.append(msg)
        print("FAIL:", msg)


class _Capture(logging.Handler):
    def __init__(self):
        super().__init__(level=logging.WARNING)
        self.messages = []

    def emit(self, record):
        self.messages.append(record.getMessage())


capture = _Capture()
logging.getLogger("onnx_ir.serde").addHandler(capture)


def roundtrip_attr(proto):
    out = serde.to_proto(serde.from_proto(proto))
    check(out == proto, f"attribute {proto.name!r} changed:\n{proto}\n--->\n{out}")
    check(
        out.SerializeToString(deterministic=True) == proto.SerializeToString(deterministic=True),
        f"attribute {proto.name!r} bytes changed",
    )
    return out


def tensor_type(elem, dims, denotations=None, type_denotation=""):
    tp = helper.make_tensor_type_proto(elem, dims)
    if denotations:
        for d, den in zip(tp.tensor_type.shape.dim, denotations):
            if den:
                d.denotation = den
    if type_denotation:
        tp.denotation = type_denotation
    return tp


# ---- scalar / list kinds -------------------------------------------------------------------
a = helper.make_attribute("i", 7, doc_string="an int")
roundtrip_attr(a)
roundtrip_attr(helper.make_attribute("f", 0.5))
roundtrip_attr(helper.make_attribute("s", "héllo wörld", doc_string="utf-8"))
roundtrip_attr(helper.make_attribute("s_empty", ""))
roundtrip_attr(helper.make_attribute("ints", [1, 1, -3, 2**40]))
roundtrip_attr(helper.make_attribute("floats", [1.0, 1.0, -0.25]))
roundtrip_attr(helper.make_attribute("strings", ["a", "a", "", "ü"]))
# empty lists need an explicit type
for name, ty in [
    ("ints0", onnx.AttributeProto.INTS),
    ("floats0", onnx.AttributeProto.FLOATS),
    ("strings0", onnx.AttributeProto.STRINGS),
    ("tensors0", onnx.AttributeProto.TENSORS),
    ("graphs0", onnx.AttributeProto.GRAPHS),
    ("tps0", onnx.AttributeProto.TYPE_PROTOS),
]:
    e = onnx.AttributeProto(name=name, type=ty)
    roundtrip_attr(e)

# ---- unusual: a STRING attribute whose payload is not UTF-8 --------------------------------
capture.messages.clear()
bad = onnx.AttributeProto(name="blob", type=onnx.AttributeProto.STRING, s=b"\xff\xfe\x00raw")
out = roundtrip_attr(bad)
check(out.s == b"\xff\xfe\x00raw", "raw bytes payload altered")
check(
    any("invalid UTF-8" in m for m in capture.messages), "no warning when decoding invalid bytes"
)
check(
    any("'blob'" in m and "instead bytes" in m for m in capture.messages),
    f"no warning naming the attribute when writing bytes: {capture.messages}",
)
# bytes subclass is not `type(value) is bytes`: it has no .encode -> rejected, wrapped in SerdeError
class MyBytes(bytes):
    pass


try:
    serde.serialize_attribute(ir.Attr("sub", ir.AttributeType.STRING, MyBytes(b"x")))
    check(False, "bytes subclass accepted")
except serde.SerdeError as e:
    check(isinstance(e.__cause__, AttributeError), f"unexpected cause {e.__cause__!r}")
    check("serialize_attribute_into" in str(e), f"unexpected message {e}")

# ---- tensors / graphs ----------------------------------------------------------------------
t = helper.make_tensor("t", TensorProto.FLOAT, [2], [1.0, 2.0])
roundtrip_attr(helper.make_attribute("t", t))
roundtrip_attr(helper.make_attribute("ts", [t, t]))

# ---- TYPE_PROTO / TYPE_PROTOS --------------------------------------------------------------
tp_plain = tensor_type(TensorProto.FLOAT, [2, "N", None], ["DATA_BATCH", "", "DATA_CHANNEL"], "IMAGE")
tp_noshape = helper.make_tensor_type_proto(TensorProto.INT64, None)
tp_scalar = helper.make_tensor_type_proto(TensorProto.BOOL, [])
tp_nested = helper.make_optional_type_proto(
    helper.make_sequence_type_proto(
        helper.make_sequence_type_proto(tensor_type(TensorProto.FLOAT16, ["a", 3], ["", "X"]))
    )
)
tp_nested.denotation = "OUTER"
tp_nested.optional_type.elem_type.denotation = "MIDDLE"
tp_sparse = helper.make_sparse_tensor_type_proto(TensorProto.DOUBLE, [4, "nnz"])
all_tps = [tp_plain, tp_noshape, tp_scalar, tp_nested, tp_sparse]
for i, tp in enumerate(all_tps):
    out = roundtrip_attr(onnx.AttributeProto(name=f"tp{i}", type=onnx.AttributeProto.TYPE_PROTO, tp=tp))
    check(out.HasField("tp"), f"tp{i} lost its tp field")
check(
    not roundtrip_attr(
        onnx.AttributeProto(name="tpx", type=onnx.AttributeProto.TYPE_PROTO, tp=tp_noshape)
    ).tp.tensor_type.HasField("shape"),
    "unknown-rank type acquired a shape",
)
check(
    roundtrip_attr(
        onnx.AttributeProto(name="tpy", type=onnx.AttributeProto.TYPE_PROTO, tp=tp_scalar)
    ).tp.tensor_type.HasField("shape"),
    "rank-0 type lost its (empty) shape",
)
# list with duplicates, nested and an entry that carries no type at all
tps = onnx.AttributeProto(name="tps", type=onnx.AttributeProto.TYPE_PROTOS)
for tp in [tp_nested, tp_plain, tp_plain, onnx.TypeProto(), tp_sparse, tp_noshape]:
    tps.type_protos.add().CopyFrom(tp)
out = roundtrip_attr(tps)
check(len(out.type_protos) == 6, "type_protos length changed")
check(out.type_protos[3].WhichOneof("value") is None, "typeless entry acquired a value")

# unusual: TYPE_PROTO whose tp was never set -> nothing must be materialised on the way back
capture.messages.clear()
bare = onnx.AttributeProto(name="bare", type=onnx.AttributeProto.TYPE_PROTO)
out = roundtrip_attr(bare)
check(not out.HasField("tp"), "unset tp became set")
check(capture.messages == [], f"unexpected warnings {capture.messages}")

# unusual: a shape without a type cannot be written: warning, proto left without a type
capture.messages.clear()
shape_only = ir.AttrTypeProto("shape_only", ir.TypeAndShape(None, ir.Shape([1, "n"])))
out = serde.serialize_attribute(shape_only)
check(out.type == onnx.AttributeProto.TYPE_PROTO, "type tag missing")
check(out.tp.WhichOneof("value") is None and not out.HasField("tp"), "tp materialised for shape only")
check(sum("is not known" in m for m in capture.messages) == 1, f"warnings: {capture.messages}")
capture.messages.clear()
out = serde.serialize_attribute(
    ir.AttrTypeProtos(
        "shape_only_s",
        [ir.TypeAndShape(None, ir.Shape([1])), ir.TypeAndShape(ir.TensorType(ir.DataType.INT8), None)],
    )
)
check(len(out.type_protos) == 2, "entries lost")
check(out.type_protos[0].WhichOneof("value") is None, "typeless entry got a value")
check(out.type_protos[1].tensor_type.elem_type == TensorProto.INT8, "elem type lost")
check(not out.type_protos[1].tensor_type.HasField("shape"), "shape invented")
check(sum("is not known" in m for m in capture.messages) == 1, f"warnings: {capture.messages}")

# ---- rejected: sparse tensor attributes, both directions, and partial state on failure ----
sp = onnx.AttributeProto(name="sp", type=onnx.AttributeProto.SPARSE_TENSOR)
try:
    serde.from_proto(sp)
    check(False, "sparse attribute accepted")
except serde.SerdeError as e:
    check(isinstance(e.__cause__, NotImplementedError), f"cause {e.__cause__!r}")
target = onnx.AttributeProto()
try:
    serde.serialize_attribute_into(
        target, ir.Attr("sp", ir.AttributeType.SPARSE_TENSORS, [object()], doc_string="d")
    )
    check(False, "sparse attribute serialized")
except serde.SerdeError as e:
    check(isinstance(e.__cause__, NotImplementedError), f"cause {e.__cause__!r}")
check(target.name == "sp" and target.doc_string == "d", "name/doc not written before the failure")
check(target.type == onnx.AttributeProto.UNDEFINED, "type tag written despite the failure")
# failure half-way through a TYPE_PROTOS list: earlier entries stay, tag is not written
target = onnx.AttributeProto()
try:
    serde.serialize_attribute_into(
        target,
        ir.Attr(
            "half",
            ir.AttributeType.TYPE_PROTOS,
            [ir.TypeAndShape(ir.TensorType(ir.DataType.FLOAT), ir.Shape([2])), "not a type"],
        ),
    )
    check(False, "bad entry accepted")
except serde.SerdeError as e:
    check(isinstance(e.__cause__, AttributeError), f"cause {e.__cause__!r}")
check(len(target.type_protos) == 2, f"expected 2 slots, got {len(target.type_protos)}")
check(target.type_protos[0].tensor_type.shape.dim[0].dim_value == 2, "first entry not written")
check(target.type == onnx.AttributeProto.UNDEFINED, "tag written despite failure")

# ---- whole model: function with reference attributes of every kind + subgraph --------------
then_g = helper.make_graph(
    [helper.make_node("Add", ["x", "x"], ["then_out"], name="inner_add")],
    "then_g", [], [helper.make_tensor_value_info("then_out", TensorProto.FLOAT, [2])],
)
else_g = helper.make_graph(
    [helper.make_node("Identity", ["x"], ["else_out"], name="inner_id")],
    "else_g", [], [helper.make_tensor_value_info("else_out", TensorProto.FLOAT, [2])],
)
fn_node = helper.make_node("Custom", ["fx"], ["fy"], name="body", domain="my.domain")
for i, (kind, nm) in enumerate(
    [
        (onnx.AttributeProto.INT, "ri"),
        (onnx.AttributeProto.STRING, "rs"),
        (onnx.AttributeProto.TYPE_PROTO, "rtp"),
        (onnx.AttributeProto.TYPE_PROTOS, "rtps"),
        (onnx.AttributeProto.GRAPH, "rg"),
    ]
):
    ra = fn_node.attribute.add()
    ra.name = nm
    ra.ref_attr_name = f"outer_{nm}"
    ra.type = kind
    if i % 2:
        ra.doc_string = f"ref doc {i}"
fn_node.attribute.append(helper.make_attribute("plain", [1, 2]))
fn_node.attribute.append(
    onnx.AttributeProto(name="plain_tp", type=onnx.AttributeProto.TYPE_PROTO, tp=tp_nested)
)
func = helper.make_function(
    "my.domain", "F", ["fx"], ["fy"], [fn_node],
    [helper.make_opsetid("", 18), helper.make_opsetid("my.domain", 1)],
    attributes=["outer_ri", "outer_rs", "outer_rtp", "outer_rtps", "outer_rg"],
)
default_attr = func.attribute_proto.add()
default_attr.CopyFrom(helper.make_attribute("with_default", "dflt"))
main_nodes = [
    helper.make_node("If", ["c"], ["y"], name="if", then_branch=then_g, else_branch=else_g),
    helper.make_node("F", ["y"], ["z"], name="call", domain="my.domain", outer_ri=3, outer_rs="q"),
]
main_nodes[1].attribute.append(
    onnx.AttributeProto(name="outer_rtps", type=onnx.AttributeProto.TYPE_PROTOS, type_protos=all_tps)
)
graph = helper.make_graph(
    main_nodes, "main",
    [helper.make_tensor_value_info("c", TensorProto.BOOL, []),
     helper.make_tensor_value_info("x", TensorProto.FLOAT, [2])],
    [helper.make_tensor_value_info("z", TensorProto.FLOAT, [2])],
)
model = helper.make_model(
    graph, functions=[func], ir_version=10,
    opset_imports=[helper.make_opsetid("", 18), helper.make_opsetid("my.domain", 1)],
)
model_out = serde.to_proto(serde.from_proto(model))
check(model_out == model, "model changed through the round trip")
check(
    [a.SerializeToString(deterministic=True) for a in model_out.functions[0].node[0].attribute]
    == [a.SerializeToString(deterministic=True) for a in model.functions[0].node[0].attribute],
    "function node attributes changed",
)
ir_fn_node = serde.from_proto(model).functions[("my.domain", "F", "")][0]
check(
    [a.is_ref() for a in ir_fn_node.attributes.values()] == [True] * 5 + [False] * 2,
    "reference attributes misclassified",
)
# node-level entry point too
node_out = serde.to_proto(serde.from_proto(fn_node))
check(node_out == fn_node, "node with reference attributes changed")

if failures:
    print(f"{len(failures)} failure(s)")
    sys.exit(1)
print("OK")
