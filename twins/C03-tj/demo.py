"""Demo for property C03 (IR -> proto -> IR preserves the model; serialization has no side effects).

Exercises graph/function serialization around initializers and value_info:
several tensor implementations, an initializer that is also a graph input,
an initializer without a constant value, a tensor whose own name differs from
its value's name, quantization annotations, untyped values, empty-named trailing
outputs, a nested graph with its own initializer, a function (IR 10 and IR 9),
an empty graph, and a rejected serialization.
"""

from __future__ import annotations

import logging

import numpy as np
import onnx

import onnx_ir as ir
from onnx_ir import serde

F = ir.TensorType(ir.DataType.FLOAT)
QUANT = "quant_parameter_tensor_names"


def snapshot_value(v: ir.Value | None):
    if v is None:
        return None
    cv = v.const_value
    return (
        v.name,
        str(v.type),
        None if v.shape is None else str(v.shape),
        v.doc_string,
        tuple(sorted(v.metadata_props.items())),
        tuple(sorted((v.meta.get(QUANT) or {}).items())),
        None
        if cv is None
        else (
            type(cv).__name__ if not isinstance(cv, serde.TensorProtoTensor) else "T",
            cv.dtype,
            tuple(cv.shape.numpy()),
            cv.doc_string or "",
            tuple(sorted(cv.metadata_props.items())),
            tuple(cv.string_data()) if isinstance(cv, ir.StringTensor) else cv.tobytes(),
        ),
    )


def snapshot_graph(g, *, with_impl: bool):
    def val(v):
        s = snapshot_value(v)
        if s is None or with_impl or s[-1] is None:
            return s
        s = s[:-1] + (s[-1][1:],)  # drop the tensor implementation class
        if v.type is None:
            # The deserializer fills in type and shape of an untyped initializer from its tensor
            cv = v.const_value
            s = (s[0], str(ir.TensorType(cv.dtype)), str(cv.shape), *s[3:])
        return s

    nodes = []
    for n in g:
        attrs = []
        for a in n.attributes.values():
            if a.type == ir.AttributeType.GRAPH:
                attrs.append((a.name, "G", snapshot_graph(a.value, with_impl=with_impl)))
            elif a.type == ir.AttributeType.TENSOR:
                attrs.append((a.name, "T", a.value.tobytes()))
            else:
                attrs.append((a.name, str(a.type), repr(a.value)))
        nodes.append(
            (
                n.domain,
                n.op_type,
                n.overload,
                n.name,
                n.doc_string,
                tuple(None if i is None else i.name for i in n.inputs),
                tuple(val(o) for o in n.outputs),
                tuple(attrs),
                tuple(sorted(n.metadata_props.items())),
            )
        )
    return (
        g.name,
        g.doc_string,
        tuple(val(v) for v in g.inputs),
        tuple(val(v) for v in g.outputs),
        tuple(
            (k, val(v))
            for k, v in getattr(g, "initializers", {}).items()
            # An initializer without a constant value is only kept as value_info (with a warning)
            if with_impl or v.const_value is not None
        ),
        tuple(nodes),
        tuple(sorted(g.metadata_props.items())),
        tuple(g.opset_imports.items()) if hasattr(g, "opset_imports") else None,
    )


def snapshot_model(m: ir.Model, *, with_impl: bool):
    return (
        m.ir_version,
        m.producer_name,
        m.doc_string,
        tuple(sorted(m.metadata_props.items())),
        snapshot_graph(m.graph, with_impl=with_impl),
        tuple(
            (
                k,
                f.domain,
                f.name,
                f.overload,
                f.doc_string,
                tuple(f.opset_imports.items()),
                tuple((a.name, str(a.type), repr(a.value)) for a in f.attributes.values()),
                snapshot_graph(f, with_impl=with_impl),
            )
            for k, f in m.functions.items()
        ),
    )


def build_model(ir_version: int) -> ir.Model:
    # Function overloads only exist from IR version 10 on
    overload = "ov" if ir_version >= 10 else ""
    # Graph inputs; "w_in" is both a graph input and an initializer.
    x = ir.Value(name="x", type=F, shape=ir.Shape([2, "N"]), doc_string="input x")
    w_in = ir.Value(
        name="w_in",
        type=F,
        shape=ir.Shape([2]),
        # tensor's own name intentionally differs from the value's name
        const_value=ir.tensor(np.array([1.0, 2.0], dtype=np.float32), name="stale_name"),
    )
    w_in.meta[QUANT] = {"SCALE_TENSOR": "scale", "ZERO_POINT_TENSOR": "zp"}

    # Initializers with several tensor implementations.
    scale = ir.Value(
        name="scale",
        type=F,
        shape=ir.Shape([]),
        const_value=ir.Tensor(np.array(0.5, dtype=np.float32), name="scale"),
        metadata_props={"k": "v", "a": "b"},
    )
    zp = ir.Value(
        name="zp",
        const_value=serde.TensorProtoTensor(
            onnx.numpy_helper.from_array(np.array([3, 4], dtype=np.int64), name="other")
        ),
    )  # no type, no shape: no value_info entry
    strs = ir.Value(
        name="strs",
        type=ir.TensorType(ir.DataType.STRING),
        shape=ir.Shape([2]),
        const_value=ir.StringTensor([b"ab", b""], shape=ir.Shape([2]), name=None, doc_string="strings"),
    )
    lazy = ir.Value(
        name="lazy",
        type=F,
        shape=ir.Shape([3]),
        const_value=ir.LazyTensor(
            lambda: ir.Tensor(np.arange(3, dtype=np.float32)),
            dtype=ir.DataType.FLOAT,
            shape=ir.Shape([3]),
            name="lazy_original",
        ),
    )
    lazy.meta[QUANT] = {"SCALE_TENSOR": "scale"}
    no_const = ir.Value(name="no_const", type=F, shape=ir.Shape([1]))  # skipped with a warning
    outer_init = ir.Value(
        name="outer_init",
        type=F,
        shape=ir.Shape([2]),
        const_value=ir.tensor(np.array([7.0, 8.0], dtype=np.float32), name="outer_init"),
    )

    # Nested graph capturing outer values and holding its own initializer.
    def branch(tag: str) -> ir.Graph:
        inner_w = ir.Value(
            name=f"{tag}_w",
            type=F,
            shape=ir.Shape([2]),
            const_value=ir.tensor(np.array([9.0, 1.0], dtype=np.float32), name="wrong"),
        )
        n = ir.Node("", "Add", [outer_init, inner_w], name=f"{tag}_add")
        n.outputs[0].name = f"{tag}_out"
        n.outputs[0].type = F
        return ir.Graph(
            [], [n.outputs[0]], nodes=[n], initializers=[inner_w], name=f"{tag}_graph"
        )

    cond = ir.Value(name="cond", type=ir.TensorType(ir.DataType.BOOL), shape=ir.Shape([]))
    if_node = ir.Node(
        "",
        "If",
        [cond],
        [ir.AttrGraph("then_branch", branch("then")), ir.AttrGraph("else_branch", branch("else"))],
        name="if_node",
        doc_string="an if",
    )
    if_node.outputs[0].name = "if_out"  # untyped, no value_info

    add = ir.Node("", "Add", [x, w_in], name="add", metadata_props={"m": "1"})
    add.outputs[0].name = "sum"
    add.outputs[0].type = F
    add.outputs[0].shape = ir.Shape([2, "N"])
    add.outputs[0].meta[QUANT] = {"SCALE_TENSOR": "scale"}

    # Node with an optional (None) input and empty-named outputs (middle one kept, trailing dropped).
    multi = ir.Node("custom", "Multi", [add.outputs[0], None, scale], num_outputs=3, name="multi")
    multi.outputs[0].name = "m0"
    multi.outputs[1].name = ""
    multi.outputs[2].name = "m2"
    multi.outputs[2].doc_string = "only a doc string"

    call = ir.Node("my.domain", "Fn", [multi.outputs[0], lazy], name="call", overload=overload)
    call.outputs[0].name = "y"
    call.outputs[0].type = F

    graph = ir.Graph(
        [x, w_in, cond],
        [call.outputs[0], if_node.outputs[0], multi.outputs[2]],
        # deliberately not topologically sorted
        nodes=[if_node, call, add, multi],
        initializers=[w_in, scale, zp, strs, lazy, no_const, outer_init],
        opset_imports={"": 20, "custom": 1, "my.domain": 1},
        name="main",
        doc_string="main graph",
        metadata_props={"z": "26", "a": "1"},
    )

    # Function with typed and untyped values.
    fa = ir.Value(name="fa", type=F, shape=ir.Shape([2]))
    fb = ir.Value(name="fb")  # untyped input: no value_info
    fn1 = ir.Node("", "Mul", [fa, fb], name="fmul")
    fn1.outputs[0].name = "ft"
    fn1.outputs[0].type = F
    fn2 = ir.Node("", "Relu", [fn1.outputs[0]], name="frelu")
    fn2.outputs[0].name = "fo"
    func = ir.Function(
        "my.domain",
        "Fn",
        overload,
        graph=ir.Graph(
            [fa, fb], [fn2.outputs[0]], nodes=[fn1, fn2], opset_imports={"": 20}, name="Fn"
        ),
        attributes=[],
    )
    return ir.Model(
        graph,
        ir_version=ir_version,
        producer_name="demo",
        functions=[func],
        metadata_props={"model": "meta"},
    )


def main() -> None:
    logging.getLogger("onnx_ir").setLevel(logging.ERROR)

    protos = {}
    for ir_version in (10, 9):
        model = build_model(ir_version)
        before = snapshot_model(model, with_impl=True)
        proto1 = serde.serialize_model(model)
        proto2 = serde.serialize_model(model)
        assert proto1 == proto2, "serializing twice must give equal protos"
        assert before == snapshot_model(model, with_impl=True), "IR model was changed"

        g = proto1.graph
        assert [i.name for i in g.input] == ["x", "w_in", "cond"]
        assert [t.name for t in g.initializer] == [
            "w_in", "scale", "zp", "strs", "lazy", "outer_init",
        ]  # fmt: skip
        assert [n.name for n in g.node] == ["if_node", "call", "add", "multi"]
        assert list(g.node[3].input) == ["sum", "", "scale"]
        assert list(g.node[3].output) == ["m0", "", "m2"]
        vi_names = [vi.name for vi in g.value_info]
        main_vi = ["scale", "strs", "lazy", "no_const", "outer_init", "sum"]
        if ir_version >= 10:
            assert vi_names == main_vi, vi_names
            assert [vi.name for vi in proto1.functions[0].value_info] == ["fa", "ft"]
        else:
            assert vi_names == [*main_vi, "my.domain::Fn/fa", "my.domain::Fn/ft"], vi_names
            assert len(proto1.functions[0].value_info) == 0
        assert list(proto1.functions[0].input) == ["fa", "fb"]
        assert list(proto1.functions[0].output) == ["fo"]
        # Quantization annotations: w_in (initializer that is an input: once), lazy, sum
        assert [qa.tensor_name for qa in g.quantization_annotation] == ["w_in", "lazy", "sum"]
        assert [(e.key, e.value) for e in g.quantization_annotation[0].quant_parameter_tensor_names] == [
            ("SCALE_TENSOR", "scale"), ("ZERO_POINT_TENSOR", "zp"),
        ]  # fmt: skip
        then_g = g.node[0].attribute[0].g
        assert [t.name for t in then_g.initializer] == ["then_w"]
        assert [vi.name for vi in then_g.value_info] == ["then_w"]

        # Name alignment is the only side effect.
        assert model.graph.initializers["w_in"].const_value.name == "w_in"
        assert model.graph.initializers["zp"].const_value.name == "zp"
        assert model.graph.initializers["strs"].const_value.name == "strs"
        assert model.graph.initializers["lazy"].const_value.name == "lazy"
        assert model.graph.initializers["no_const"].const_value is None
        then_graph = model.graph.node("if_node").attributes["then_branch"].value
        assert then_graph.initializers["then_w"].const_value.name == "then_w"
        # The captured outer value is shared between scopes, not copied.
        assert then_graph.node(0).inputs[0] is model.graph.initializers["outer_init"]

        # Round trip: isomorphic model (tensor implementation classes aside).
        back = serde.deserialize_model(proto1)
        assert snapshot_model(back, with_impl=False) == snapshot_model(model, with_impl=False)
        back_then = back.graph.node("if_node").attributes["then_branch"].value
        assert back_then.node(0).inputs[0] is back.graph.initializers["outer_init"]
        assert back.graph.node("multi").inputs[1] is None
        assert "no_const" not in back.graph.initializers
        # Fixed point: proto -> IR -> proto is identical.
        # Second generation: only value_info differs (the untyped initializer "zp" got its
        # type from the tensor, the const-less "no_const" is gone); then a fixed point.
        proto3 = serde.serialize_model(back)
        proto4 = serde.serialize_model(serde.deserialize_model(proto3))
        assert proto4 == proto3
        vi3 = [vi.name for vi in proto3.graph.value_info]
        assert vi3[:6] == ["scale", "zp", "strs", "lazy", "outer_init", "sum"], vi3
        stripped1 = onnx.ModelProto()
        stripped1.CopyFrom(proto1)
        stripped1.graph.ClearField("value_info")
        proto3.graph.ClearField("value_info")
        assert proto3 == stripped1
        protos[ir_version] = proto1

    # create_value_info=False: no function value_info at all, everything else equal.
    func = build_model(10).functions[("my.domain", "Fn", "ov")]
    fp_with = serde.serialize_function(func)
    fp_without = serde.serialize_function(func, create_value_info=False)
    assert [vi.name for vi in fp_with.value_info] == ["fa", "ft"]
    assert len(fp_without.value_info) == 0
    fp_with.ClearField("value_info")
    assert fp_with == fp_without
    fp_without.ClearField("overload")
    assert fp_without == protos[9].functions[0]

    # Unusual input 1: an empty graph (no inputs, nodes, initializers, outputs).
    empty = ir.Graph([], [], nodes=[])
    ep = serde.serialize_graph(empty)
    assert ep == onnx.GraphProto()
    eb = serde.deserialize_graph(ep)
    assert len(eb) == 0 and not eb.inputs and not eb.outputs and not eb.initializers

    # Unusual input 2: trailing empty-named outputs are dropped, middle ones kept.
    n = ir.Node("", "Op", [], num_outputs=3)
    n.outputs[0].name = "a"
    n.outputs[1].name = ""
    n.outputs[2].name = ""
    n.outputs[2].type = F
    gp = serde.serialize_graph(ir.Graph([], [n.outputs[0]], nodes=[n]))
    assert list(gp.node[0].output) == ["a"] and len(gp.value_info) == 0

    # Unusual input 3: a rejected serialization. A lazily evaluated initializer whose
    # producer fails raises SerdeError; earlier initializers have already been aligned,
    # the failing one has been renamed but not emitted, later ones are untouched.
    def boom():
        raise ValueError("cannot materialize")

    first = ir.Value(
        name="first", const_value=ir.tensor(np.zeros(1, dtype=np.float32), name="old_first")
    )
    bad = ir.Value(
        name="bad",
        type=F,
        const_value=ir.LazyTensor(boom, dtype=ir.DataType.FLOAT, shape=ir.Shape([1]), name="old_bad"),
    )
    last = ir.Value(
        name="last", const_value=ir.tensor(np.zeros(1, dtype=np.float32), name="old_last")
    )
    failing = ir.Graph([], [], nodes=[], initializers=[first, bad, last], name="failing")
    target = onnx.GraphProto()
    try:
        serde.serialize_graph_into(target, failing)
    except serde.SerdeError as e:
        assert "serialize_graph_into" in str(e)
        cause = e.__cause__
        assert isinstance(cause, serde.SerdeError) and "serialize_tensor_into" in str(cause)
        assert isinstance(cause.__cause__, ValueError)
    else:
        raise AssertionError("expected SerdeError")
    assert first.const_value.name == "first"
    assert bad.const_value.name == "bad"
    assert last.const_value.name == "old_last"
    assert [vi.name for vi in target.value_info] == ["bad"]
    assert [t.name for t in target.initializer][:1] == ["first"]
    assert len(target.initializer) == 2  # the slot for "bad" was added before the failure
    assert len(target.node) == 0 and len(target.output) == 0

    # Unusual input 4: registering an unnamed initializer is rejected by the API.
    try:
        empty.register_initializer(ir.Value(name=None))
    except ValueError:
        pass
    else:
        raise AssertionError("expected ValueError")

    print("C03 demo OK")


if __name__ == "__main__":
    main()
