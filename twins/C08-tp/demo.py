"""Demo for C08: an interrupted external-data save never damages an existing data file.

Exercises the per-file writer (serial / parallel dispatch, callbacks, tensors with and
without ``tofile``) through the public API only.  Exits 0 when all checks hold.
"""

from __future__ import annotations

import os
import stat
import sys
import tempfile

import numpy as np

import onnx_ir as ir
from onnx_ir import external_data as ed

CHECKS = 0


def check(cond: bool, message: str) -> None:
    global CHECKS
    CHECKS += 1
    if not cond:
        print(f"FAIL: {message}")
        sys.exit(1)


def read(path: str) -> bytes:
    with open(path, "rb") as f:
        return f.read()


class Boom(Exception):
    pass


class FailingTensor(ir.Tensor):
    """Writes half of its bytes into the staged file, then raises."""

    def tofile(self, file) -> None:
        data = self.tobytes()
        file.write(data[: len(data) // 2])
        file.flush()
        raise Boom(self.name)


class BytesOnlyTensor:
    """A minimal TensorProtocol implementation that has no ``tofile``."""

    def __init__(self, array: np.ndarray, name: str) -> None:
        self._array = array
        self.name = name
        self.doc_string = None
        self.metadata_props: dict = {}
        self.meta: dict = {}

    @property
    def dtype(self):
        return ir.DataType.from_numpy(self._array.dtype)

    @property
    def shape(self):
        return ir.Shape(self._array.shape)

    @property
    def size(self) -> int:
        return int(self._array.size)

    @property
    def nbytes(self) -> int:
        return int(self._array.nbytes)

    def numpy(self) -> np.ndarray:
        return self._array

    def __array__(self, dtype=None, copy=None):
        return self._array if dtype is None else self._array.astype(dtype)

    def tobytes(self) -> bytes:
        return self._array.tobytes()


def tensors(n: int, seed: int) -> list[ir.Tensor]:
    rng = np.random.default_rng(seed)
    return [
        ir.Tensor(rng.integers(0, 255, size=(7 + i,), dtype=np.uint8), name=f"t{seed}_{i}")
        for i in range(n)
    ]


def expected(ts) -> bytes:
    return b"".join(t.tobytes() for t in ts)


def listing(d: str) -> list[str]:
    return sorted(os.listdir(d))


def main() -> None:
    with tempfile.TemporaryDirectory() as base:
        dest = os.path.join(base, "w.data")

        # ---- 1. fresh save, serial and parallel produce identical bytes ----------
        first = tensors(4, 1)
        seen: list[tuple[int, int, str, int | None, int | None, int]] = []

        def cb(tensor, info: ed.CallbackInfo) -> None:
            seen.append(
                (info.index, info.offset, info.filename, info.shard_index, info.shard_total, info.total)
            )

        ext = ed.convert_tensors_to_external(first, base, "w.data", callback=cb)
        check(read(dest) == expected(first), "serial save writes the dense concatenation")
        offsets = [0]
        for t in first[:-1]:
            offsets.append(offsets[-1] + t.nbytes)
        check(
            seen == [(i, offsets[i], "w.data", i, 4, 4) for i in range(4)],
            f"serial callbacks in index order with per-file info: {seen}",
        )
        check(listing(base) == ["w.data"], "no temporary left after a successful save")
        for e, t in zip(ext, first):
            check(e.valid() and e.tobytes() == t.tobytes(), "returned external tensor reads back")
            e.release()

        seen.clear()
        ed.convert_tensors_to_external(first, base, "p.data", callback=cb, max_workers=3)
        check(read(os.path.join(base, "p.data")) == expected(first), "parallel bytes == serial bytes")
        check(
            sorted(seen) == [(i, offsets[i], "p.data", i, 4, 4) for i in range(4)],
            "parallel callbacks: one per tensor",
        )
        os.remove(os.path.join(base, "p.data"))

        # max_workers > 1 but a single tensor: the serial writer is selected, same result
        ed.convert_tensors_to_external(first[:1], base, "one.data", max_workers=8)
        check(read(os.path.join(base, "one.data")) == first[0].tobytes(), "single tensor, many workers")
        os.remove(os.path.join(base, "one.data"))

        # ---- 2. interrupted overwrites keep the previous bytes -------------------
        os.chmod(dest, 0o640)
        previous = read(dest)
        readers = [
            ir.ExternalTensor("w.data", offsets[i], first[i].nbytes, ir.DataType.UINT8,
                              shape=ir.Shape([first[i].nbytes]), name=f"r{i}", base_dir=base)
            for i in range(4)
        ]
        check(readers[2].tobytes() == first[2].tobytes(), "reader works before the failed saves")

        second = tensors(5, 2)
        bad = FailingTensor(np.arange(64, dtype=np.uint8), name="bad")
        for workers in (None, 1, 2, 4):
            for position in (0, 2, 5):
                batch = list(second)
                batch.insert(position, bad)
                # Existing readers of the destination take part in the save as inputs
                batch.append(readers[1])
                try:
                    ed.convert_tensors_to_external(batch, base, "w.data", max_workers=workers)
                except Boom:
                    pass
                else:
                    check(False, "tensor failure must propagate")
                check(read(dest) == previous, f"tensor failure (workers={workers}, pos={position})")
                check(listing(base) == ["w.data"], "no temporary file or directory remains")
                check(all(r.valid() for r in readers), "readers still valid after a failed save")
                check(readers[1].tobytes() == first[1].tobytes(), "reader still reads old bytes")

        # callback raising after some tensors were already staged
        for workers in (None, 3):
            count = [0]

            def raising_cb(tensor, info) -> None:
                count[0] += 1
                if count[0] == 3:
                    raise Boom("callback")

            try:
                ed.convert_tensors_to_external(second, base, "w.data", callback=raising_cb, max_workers=workers)
            except Boom:
                pass
            else:
                check(False, "callback failure must propagate")
            check(read(dest) == previous, f"callback failure keeps previous bytes (workers={workers})")
            check(listing(base) == ["w.data"], "no temporary after callback failure")
            check(all(r.valid() for r in readers), "readers valid after callback failure")

        # ---- 3. unusual inputs ---------------------------------------------------
        # rejected options: nothing is touched
        for kwargs in ({"max_workers": 0}, {"max_in_flight_bytes": 0}, {"alignment": 0}, {"align_threshold": -1}):
            try:
                ed.convert_tensors_to_external(second, base, "w.data", **kwargs)
            except ValueError:
                pass
            else:
                check(False, f"{kwargs} must be rejected")
            check(read(dest) == previous and listing(base) == ["w.data"], f"rejected {kwargs} leaves all as is")
        # a path that names no file is refused before anything is created
        try:
            ed.convert_tensors_to_external(second, base, "")
        except ValueError:
            pass
        else:
            check(False, "empty relative path must be rejected")
        check(listing(base) == ["w.data"], "nothing created for a rejected path")

        # duplicates (same object twice) and a tensor lacking tofile(), serial and parallel
        plain = BytesOnlyTensor(np.arange(10, 40, dtype=np.uint8), "plain")
        dup_batch = [second[0], plain, second[0], second[1], plain]
        for workers, name in ((None, "dup_s.data"), (4, "dup_p.data")):
            out = ed.convert_tensors_to_external(dup_batch, base, name, max_workers=workers)
            check(read(os.path.join(base, name)) == expected(dup_batch), f"duplicates + tobytes-only ({workers})")
            check([o.tobytes() for o in out] == [t.tobytes() for t in dup_batch], "per-entry ranges")
            for o in out:
                o.release()
            os.remove(os.path.join(base, name))

        # empty input replaces the destination by an empty file, atomically, mode kept
        empty_dest = os.path.join(base, "e.data")
        with open(empty_dest, "wb") as f:
            f.write(b"old")
        os.chmod(empty_dest, 0o600)
        calls: list = []
        check(ed.convert_tensors_to_external([], base, "e.data", callback=lambda *a: calls.append(a), max_workers=4) == [],
              "empty input returns an empty list")
        check(read(empty_dest) == b"" and calls == [], "empty input: empty file, no callbacks")
        check(stat.S_IMODE(os.stat(empty_dest).st_mode) == 0o600, "mode copied onto the new file")
        os.remove(empty_dest)

        # ---- 4. successful overwrite: only readers of the replaced file are invalidated
        other = os.path.join(base, "other.data")
        with open(other, "wb") as f:
            f.write(bytes(range(32)))
        bystander = ir.ExternalTensor("other.data", 0, 32, ir.DataType.UINT8, shape=ir.Shape([32]),
                                      name="by", base_dir=base)
        batch = [readers[3], second[0], bystander, readers[0]]
        want = first[3].tobytes() + second[0].tobytes() + bytes(range(32)) + first[0].tobytes()
        out = ed.convert_tensors_to_external(batch, base, "w.data", max_workers=2)
        check(read(dest) == want, "overwrite streams the old file's own ranges into the new file")
        check(stat.S_IMODE(os.stat(dest).st_mode) == 0o640, "mode of the replaced file preserved")
        check(not readers[3].valid() and not readers[0].valid(), "inputs backed by the replaced file invalidated")
        check(readers[1].valid() and readers[2].valid(), "tensors not part of the save untouched")
        check(bystander.valid() and read(other) == bytes(range(32)), "other file and its reader untouched")
        check(listing(base) == ["other.data", "w.data"], "no temporary after the overwrite")
        for o in out:
            o.release()

        # ---- 5. model level: sharded save never changes a pre-existing file --------
        model_dir = os.path.join(base, "m")
        os.mkdir(model_dir)
        vals = [ir.Value(name=t.name, const_value=t, shape=t.shape, type=ir.TensorType(t.dtype)) for t in tensors(4, 3)]
        graph = ir.Graph([], [], nodes=[], initializers=vals, name="g", opset_imports={"": 20})
        model = ir.Model(graph, ir_version=10)
        blocker = os.path.join(model_dir, "m-00002-of-00004.data")
        with open(blocker, "wb") as f:
            f.write(b"keep me")
        try:
            ir.save(model, os.path.join(model_dir, "m.onnx"), external_data="m.data", max_shard_size_bytes=8, size_threshold_bytes=0)
        except FileExistsError:
            pass
        else:
            check(False, "sharded save over an existing shard must be refused")
        check(read(blocker) == b"keep me", "pre-existing shard unchanged")
        check(listing(model_dir) == ["m-00002-of-00004.data"], "refused sharded save created nothing")
        os.remove(blocker)
        ir.save(model, os.path.join(model_dir, "m.onnx"), external_data="m.data", max_shard_size_bytes=8, size_threshold_bytes=0, max_workers=3)
        loaded = ir.load(os.path.join(model_dir, "m.onnx"))
        for v in vals:
            got = loaded.graph.initializers[v.name].const_value
            check(got.tobytes() == v.const_value.tobytes(), f"sharded round trip {v.name}")
            got.release()

    print(f"OK ({CHECKS} checks)")


if __name__ == "__main__":
    main()
