"""Demo for C10: external tensor reads never escape the model directory.

Exercises tobytes / numpy / __array__ / tofile / serialization on ExternalTensor,
including empty tensors, missing files, traversal, symlinks and hard links.
"""
import io
import os
import sys
import tempfile

import numpy as np
import onnx

import onnx_ir as ir
from onnx_ir import serde


def ext(location, base_dir, n=4, offset=None, length=None, name="t"):
    return ir.ExternalTensor(
        location, offset, length, ir.DataType.FLOAT, shape=ir.Shape([n]), name=name,
        base_dir=base_dir,
    )


def raw_bytes(t):
    """Serialization to raw bytes: the external tensor behind a lazy tensor."""
    lazy = ir.LazyTensor(lambda: t, dtype=t.dtype, shape=t.shape, name=t.name)
    return serde.serialize_tensor(lazy).raw_data


def rejected(fn, exc=ValueError):
    try:
        fn()
    except exc:
        return True
    except serde.SerdeError as e:
        # serde wraps what the tensor raised; look at the cause chain
        cause = e.__cause__
        while cause is not None:
            if isinstance(cause, exc):
                return True
            cause = cause.__cause__
        print("unexpected serde error", repr(e)[:200])
        return False
    except Exception as e:  # noqa: BLE001
        print("unexpected exception", type(e), str(e)[:200])
        return False
    print("not rejected")
    return False


def all_reads(make):
    """Every read entry point, each on a fresh tensor."""
    return [
        lambda: make().tobytes(),
        lambda: make().numpy(),
        lambda: np.asarray(make()),
        lambda: make().tofile(io.BytesIO()),
        lambda: raw_bytes(make()),
    ]


def main():
    ok = True
    root = os.path.realpath(tempfile.mkdtemp())
    base = os.path.join(root, "model")
    sibling = os.path.join(root, "model_evil")
    os.mkdir(base)
    os.mkdir(sibling)
    os.mkdir(os.path.join(base, "sub"))
    data = np.arange(4, dtype=np.float32)
    payload = data.tobytes()
    for p in (
        os.path.join(base, "w.bin"),
        os.path.join(base, "sub", "w.bin"),
        os.path.join(sibling, "secret.bin"),
        os.path.join(root, "outside.bin"),
    ):
        with open(p, "wb") as f:
            f.write(payload)
    # symlinks in/out, symlinked directory out, hard link
    os.symlink(os.path.join(base, "w.bin"), os.path.join(base, "in_link.bin"))
    os.symlink(os.path.join(root, "outside.bin"), os.path.join(base, "out_link.bin"))
    os.symlink(sibling, os.path.join(base, "out_dir"))
    with open(os.path.join(base, "hl_src.bin"), "wb") as f:
        f.write(payload)
    os.link(os.path.join(base, "hl_src.bin"), os.path.join(base, "hl.bin"))
    with open(os.path.join(base, "padded.bin"), "wb") as f:
        f.write(b"\xff" * 8 + payload + b"\xee" * 8)

    # ---- accepted locations, all entry points, several base spellings
    os.chdir(root)
    base_spellings = [base, base + os.sep, "model", "./model", "model/../model", os.path.join(base, "sub", "..")]
    for b in base_spellings:
        for loc in ("w.bin", "./w.bin", "sub/../w.bin", "sub/w.bin", "in_link.bin", "sub//w.bin"):
            t = ext(loc, b)
            ok &= t.tobytes() == payload
            ok &= np.array_equal(ext(loc, b).numpy(), data)
            ok &= np.array_equal(np.asarray(ext(loc, b)), data)
            buf = io.BytesIO()
            ext(loc, b).tofile(buf)
            ok &= buf.getvalue() == payload
            ok &= raw_bytes(ext(loc, b)) == payload
            # repeated reads of the same object (cached mapping) and mixed order
            ok &= t.tobytes() == payload and np.array_equal(t.numpy(), data) and t.tobytes() == payload
            t.release()
            ok &= t.tobytes() == payload
    # offset / length
    t = ext("padded.bin", base, offset=8, length=16)
    ok &= t.tobytes() == payload and np.array_equal(t.numpy(), data)

    # ---- rejected locations, all entry points
    bad = [
        "../outside.bin",
        "../model_evil/secret.bin",
        "sub/../../outside.bin",
        os.path.join(root, "outside.bin"),
        os.path.join(sibling, "secret.bin"),
        "out_link.bin",
        "out_dir/secret.bin",
        "hl.bin",
        "hl_src.bin",
        "..",
        "../model_evil",
    ]
    for b in base_spellings:
        for loc in bad:
            for read in all_reads(lambda loc=loc, b=b: ext(loc, b)):
                if not rejected(read):
                    print("NOT REJECTED:", b, loc)
                    ok = False

    # ---- unusual: EMPTY tensors (size 0) are checked too and never touch the file
    for loc in bad:
        for read in all_reads(lambda loc=loc: ext(loc, base, n=0)):
            # tofile of an empty tensor still opens the file; containment comes first
            ok &= rejected(read)
    ok &= ext("w.bin", base, n=0).tobytes() == b""
    ok &= ext("does_not_exist.bin", base, n=0).tobytes() == b""  # nothing opened
    ok &= ext("does_not_exist.bin", base, n=0).numpy().shape == (0,)
    ok &= raw_bytes(ext("does_not_exist.bin", base, n=0)) == b""

    # ---- unusual: missing file inside base -> containment passes, open fails (OSError)
    for read in all_reads(lambda: ext("missing.bin", base)):
        ok &= rejected(read, FileNotFoundError)
    # missing file outside base -> ValueError, not FileNotFoundError
    for read in all_reads(lambda: ext("../missing.bin", base)):
        ok &= rejected(read, ValueError)
    # dangling symlink inside base pointing outside -> ValueError
    os.symlink(os.path.join(root, "nowhere.bin"), os.path.join(base, "dangling.bin"))
    for read in all_reads(lambda: ext("dangling.bin", base)):
        ok &= rejected(read, ValueError)
    # dangling symlink pointing inside -> passes the check, fails at open
    os.symlink(os.path.join(base, "nowhere.bin"), os.path.join(base, "dangling_in.bin"))
    for read in all_reads(lambda: ext("dangling_in.bin", base)):
        ok &= rejected(read, FileNotFoundError)

    # ---- invalidated tensor: validity error first, also for empty tensors
    for n in (0, 4):
        t = ext("../outside.bin", base, n=n)
        t.invalidate()
        ok &= rejected(t.tobytes) and rejected(t.numpy) and rejected(lambda: t.tofile(io.BytesIO()))

    # ---- history: a hard link appearing after a successful read; base_dir re-assignment
    t = ext("w.bin", os.path.join(base, "sub"))
    ok &= t.tobytes() == payload
    t.base_dir = os.path.join(base, "sub") + os.sep  # different spelling: mapping dropped
    ok &= t.tobytes() == payload
    t.base_dir = sibling
    ok &= rejected(t.tobytes, FileNotFoundError)  # model_evil/w.bin does not exist
    t2 = ext("../outside.bin", root)  # root/../outside.bin is outside root
    ok &= rejected(t2.tobytes)
    t2.base_dir = base  # base/../outside.bin is outside base too
    ok &= rejected(t2.tobytes) and rejected(t2.numpy)
    t3 = ext("sub/w.bin", base)
    ok &= t3.tobytes() == payload
    t3.release()
    os.link(os.path.join(base, "sub", "w.bin"), os.path.join(root, "stolen.bin"))
    ok &= rejected(t3.tobytes) and rejected(t3.numpy) and rejected(lambda: t3.tofile(io.BytesIO()))
    os.unlink(os.path.join(root, "stolen.bin"))
    ok &= t3.tobytes() == payload
    # raw reset by hand after a load: pristine behaviour is the "loaded only once" assertion
    t4 = ext("w.bin", base)
    t4.numpy()
    t4.raw = None
    if __debug__:
        ok &= rejected(t4.tobytes, AssertionError)

    # ---- empty base_dir: checks are skipped by design
    os.chdir(base)
    ok &= ext("../outside.bin", "").tobytes() == payload
    ok &= ext("../outside.bin", "", n=0).tobytes() == b""

    # ---- model loaded from a file: base dir = model dir whatever the spelling
    def save_model(location):
        tp = onnx.TensorProto()
        tp.name = "w"
        tp.data_type = onnx.TensorProto.FLOAT
        tp.dims.append(4)
        tp.data_location = onnx.TensorProto.EXTERNAL
        e = tp.external_data.add()
        e.key, e.value = "location", location
        g = onnx.helper.make_graph([], "g", [], [], initializer=[tp])
        m = onnx.helper.make_model(g)
        name = f"m_{abs(hash(location))}.onnx"
        with open(os.path.join(base, name), "wb") as f:
            f.write(m.SerializeToString())
        return name

    good_name = save_model("w.bin")
    bad_name = save_model("../outside.bin")
    os.symlink(base, os.path.join(root, "model_link"))
    for spell in (
        lambda n: n,  # bare file name, cwd == base
        lambda n: "./" + n,
        lambda n: os.path.join(base, n),
        lambda n: os.path.join("..", "model", n),
        lambda n: os.path.join(root, "model_link", n),
        lambda n: os.path.join(base, "sub", "..", n),
    ):
        m = ir.load(spell(good_name))
        w = m.graph.initializers["w"].const_value
        ok &= bool(w.base_dir)
        ok &= w.tobytes() == payload and np.array_equal(w.numpy(), data)
        m = ir.load(spell(bad_name))
        w = m.graph.initializers["w"].const_value
        ok &= bool(w.base_dir)
        ok &= rejected(w.tobytes) and rejected(w.numpy) and rejected(lambda: w.tofile(io.BytesIO()))
        ok &= rejected(lambda: raw_bytes(w))

    print("OK" if ok else "FAIL")
    return 0 if ok else 1


if __name__ == "__main__":
    sys.exit(main())
