"""Demo for C19: device annotations are serialized with current names and resolve by identity.

Exercises serde (serialize/deserialize of sharding specs) through the public API.
Exits 0 when all expectations hold.
"""

from __future__ import annotations

import logging

import onnx_ir as ir
from onnx_ir import _multi_device, serde

# (worktree-path assertion removed when the twin was stored)


def check(model: ir.Model) -> list[str]:
    return _multi_device._check_device_configurations(model)


def build() -> tuple[ir.Model, dict]:
    x = ir.Value(name="x", shape=ir.Shape([8, 4]), type=ir.TensorType(ir.DataType.FLOAT))
    w = ir.Value(name="w", type=ir.TensorType(ir.DataType.FLOAT))  # unknown rank
    cond = ir.Value(name="cond", shape=ir.Shape([]), type=ir.TensorType(ir.DataType.BOOL))
    mm = ir.Node("", "MatMul", [x, w], name="mm", num_outputs=1)
    mm.outputs[0].name = "y"
    mm.outputs[0].shape = ir.Shape([8, 4])
    mm.outputs[0].type = ir.TensorType(ir.DataType.FLOAT)

    # A subgraph whose own value named "y" shadows the outer "y"; its node also
    # reads the outer value "x" (captured from the enclosing scope).
    inner_y = ir.Value(name="y", shape=ir.Shape([8, 4]), type=ir.TensorType(ir.DataType.FLOAT))
    inner_add = ir.Node("", "Add", [inner_y, x], name="inner_add", num_outputs=1)
    inner_add.outputs[0].name = "inner_out"
    inner_add.outputs[0].shape = ir.Shape([8, 4])
    inner_add.outputs[0].type = ir.TensorType(ir.DataType.FLOAT)
    inner_ident = ir.Node("", "Identity", [mm.outputs[0]], name="inner_ident", num_outputs=1)
    inner_ident.outputs[0].name = "y_copy"
    then_graph = ir.Graph(
        [inner_y], [inner_add.outputs[0]], nodes=[inner_add], name="then", opset_imports={"": 21}
    )
    else_graph = ir.Graph(
        [], [inner_ident.outputs[0]], nodes=[inner_ident], name="else", opset_imports={"": 21}
    )
    if_node = ir.Node(
        "",
        "If",
        [cond],
        [ir.AttrGraph("then_branch", then_graph), ir.AttrGraph("else_branch", else_graph)],
        name="if",
        num_outputs=1,
    )
    if_node.outputs[0].name = "z"
    graph = ir.Graph(
        [x, w, cond],
        [if_node.outputs[0]],
        nodes=[mm, if_node],
        name="g",
        opset_imports={"": 21},
    )
    model = ir.Model(graph, ir_version=11)
    return model, dict(
        x=x, w=w, mm=mm, inner_y=inner_y, inner_add=inner_add, inner_ident=inner_ident
    )


def spec_names(node_proto) -> list[list[str]]:
    return [
        [spec.tensor_name for spec in dc.sharding_spec] for dc in node_proto.device_configurations
    ]


def main() -> None:
    model, o = build()
    mesh = model.add_device_configuration("mesh", device_names=("d0", "d1", "d2", "d3"))
    pipe = model.add_device_configuration("pipe", num_devices=2)
    mm, x, w = o["mm"], o["x"], o["w"]
    y = mm.outputs[0]

    mm.shard(x, configuration=mesh, axis=-1, num_shards=2, device_indices=(0, 1))
    mm.shard(x, configuration=mesh, axis=0, num_shards=2, device_indices=(2, 3))
    mm.shard(w, configuration=mesh, axis=-7, num_shards=2)  # unknown rank: accepted
    mm.shard(y, configuration=pipe, axis=1, num_shards=2, pipeline_stage=1)
    o["inner_add"].shard(o["inner_y"], configuration=mesh, axis=0, num_shards=4)
    o["inner_add"].shard(x, configuration=mesh, axis=1, num_shards=2)
    o["inner_ident"].shard(y, configuration=mesh, axis=0, num_shards=2)
    o["inner_ident"].set_pipeline_stage(pipe, 0)

    # Rejected requests leave no trace.
    before = mm.device_configurations
    for kwargs in (
        dict(axis=2, num_shards=2),  # out of range
        dict(axis=1, num_shards=2),  # same as -1: repeated
        dict(axis=0, num_shards=0),  # fewer than one shard
    ):
        try:
            mm.shard(x, configuration=mesh, **kwargs)
        except ValueError:
            pass
        else:
            raise AssertionError(f"accepted {kwargs}")
    try:
        mm.shard(y, configuration=pipe, axis=0, num_shards=2, pipeline_stage=0)
    except ValueError:
        pass
    else:
        raise AssertionError("conflicting stage accepted")
    assert mm.device_configurations == before
    assert check(model) == []

    # Renames: serialized references use the current names.
    x.name = "x_renamed"
    o["inner_y"].name = "y"  # unchanged, still shadows the outer y
    y.name = "y"
    proto = ir.to_proto(model)
    mm_proto, if_proto = proto.graph.node
    assert spec_names(mm_proto) == [["x_renamed", "w"], ["y"]], spec_names(mm_proto)
    assert [dc.configuration_id for dc in mm_proto.device_configurations] == ["mesh", "pipe"]
    assert [sd.axis for sd in mm_proto.device_configurations[0].sharding_spec[0].sharded_dim] == [
        -1,
        0,
    ]
    assert list(mm_proto.device_configurations[0].sharding_spec[0].device) == [0, 1, 2, 3]
    assert mm_proto.device_configurations[1].pipeline_stage == 1
    assert not mm_proto.device_configurations[0].HasField("pipeline_stage")
    then_proto = next(a.g for a in if_proto.attribute if a.name == "then_branch")
    assert spec_names(then_proto.node[0]) == [["y", "x_renamed"]]

    # Round trip: references resolve by identity, inner scope shadows outer.
    model2 = ir.from_proto(proto)
    assert check(model2) == []
    mesh2, pipe2 = model2.device_configurations
    mm2, if2 = list(model2.graph)
    assert [dc.configuration for dc in mm2.device_configurations] == [mesh2, pipe2]
    assert all(
        a is b for a, b in zip([dc.configuration for dc in mm2.device_configurations], [mesh2, pipe2])
    )
    specs = mm2.device_configurations[0].sharding_specs
    assert specs[0].value is mm2.inputs[0] and specs[1].value is mm2.inputs[1]
    assert mm2.device_configurations[1].sharding_specs[0].value is mm2.outputs[0]
    then2 = if2.attributes["then_branch"].as_graph()
    else2 = if2.attributes["else_branch"].as_graph()
    add2 = next(iter(then2))
    s_inner, s_outer = add2.device_configurations[0].sharding_specs
    assert s_inner.value is then2.inputs[0] and s_inner.value is add2.inputs[0]
    assert s_inner.value is not mm2.outputs[0]  # the inner "y" shadows the outer one
    assert s_outer.value is mm2.inputs[0] and s_outer.value is add2.inputs[1]
    ident2 = next(iter(else2))
    assert ident2.device_configurations[0].sharding_specs[0].value is mm2.outputs[0]
    assert ident2.device_configurations[1].pipeline_stage == 0
    assert ident2.device_configurations[1].sharding_specs == ()
    # Second serialization is identical.
    assert ir.to_proto(model2).SerializeToString() == proto.SerializeToString()

    # Unusual input 1: a value whose name was cleared cannot be serialized (fails closed).
    w.name = ""
    try:
        serde.serialize_node(mm)
    except Exception as e:  # SerdeError wrapping ValueError
        cause = e.__cause__ if e.__cause__ is not None else e
        assert isinstance(cause, ValueError), repr(cause)
        assert "whose value has no name" in str(cause) and repr(w) in str(cause), str(cause)
    else:
        raise AssertionError("nameless sharded value serialized")
    w.name = "w"
    assert spec_names(serde.serialize_node(mm)) == [["x_renamed", "w"], ["y"]]

    # Unusual input 2: hand-made spec without a value / configuration without reference.
    for bad, text in (
        (_multi_device.ShardingSpec(value=None), "without a value"),
        (_multi_device.ShardingSpec(value=ir.Value(name=None)), "has no name"),
    ):
        ndc = _multi_device.NodeDeviceConfiguration(configuration=mesh, sharding_specs=(bad,))
        try:
            serde.serialize_node_device_configuration(ndc)
        except ValueError as e:
            assert text in str(e), str(e)
        else:
            raise AssertionError("bad spec serialized")

    # Unusual input 3: a reference to an unknown tensor yields a named placeholder (with a
    # warning), an empty tensor_name yields None, duplicates resolve to the same object.
    records: list[logging.LogRecord] = []

    class Collect(logging.Handler):
        def emit(self, record: logging.LogRecord) -> None:
            records.append(record)

    handler = Collect()
    serde.logger.addHandler(handler)
    try:
        ndc_proto = serde.serialize_node_device_configuration(mm.device_configurations[0])
        ndc_proto.sharding_spec.add().tensor_name = "ghost"
        ndc_proto.sharding_spec.add()  # empty tensor_name
        ndc_proto.sharding_spec.add().tensor_name = "w"
        known = {"x_renamed": x, "w": w}
        back = serde.deserialize_node_device_configuration(ndc_proto, values=known)
        none_back = serde.deserialize_node_device_configuration(ndc_proto)
    finally:
        serde.logger.removeHandler(handler)
    vals = [s.value for s in back.sharding_specs]
    assert vals[0] is x and vals[1] is w and vals[4] is w
    assert vals[2] is not None and vals[2].name == "ghost" and vals[2] not in (x, w)
    assert vals[3] is None
    assert known == {"x_renamed": x, "w": w}  # the mapping is not modified
    assert back.configuration is not mesh and back.configuration.name == "mesh"
    ghosts = [r for r in records if "ghost" in r.getMessage()]
    assert len(ghosts) == 2 and all(r.levelno == logging.WARNING for r in ghosts), records
    # without a mapping every named reference is a fresh placeholder: 4 warnings here
    assert len(records) == 1 + 4, [r.getMessage() for r in records]
    vals_none = [s.value for s in none_back.sharding_specs]
    assert [v.name if v is not None else None for v in vals_none] == [
        "x_renamed",
        "w",
        "ghost",
        None,
        "w",
    ]
    assert vals_none[1] is not vals_none[4]

    # Cascade removal followed by a round trip: nothing dangles.
    model2.remove_device_configuration("pipe", cascade=True)
    assert check(model2) == []
    proto3 = ir.to_proto(model2)
    assert [c.name for c in proto3.configuration] == ["mesh"]
    assert spec_names(proto3.graph.node[0]) == [["x_renamed", "w"]]
    model3 = ir.from_proto(proto3)
    assert check(model3) == []
    assert list(model3.graph)[0].device_configurations[0].configuration is model3.device_configurations[0]

    # Below IR version 11 annotations are not written.
    model3.ir_version = 10
    proto4 = ir.to_proto(model3)
    assert len(proto4.configuration) == 0
    assert all(len(n.device_configurations) == 0 for n in proto4.graph.node)

    print("C19 demo OK")


if __name__ == "__main__":
    main()
