"""Demo for C08: an interrupted external-data save never damages an existing data file.

Exercises the tensor-streaming part of the single-file save (ExternalTensor.tofile and the
tobytes fallback) through the public API, with failures in the middle of a tensor.
"""

from __future__ import annotations

import errno
import io
import os
import tempfile
import unittest.mock

import numpy as np

import onnx_ir as ir
from onnx_ir import external_data as ed


def listing(d):
    return sorted(os.listdir(d))


def read(path):
    with open(path, "rb") as f:
        return f.read()


def make_model(tensors):
    graph = ir.Graph(
        inputs=[],
        outputs=[],
        nodes=[],
        initializers=[ir.Value(name=t.name, const_value=t) for t in tensors],
        opset_imports={"": 20},
        name="g",
    )
    return ir.Model(graph, ir_version=10)


class NoToFile:
    """A TensorProtocol implementation predating tofile()."""

    def __init__(self, array, name):
        self._t = ir.Tensor(array, name=name)

    def __getattr__(self, item):
        if item == "tofile":
            raise AttributeError(item)
        return getattr(self._t, item)


class Boom(RuntimeError):
    pass


def failing_tensor(name, n):
    def fn():
        raise Boom(name)

    return ir.LazyTensor(fn, dtype=ir.DataType.UINT8, shape=ir.Shape([n]), name=name)


def main() -> None:
    with tempfile.TemporaryDirectory() as d:
        a = np.arange(3 * 1024 * 1024 + 17, dtype=np.uint8)  # > 2 userspace chunks
        b = np.arange(100, dtype=np.float32)
        old_bytes = a.tobytes() + b.tobytes()
        data = os.path.join(d, "w.data")
        with open(data, "wb") as f:
            f.write(old_bytes)
        os.chmod(data, 0o640)

        def externals():
            return [
                ir.ExternalTensor("w.data", 0, a.nbytes, ir.DataType.UINT8, shape=ir.Shape(a.shape), name="a", base_dir=d),
                ir.ExternalTensor("w.data", a.nbytes, b.nbytes, ir.DataType.FLOAT, shape=ir.Shape(b.shape), name="b", base_dir=d),
            ]

        # 0. tofile on a non-regular destination (userspace path), and empty tensor
        ea, eb = externals()
        buf = io.BytesIO()
        ea.tofile(buf)
        eb.tofile(buf)
        assert buf.getvalue() == old_bytes
        empty = ir.ExternalTensor("w.data", 0, 0, ir.DataType.UINT8, shape=ir.Shape([0]), name="e", base_dir=d)
        buf = io.BytesIO()
        empty.tofile(buf)
        assert buf.getvalue() == b""

        # 1. failure in a later tensor while external tensors backed by the destination
        #    were already streamed into the staged file
        for workers in (None, 2):
            ea, eb = externals()
            ea.numpy()  # mmap open
            model = make_model([ea, eb, failing_tensor("bad", 8)])
            try:
                ed.unload_from_model(model, d, "w.data", max_workers=workers)
            except Boom:
                pass
            else:
                raise AssertionError("expected Boom")
            assert read(data) == old_bytes
            assert listing(d) == ["w.data"], listing(d)
            assert ea.valid() and eb.valid()
            assert ea.tobytes() == a.tobytes() and eb.tobytes() == b.tobytes()
            assert model.graph.initializers["a"].const_value is ea
            ea.release()
            eb.release()

        # 2. mid-tensor failure: the source range is longer than the file (truncated source)
        ea, eb = externals()
        short = ir.ExternalTensor("w.data", a.nbytes, b.nbytes + 64, ir.DataType.UINT8, shape=ir.Shape([b.nbytes + 64]), name="short", base_dir=d)
        try:
            ed.convert_tensors_to_external([ea, short, eb], d, "w.data")
        except OSError as e:
            assert "shorter than expected" in str(e), e
            assert "64 more byte(s)" in str(e), e
            assert f"offset {a.nbytes + b.nbytes}." in str(e), e
        else:
            raise AssertionError("expected OSError")
        assert read(data) == old_bytes and listing(d) == ["w.data"]
        assert ea.valid() and eb.valid() and short.valid()

        # 3. kernel copy rejected part-way (EXDEV) -> transparent fallback; fatal errno propagates
        real = getattr(os, "copy_file_range", None)
        calls = []

        def partial_then(err):
            armed = []

            def fake(src_fd, dst_fd, count, *, offset_src=None, offset_dst=None):
                calls.append(count)
                if armed:
                    armed.clear()
                    raise OSError(err, os.strerror(err))
                n = min(count, 1000)
                chunk = os.pread(src_fd, n, offset_src)
                os.pwrite(dst_fd, chunk, offset_dst)
                if n < count:
                    armed.append(True)  # reject the continuation of this tensor
                return n

            return fake

        ea, eb = externals()
        with unittest.mock.patch.object(os, "copy_file_range", partial_then(errno.EIO), create=True):
            try:
                ed.convert_tensors_to_external([ea, eb], d, "w.data")
            except OSError as e:
                assert e.errno == errno.EIO
            else:
                raise AssertionError("expected EIO")
        assert read(data) == old_bytes and listing(d) == ["w.data"]
        assert ea.valid() and eb.valid()
        assert calls == [a.nbytes, a.nbytes - 1000], calls  # the kernel-copy path was taken

        calls.clear()
        ea, eb = externals()
        other = os.path.join(d, "other.data")
        with unittest.mock.patch.object(os, "copy_file_range", partial_then(errno.EXDEV), create=True):
            res = ed.convert_tensors_to_external([eb, ea, eb], d, "other.data")  # duplicates
        assert read(other) == b.tobytes() + a.tobytes() + b.tobytes()
        assert [t.offset for t in res] == [0, b.nbytes, b.nbytes + a.nbytes]
        assert ea.valid() and eb.valid()  # backing file w.data was not replaced
        assert read(data) == old_bytes
        assert getattr(os, "copy_file_range", None) is real
        assert calls == [b.nbytes, a.nbytes, a.nbytes - 1000, b.nbytes], calls
        os.remove(other)

        # 4. successful self-overwrite: reordered, with a tensor that has no tofile()
        ea, eb = externals()
        legacy = NoToFile(np.full(5, 7, dtype=np.int16), "legacy")
        assert not hasattr(legacy, "tofile")
        res = ed.convert_tensors_to_external([eb, legacy, ea], d, "w.data")
        new_bytes = b.tobytes() + np.full(5, 7, dtype=np.int16).tobytes() + a.tobytes()
        assert read(data) == new_bytes
        assert listing(d) == ["w.data"]
        assert oct(os.stat(data).st_mode & 0o777) == oct(0o640)
        assert not ea.valid() and not eb.valid()
        assert res[2].tobytes() == a.tobytes() and res[0].tobytes() == b.tobytes()
        for t in res:
            t.release()

        # 5. legacy tensor failing in tobytes(): destination keeps the (new) previous bytes
        class BadLegacy(NoToFile):
            def tobytes(self):
                raise Boom("tobytes")

        try:
            ed.convert_tensors_to_external([ir.Tensor(b, name="b"), BadLegacy(b, "x")], d, "w.data")
        except Boom:
            pass
        else:
            raise AssertionError("expected Boom")
        assert read(data) == new_bytes and listing(d) == ["w.data"]

        # 6. empty input replaces the file with an empty one; rejected options touch nothing
        os.mkdir(os.path.join(d, "sub"))
        sub = os.path.join(d, "sub")
        with open(os.path.join(sub, "e.data"), "wb") as f:
            f.write(b"xyz")
        try:
            ed.convert_tensors_to_external([], sub, "e.data", max_workers=0)
        except ValueError:
            pass
        else:
            raise AssertionError("expected ValueError")
        assert read(os.path.join(sub, "e.data")) == b"xyz"
        assert ed.convert_tensors_to_external([], sub, "e.data") == []
        assert read(os.path.join(sub, "e.data")) == b"" and listing(sub) == ["e.data"]

        # 7. sharded save never changes a pre-existing file
        shard1 = os.path.join(sub, "s-00001-of-00002.data")
        with open(shard1, "wb") as f:
            f.write(b"keep")
        model = make_model([ir.Tensor(b, name="p"), ir.Tensor(b, name="q")])
        try:
            ed.unload_from_model(model, sub, "s.data", max_shard_size_bytes=b.nbytes)
        except FileExistsError:
            pass
        else:
            raise AssertionError("expected FileExistsError")
        assert read(shard1) == b"keep"
        assert listing(sub) == ["e.data", "s-00001-of-00002.data"]
        assert isinstance(model.graph.initializers["p"].const_value, ir.Tensor)

    print("OK")


if __name__ == "__main__":
    main()
