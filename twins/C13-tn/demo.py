"""Demo for C13: clones are faithful and fully independent of their originals.

Exercises Model.clone, Graph.clone (with and without outer-scope values),
GraphView.clone and Function.clone, including nested subgraphs, a rejected
clone (outer-scope value not allowed), a graph output that the clone cannot
resolve, an empty graph, a duplicated graph output and metadata.
"""

from __future__ import annotations

import numpy as np

import onnx_ir as ir


def text(obj) -> bytes:
    return ir.to_proto(obj).SerializeToString(deterministic=True)


def build_model() -> ir.Model:
    x = ir.Value(name="x", type=ir.TensorType(ir.DataType.FLOAT), shape=ir.Shape([2, "N"]))
    cond = ir.Value(name="cond", type=ir.TensorType(ir.DataType.BOOL), shape=ir.Shape([]))
    w = ir.Value(
        name="w",
        type=ir.TensorType(ir.DataType.FLOAT),
        shape=ir.Shape([2]),
        const_value=ir.tensor(np.array([1.0, 2.0], dtype=np.float32), name="w"),
    )
    x.metadata_props["origin"] = "input"
    x.meta["scratch"] = {"k": [1, 2]}

    add = ir.Node("", "Add", [x, w], name="add")
    add.outputs[0].name = "a"
    add.outputs[0].type = ir.TensorType(ir.DataType.FLOAT)
    add.outputs[0].shape = ir.Shape([2, "N"])
    add.metadata_props["tag"] = "first"
    add.meta["m"] = ["list"]

    # Subgraphs capturing the outer value "a" and "x"
    then_node = ir.Node("", "Relu", [add.outputs[0]], name="then_relu")
    then_node.outputs[0].name = "t"
    then_graph = ir.Graph([], [then_node.outputs[0]], nodes=[then_node], name="then_g")
    else_node = ir.Node("", "Neg", [x], name="else_neg")
    else_node.outputs[0].name = "e"
    else_graph = ir.Graph([], [else_node.outputs[0]], nodes=[else_node], name="else_g")
    if_node = ir.Node(
        "",
        "If",
        [cond],
        [ir.AttrGraph("then_branch", then_graph), ir.AttrGraph("else_branch", else_graph)],
        name="if",
    )
    if_node.outputs[0].name = "y"
    call = ir.Node("custom", "F", [if_node.outputs[0]], [ir.AttrFloat32("alpha", 0.5)], name="call")
    call.outputs[0].name = "z"

    graph = ir.Graph(
        [x, cond],
        # duplicated graph output
        [call.outputs[0], call.outputs[0], add.outputs[0]],
        nodes=[add, if_node, call],
        initializers=[w],
        opset_imports={"": 20, "custom": 1},
        name="main",
        doc_string="main graph",
    )
    graph.metadata_props["gk"] = "gv"
    graph.meta["gm"] = {"a": 1}

    # Function with a reference attribute
    fx = ir.Value(name="fx")
    fnode = ir.Node("", "LeakyRelu", [fx], [ir.RefAttr("alpha", "alpha", ir.AttributeType.FLOAT)], name="fn")
    fnode.outputs[0].name = "fy"
    fgraph = ir.Graph([fx], [fnode.outputs[0]], nodes=[fnode], opset_imports={"": 20}, name="F_body")
    func = ir.Function(
        "custom", "F", graph=fgraph, attributes=[ir.Attr("alpha", ir.AttributeType.FLOAT, None)]
    )
    model = ir.Model(
        graph,
        ir_version=10,
        producer_name="demo",
        functions=[func],
        metadata_props={"mk": "mv"},
    )
    return model


def all_values(graph) -> list[ir.Value]:
    vals = list(graph.inputs)
    if not isinstance(graph, ir.Function):
        vals += list(graph.initializers.values())
    for node in ir.traversal.RecursiveGraphIterator(graph):
        vals.extend(node.outputs)
    return vals


def all_nodes(graph) -> list[ir.Node]:
    return list(ir.traversal.RecursiveGraphIterator(graph))


def check_disjoint(orig_graph, clone_graph) -> None:
    o_vals = {id(v) for v in all_values(orig_graph)}
    o_nodes = {id(n) for n in all_nodes(orig_graph)}
    for v in all_values(clone_graph):
        assert id(v) not in o_vals, v
    for n in all_nodes(clone_graph):
        assert id(n) not in o_nodes, n
        for inp in n.inputs:
            assert inp is None or id(inp) not in o_vals, (n, inp)
        assert n.metadata_props is not None
    for out in clone_graph.outputs:
        assert id(out) not in o_vals


def main() -> None:
    model = build_model()
    before = text(model)

    # ---- Model.clone: faithful
    clone = model.clone()
    assert isinstance(clone, ir.Model)
    assert text(clone) == before
    assert clone.graph is not model.graph
    check_disjoint(model.graph, clone.graph)
    # duplicated graph output stays duplicated and refers to a single cloned value
    assert clone.graph.outputs[0] is clone.graph.outputs[1]
    assert clone.graph.outputs[0] is not model.graph.outputs[0]
    # tensors may be shared
    assert clone.graph.initializers["w"].const_value is model.graph.initializers["w"].const_value
    # functions cloned
    (fid,) = model.functions.keys()
    assert clone.functions[fid] is not model.functions[fid]
    check_disjoint(model.functions[fid], clone.functions[fid])
    assert clone.functions[fid].attributes is not model.functions[fid].attributes
    assert clone.metadata_props == {"mk": "mv"}
    assert clone.metadata_props is not model.metadata_props
    # captured values in the cloned subgraphs point into the clone
    cif = clone.graph.node("if")
    cthen = cif.attributes["then_branch"].as_graph()
    assert cthen is not model.graph.node("if").attributes["then_branch"].as_graph()
    assert cthen.node(0).inputs[0] is clone.graph.node("add").outputs[0]
    celse = cif.attributes["else_branch"].as_graph()
    assert celse.node(0).inputs[0] is clone.graph.inputs[0]
    # metadata containers are new; shallow vs deep copies of meta
    assert clone.graph.inputs[0].meta is not model.graph.inputs[0].meta
    assert clone.graph.inputs[0].meta["scratch"] is model.graph.inputs[0].meta["scratch"]
    deep = model.clone(deep_copy=True)
    assert text(deep) == before
    assert deep.graph.inputs[0].meta["scratch"] is not model.graph.inputs[0].meta["scratch"]
    assert deep.graph.inputs[0].meta["scratch"] == {"k": [1, 2]}
    assert deep.graph.meta["gm"] == {"a": 1} and deep.graph.meta["gm"] is not model.graph.meta["gm"]

    # ---- edits of the clone leave the original unchanged
    clone.graph.inputs[0].name = "renamed"
    clone.graph.inputs[0].shape = ir.Shape([7])
    clone.graph.inputs[0].metadata_props["origin"] = "changed"
    clone.graph.node("add").metadata_props["tag"] = "edited"
    clone.graph.node("add").attributes["extra"] = ir.AttrInt64("extra", 1)
    clone.graph.node("add").replace_input_with(0, clone.graph.inputs[1])
    cthen.node(0).replace_input_with(0, clone.graph.inputs[0])
    clone.graph.outputs.pop()
    clone.graph.opset_imports["new"] = 3
    clone.graph.metadata_props["gk"] = "other"
    clone.metadata_props["mk"] = "other"
    clone.functions[fid].attributes["beta"] = ir.AttrFloat32("beta", 1.0)
    clone.functions[fid][0].op_type = "Elu"
    clone.graph.initializers["w"].const_value = None
    assert text(model) == before, "editing the clone changed the original"
    assert text(clone) != before

    # ---- and vice versa
    clone2 = model.clone()
    snap2 = text(clone2)
    model.graph.inputs[0].name = "x2"
    model.graph.node("add").outputs[0].shape = ir.Shape([1])
    model.graph.node("if").attributes["then_branch"].as_graph().node(0).op_type = "Abs"
    model.graph.metadata_props["gk"] = "zzz"
    model.functions[fid][0].name = "fn2"
    assert text(clone2) == snap2 == before
    model = clone2  # continue with a pristine copy

    # ---- Graph.clone of a subgraph with captured values
    then_g = model.graph.node("if").attributes["then_branch"].as_graph()
    try:
        then_g.clone()
    except Exception as e:  # a clear error mentioning the outer scope value
        chain, cur = [], e
        while cur is not None:
            chain.append(cur)
            cur = cur.__cause__
        assert isinstance(chain[-1], ValueError), chain
        assert "outer-scope" in str(chain[-1]) and "allow_outer_scope_values" in str(chain[-1])
        assert all(isinstance(c, RuntimeError) for c in chain[:-1])
    else:
        raise AssertionError("cloning a graph with captured values must be rejected")
    assert text(model) == before, "rejected clone altered the original"
    allowed = then_g.clone(allow_outer_scope_values=True)
    assert allowed is not then_g
    assert allowed.node(0) is not then_g.node(0)
    assert allowed.node(0).inputs[0] is model.graph.node("add").outputs[0]  # captured, shared
    assert allowed.outputs[0] is allowed.node(0).outputs[0]
    # the new use is registered on the captured value but serialisation is unchanged
    assert text(model) == before
    allowed.node(0).replace_input_with(0, None)
    allowed.node(0).outputs[0].name = "other"
    assert text(model) == before

    # ---- GraphView.clone: inputs that have producers, outputs inside
    add = model.graph.node("add")
    ifn = model.graph.node("if")
    view = ir.GraphView([add.outputs[0], model.graph.inputs[1], model.graph.inputs[0]],
                        [ifn.outputs[0]], nodes=[ifn], name="view")
    vclone = view.clone()
    assert isinstance(vclone, ir.Graph)
    assert vclone.name == "view"
    assert [v.name for v in vclone.inputs] == ["a", "cond", "x"]
    assert all(v.producer() is None for v in vclone.inputs)
    check_disjoint(view, vclone)
    vthen = vclone.node(0).attributes["then_branch"].as_graph()
    assert vthen.node(0).inputs[0] is vclone.inputs[0]
    vclone.inputs[0].name = "changed"
    vclone.node(0).op_type = "NotIf"
    assert text(model) == before

    # ---- GraphView whose output is not produced inside the view: rejected, original intact
    bad_view = ir.GraphView([model.graph.inputs[1]], [add.outputs[0]], nodes=[], name="bad")
    try:
        bad_view.clone()
    except RuntimeError as e:
        assert "clone_graph" in str(e)
        inner = e.__cause__
        assert isinstance(inner, RuntimeError) and "_get_value" in str(inner), inner
        assert isinstance(inner.__cause__, KeyError), inner.__cause__
    else:
        raise AssertionError("unresolvable graph output must be rejected")
    assert text(model) == before

    # ---- empty graph
    empty = ir.Graph([], [], nodes=[], name="empty")
    ec = empty.clone()
    assert ec is not empty and len(ec) == 0 and not ec.inputs and not ec.outputs
    assert ec.name == "empty"
    ec.append(ir.Node("", "Identity", [None]))
    assert len(empty) == 0

    # ---- Function.clone: independent, reference attributes preserved
    func = model.functions[fid]
    fbefore = text(func)
    fclone = func.clone()
    assert text(fclone) == fbefore
    assert fclone[0].attributes["alpha"].is_ref()
    assert fclone[0].attributes["alpha"].ref_attr_name == "alpha"
    fclone[0].attributes.pop("alpha")
    fclone.inputs[0].name = "other"
    fclone.attributes.pop("alpha")
    fclone.name = "G"
    assert text(func) == fbefore
    # two clones do not share anything between themselves either
    f1, f2 = func.clone(), func.clone()
    check_disjoint(f1, f2)

    # ---- a pass that clones must not alter its input
    final = model.clone()
    final.graph.sort()
    for node in list(final.graph):
        node.name = (node.name or "") + "_p"
    assert text(model) == before

    print("OK")


if __name__ == "__main__":
    main()
