"""Demo for property C13: clones are faithful and fully independent of their originals.

Exercises Model/Graph/GraphView/Function.clone (all go through Cloner.clone_graph and
the error-context decorator of onnx_ir._cloner) on nested, shared, empty and rejected inputs.
"""

from __future__ import annotations

import numpy as np

import onnx_ir as ir
from onnx_ir.passes import common as common_passes


def ser(obj) -> bytes:
    return ir.to_proto(obj).SerializeToString(deterministic=True)


def build_model() -> ir.Model:
    x = ir.val("x", ir.DataType.FLOAT, ["N", 3])
    cond = ir.val("cond", ir.DataType.BOOL, [])
    w = ir.val("w", ir.DataType.FLOAT, [3], const_value=ir.tensor(np.ones(3, np.float32), name="w"))
    w.metadata_props["origin"] = "weights"
    w.meta["tag"] = {"k": [1, 2]}
    # "w" is both an input and an initializer (shared value)
    # Node with duplicate inputs and a missing (None) input
    add = ir.node("Add", [x, x], name="add")
    add.outputs[0].name = "xx"
    add.outputs[0].shape = ir.Shape(["N", 3])
    add.outputs[0].type = ir.TensorType(ir.DataType.FLOAT)
    add.metadata_props["note"] = "dup"
    add.meta["scratch"] = ["a"]
    clip = ir.node("Clip", [add.outputs[0], None, w], name="clip")
    clip.outputs[0].name = "clipped"

    # Subgraphs capturing outer-scope values (x, clipped)
    then_node = ir.node("Mul", [clip.outputs[0], w], name="then_mul")
    then_node.outputs[0].name = "then_out"
    then_graph = ir.Graph([], [then_node.outputs[0]], nodes=[then_node], name="then_g")
    else_node = ir.node("Identity", [x], name="else_id")
    else_node.outputs[0].name = "else_out"
    else_graph = ir.Graph([], [else_node.outputs[0]], nodes=[else_node], name="else_g")
    else_graph.metadata_props["branch"] = "else"
    if_node = ir.node(
        "If",
        [cond],
        attributes={"then_branch": then_graph, "else_branch": else_graph},
        name="if",
    )
    if_node.outputs[0].name = "y"
    call = ir.node("F", [if_node.outputs[0]], domain="local", name="call", attributes={"alpha": 2.0})
    call.outputs[0].name = "z"

    graph = ir.Graph(
        [x, cond, w],
        # x is both a graph input and a graph output; y is listed twice
        [call.outputs[0], x, if_node.outputs[0], if_node.outputs[0]],
        nodes=[add, clip, if_node, call],
        initializers=[w],
        opset_imports={"": 20, "local": 1},
        name="main",
        doc_string="main graph",
    )
    graph.metadata_props["gk"] = "gv"
    graph.meta["gm"] = {"nested": [1]}

    # Function with a reference attribute and an inner subgraph
    fx = ir.val("fx", ir.DataType.FLOAT, ["N", 3])
    fnode = ir.Node(
        "",
        "Scale",
        [fx],
        [ir.RefAttr("scale", "alpha", ir.AttributeType.FLOAT)],
        name="fscale",
    )
    fnode.outputs[0].name = "fy"
    fgraph = ir.Graph([fx], [fnode.outputs[0]], nodes=[fnode], opset_imports={"": 20}, name="F_body")
    func = ir.Function("local", "F", "", graph=fgraph, attributes=[ir.Attr("alpha", ir.AttributeType.FLOAT, None)])

    model = ir.Model(graph, ir_version=10, producer_name="demo", functions=[func])
    model.metadata_props["mk"] = "mv"
    return model


def all_graphs(model: ir.Model):
    yield from model.graphs()
    for f in model.functions.values():
        yield f.graph if hasattr(f, "graph") else f._graph


def check_disjoint(a: ir.Model, b: ir.Model) -> None:
    ids_a = set()
    for g in [a.graph, *a.graph.subgraphs()]:
        ids_a.add(id(g))
        for n in g:
            ids_a.add(id(n))
            ids_a.add(id(n.meta))
            ids_a.add(id(n.metadata_props))
            for v in n.outputs:
                ids_a.update((id(v), id(v.meta), id(v.metadata_props)))
                if v.shape is not None:
                    ids_a.add(id(v.shape))
        for v in [*g.inputs, *g.initializers.values()]:
            ids_a.update((id(v), id(v.meta), id(v.metadata_props)))
            if v.shape is not None:
                ids_a.add(id(v.shape))
            if v.type is not None:
                ids_a.add(id(v.type))
    for g in [b.graph, *b.graph.subgraphs()]:
        assert id(g) not in ids_a
        for n in g:
            assert id(n) not in ids_a and id(n.meta) not in ids_a
            assert id(n.metadata_props) not in ids_a
            for v in n.inputs:
                assert v is None or id(v) not in ids_a, f"clone references original value {v}"
            for v in n.outputs:
                assert id(v) not in ids_a and id(v.meta) not in ids_a
                assert v.shape is None or id(v.shape) not in ids_a
        for v in [*g.inputs, *g.initializers.values(), *g.outputs]:
            assert id(v) not in ids_a
            assert v.shape is None or id(v.shape) not in ids_a
            assert v.type is None or id(v.type) not in ids_a


def main() -> None:
    model = build_model()
    before = ser(model)

    # --- 1. faithful + independent model clone (shallow and deep metadata copies)
    for deep in (False, True):
        clone = model.clone(deep_copy=deep)
        assert ser(clone) == before
        check_disjoint(model, clone)
        cg = clone.graph
        # sharing structure is preserved inside the clone
        assert cg.outputs[1] is cg.inputs[0]
        assert cg.outputs[2] is cg.outputs[3]
        assert cg.initializers["w"] is cg.inputs[2]
        assert cg.node("add").inputs[0] is cg.node("add").inputs[1] is cg.inputs[0]
        assert cg.node("clip").inputs[1] is None
        # captured values of nested subgraphs point into the clone
        then_g = cg.node("if").attributes["then_branch"].as_graph()
        assert then_g.node("then_mul").inputs[0] is cg.node("clip").outputs[0]
        assert then_g.node("then_mul").inputs[1] is cg.inputs[2]
        else_g = cg.node("if").attributes["else_branch"].as_graph()
        assert else_g.node("else_id").inputs[0] is cg.inputs[0]
        assert else_g.metadata_props == {"branch": "else"}
        # tensors may be shared
        assert cg.inputs[2].const_value is model.graph.inputs[2].const_value
        # metadata containers
        assert cg.meta["gm"] == {"nested": [1]}
        assert (cg.meta["gm"] is model.graph.meta["gm"]) == (not deep)
        assert (cg.inputs[2].meta["tag"] is model.graph.inputs[2].meta["tag"]) == (not deep)
        assert cg.metadata_props == {"gk": "gv"} and cg.metadata_props is not model.graph.metadata_props
        assert cg.opset_imports == {"": 20, "local": 1} and cg.opset_imports is not model.graph.opset_imports

        # edit the clone heavily; the original must not change
        cg.inputs[0].name = "renamed"
        cg.inputs[0].shape[0] = 7
        cg.inputs[0].type = ir.TensorType(ir.DataType.DOUBLE)
        cg.inputs[2].const_value = ir.tensor(np.zeros(3, np.float32), name="w")
        cg.inputs[2].metadata_props["origin"] = "changed"
        cg.node("add").replace_input_with(1, cg.inputs[2])
        cg.node("add").attributes["extra"] = ir.AttrInt64("extra", 1)
        cg.node("add").metadata_props.clear()
        cg.metadata_props["gk"] = "other"
        cg.opset_imports[""] = 21
        cg.meta["new"] = 1
        else_g.node("else_id").replace_input_with(0, cg.node("clip").outputs[0])
        then_g.remove(then_g.node("then_mul"), safe=False)
        cg.outputs.pop()
        cg.remove(cg.node("call"), safe=False)
        clone.functions[("local", "F", "")].graph.node("fscale").name = "other"
        clone.metadata_props["mk"] = "x"
        assert ser(model) == before, "editing the clone changed the original"

        # and vice versa: edit the original, the (fresh) clone is unchanged
        clone2 = model.clone(deep_copy=deep)
        snap2 = ser(clone2)
        model.graph.inputs[0].shape[1] = 5
        model.graph.node("clip").replace_input_with(0, model.graph.inputs[0])
        model.graph.metadata_props["later"] = "1"
        assert ser(clone2) == snap2 == before
        # undo
        model.graph.inputs[0].shape[1] = 3
        model.graph.node("clip").replace_input_with(0, model.graph.node("add").outputs[0])
        del model.graph.metadata_props["later"]
        assert ser(model) == before

    # --- 2. Function.clone
    func = model.functions[("local", "F", "")]
    fclone = func.clone()
    assert ser(fclone) == ser(func)
    assert fclone.graph is not func.graph and fclone.inputs[0] is not func.inputs[0]
    assert fclone.graph.node("fscale").attributes["scale"].is_ref()
    fclone.graph.node("fscale").op_type = "Other"
    fclone.inputs[0].name = "q"
    assert ser(model) == before

    # --- 3. subgraph clones: rejected without permission, allowed when explicit
    then_orig = model.graph.node("if").attributes["then_branch"].as_graph()
    then_before = ser(then_orig)
    try:
        then_orig.clone()
    except RuntimeError as e:
        # clear error, chained: clone_graph -> clone_node -> ValueError
        assert str(e).startswith("In clone_graph with args (")
        assert str(e).endswith(") and kwargs {'deep_copy': False}"), str(e)
        inner = e.__cause__
        assert type(inner) is RuntimeError
        assert str(inner).startswith("In clone_node with args (")
        assert str(inner).endswith(") and kwargs {'deep_copy': False}"), str(inner)
        root = inner.__cause__
        assert type(root) is ValueError and root.__cause__ is None
        assert "is an outer-scope value (from graph 'main')" in str(root)
        assert "'allow_outer_scope_values' is set to False" in str(root)
    else:
        raise AssertionError("cloning a capturing subgraph must be rejected by default")
    assert ser(model) == before and ser(then_orig) == then_before

    sub = then_orig.clone(allow_outer_scope_values=True, deep_copy=True)
    assert ser(sub) == then_before
    assert sub.node("then_mul") is not then_orig.node("then_mul")
    # captured outer-scope values are passed through unchanged
    assert sub.node("then_mul").inputs[0] is model.graph.node("clip").outputs[0]
    assert sub.node("then_mul").inputs[1] is model.graph.inputs[2]
    sub.node("then_mul").replace_input_with(0, model.graph.inputs[0])
    sub.outputs[0].name = "zzz"
    # detach again so that the original's use lists are what they were
    sub.node("then_mul").replace_input_with(0, None)
    sub.node("then_mul").replace_input_with(1, None)
    assert ser(model) == before
    assert [u.node.name for u in model.graph.inputs[2].uses()] == ["clip", "then_mul"]

    # --- 4. the whole model clone of a model whose main-graph node uses a foreign value is rejected
    foreign = ir.val("foreign", ir.DataType.FLOAT, [1])
    bad_node = ir.node("Neg", [foreign], name="neg")
    bad_graph = ir.Graph([], [bad_node.outputs[0]], nodes=[bad_node], name="bad")
    try:
        bad_graph.clone()
    except RuntimeError as e:
        root = e.__cause__.__cause__
        assert type(root) is ValueError and "(from graph '<unknown>')" in str(root)
    else:
        raise AssertionError("expected rejection")
    ok = bad_graph.clone(allow_outer_scope_values=True)
    assert ok.node("neg").inputs[0] is foreign and ok.node("neg") is not bad_node

    # graph whose output is not produced inside it: clear chained error from the output lookup
    dangling = ir.Graph([], [foreign], nodes=[], name="dangling")
    try:
        dangling.clone(allow_outer_scope_values=True)
    except RuntimeError as e:
        assert str(e).startswith("In clone_graph with args (")
        assert str(e).endswith(") and kwargs {'deep_copy': False}")
        inner = e.__cause__
        assert type(inner) is RuntimeError
        assert str(inner).startswith("In _get_value with args (") and str(inner).endswith(") and kwargs {}")
        assert type(inner.__cause__) is KeyError
    else:
        raise AssertionError("expected an error for a dangling graph output")

    # --- 5. empty graph, and a GraphView over a slice of the main graph
    empty = ir.Graph([], [], nodes=[], name="empty")
    eclone = empty.clone()
    assert eclone is not empty and ser(eclone) == ser(empty)
    assert len(eclone) == 0 and not eclone.inputs and not eclone.outputs and not eclone.initializers
    eclone.append(ir.node("Relu", [ir.val("a")]))
    assert len(empty) == 0

    g = model.graph
    view = ir.GraphView(
        [g.node("add").outputs[0], g.inputs[2]],  # input with a producer
        [g.node("clip").outputs[0]],
        nodes=[g.node("clip")],
        name="view",
    )
    vclone = view.clone()
    assert isinstance(vclone, ir.Graph)
    assert ser(vclone) == ser(view)
    assert vclone.inputs[0].producer() is None and vclone.inputs[0] is not g.node("add").outputs[0]
    assert vclone.node("clip").inputs[0] is vclone.inputs[0]
    assert vclone.node("clip").inputs[2] is vclone.inputs[1]
    vclone.node("clip").replace_input_with(2, None)
    vclone.inputs[0].name = "v_in"
    assert ser(model) == before

    # --- 6. a functionalized pass never alters its input model
    fpass = ir.passes.functionalize(common_passes.ClearMetadataAndDocStringPass())
    result = fpass(model)
    assert result.model is not model
    assert result.model.graph.metadata_props == {} and result.model.graph.doc_string is None
    assert ser(model) == before
    assert model.graph.node("add").metadata_props == {"note": "dup"}

    print("OK")


if __name__ == "__main__":
    main()
