"""Demo for C20: journaling observes without interfering and always restores the classes.

Exercises the journaled Graph methods (register_initializer, append, extend, remove,
insert_after, insert_before, sort) inside and outside journals, with nesting up to depth 3,
rejected calls, empty inputs, keyword arguments and exceptions leaving the block.
"""

from __future__ import annotations

import gc
import re
import sys

import onnx_ir as ir
from onnx_ir import _core, _graph_containers
from onnx_ir.journaling import Journal, get_current_journal

GRAPH_METHODS = (
    "register_initializer",
    "append",
    "extend",
    "remove",
    "insert_after",
    "insert_before",
    "sort",
)


def snapshot_classes():
    """Identity of every attribute the journal is known to replace."""
    snap = {}
    for cls in (
        _core.TensorBase,
        _core.Node,
        _core.Value,
        _core.Graph,
        _core.Model,
        _core.Function,
        _core.Attr,
        _graph_containers._GraphIO,
        _graph_containers.GraphInitializers,
        _graph_containers.Attributes,
    ):
        for key, attr in vars(cls).items():
            if isinstance(attr, property):
                snap[(cls.__name__, key)] = (attr.fget, attr.fset, attr.fdel)
            elif callable(attr):
                snap[(cls.__name__, key)] = attr
    return snap


def run_scenario(depth: int, throw: bool):
    """Run a fixed sequence of graph operations inside `depth` nested journals.

    Returns (observations, journals, keep). Observations are plain data (no object ids) so
    that runs can be compared; keep holds the graphs alive until the caller drops it.
    """
    obs = []
    keep = []
    journals = [Journal() for _ in range(depth)]

    def body():
        x = ir.val("x")
        g = ir.Graph([x], [], nodes=[], name="g")
        keep.append(g)
        a = ir.node("Relu", inputs=[x], name="a")
        b = ir.node("Neg", inputs=[a.outputs[0]], name="b")
        c = ir.node("Abs", inputs=[b.outputs[0]], name="c")
        d = ir.node("Exp", inputs=[x], name="d")
        e = ir.node("Log", inputs=[x], name="e")

        def note(label, fn):
            try:
                result = fn()
                obs.append((label, "ok", repr(result)))
            except Exception as exc:  # noqa: BLE001
                obs.append((label, type(exc).__name__, re.sub(r"anonymous:\d+", "anonymous", str(exc))))
            obs.append((label, "nodes", [n.name for n in g]))

        note("append c", lambda: g.append(c))
        note("extend []", lambda: g.extend([]))  # empty input
        note("extend (a,)", lambda: g.extend((a,)))
        note("insert_before c b", lambda: g.insert_before(c, b))
        note("insert_after a [d]", lambda: g.insert_after(a, [d]))
        note("insert_after kw", lambda: g.insert_after(node=d, new_nodes=[e]))
        note("sort", lambda: g.sort())
        # Rejected calls: a node of another graph, a node that is not in the graph, a used node
        other = ir.Graph([], [], nodes=[], name="other")
        foreign = ir.node("Identity", inputs=[x], name="foreign")
        other.append(foreign)
        note("append foreign", lambda: g.append(foreign))
        note("insert_after foreign", lambda: g.insert_after(foreign, [ir.node("Abs", inputs=[x])]))
        note("remove foreign", lambda: g.remove(foreign))
        note("remove a safe", lambda: g.remove(a, safe=True))
        note("remove dup", lambda: g.remove([e, e]))  # duplicates
        note("remove e kw", lambda: g.remove(nodes=e, safe=False))
        note("sort bad arg", lambda: g.sort(1))  # wrong arity
        # Initializers
        w = ir.Value(name="w", const_value=ir.tensor([1.0, 2.0], name="w"))
        note("register w", lambda: g.register_initializer(w))
        note("register w again", lambda: g.register_initializer(w))
        note("register unnamed", lambda: g.register_initializer(ir.Value(name=None)))
        note("register other w", lambda: g.register_initializer(
            ir.Value(name="w", const_value=ir.tensor([3.0], name="w"))))
        obs.append(("initializers", sorted(g.initializers)))
        obs.append(("final", [(n.name, n.op_type, [i.name for i in n.inputs]) for n in g]))
        if throw:
            raise KeyError("boom")

    def nest(i):
        if i == depth:
            body()
            return
        with journals[i] as j:
            assert j is journals[i]
            assert get_current_journal() is journals[i]
            nest(i + 1)
            assert get_current_journal() is journals[i]

    try:
        nest(0)
        obs.append(("raised", None))
    except KeyError as exc:
        obs.append(("raised", repr(exc)))
    return obs, journals, keep


def main() -> int:
    before = snapshot_classes()
    assert get_current_journal() is None

    baseline, _, _ = run_scenario(0, throw=False)
    baseline_throw, _, _ = run_scenario(0, throw=True)
    # The rejected calls are indeed rejected
    labels = {(o[0], o[1]) for o in baseline if len(o) == 3 and o[1] not in ("ok", "nodes")}
    assert ("append foreign", "ValueError") in labels, labels
    assert ("sort bad arg", "TypeError") in labels, labels

    for depth in (1, 2, 3):
        for throw in (False, True):
            obs, journals, keep = run_scenario(depth, throw)
            expected = baseline_throw if throw else baseline
            # A call with too many arguments is a TypeError in both worlds; its message names
            # the callee that rejected it, which under a journal is the details function.
            arity = [o for o in obs if o[0] == "sort bad arg" and o[1] == "TypeError"]
            assert arity == [(
                "sort bad arg", "TypeError",
                "wrap_ir_classes.<locals>.<lambda>() takes 1 positional argument but 2 were given",
            )], arity
            strip = lambda seq: [o for o in seq if o[:2] != ("sort bad arg", "TypeError")]  # noqa: E731
            assert strip(obs) == strip(expected), (depth, throw, obs, expected)
            assert len(obs) == len(expected)
            assert get_current_journal() is None
            assert snapshot_classes() == before, "classes not restored"
            # Nested journals wrap the already wrapped classes: each level records it all
            inner = journals[-1]
            key = lambda j: [(e.operation, e.class_name, e.details, e.object_id) for e in j.entries]  # noqa: E731
            for j in journals[:-1]:
                assert key(j) == key(inner)
            graph_ops = [
                (e.operation, e.details)
                for e in inner.entries
                if e.class_name == "Graph" and e.operation in GRAPH_METHODS
                and e.obj is keep[0]
            ]
            ops = [op for op, _ in graph_ops]
            # (the two keyword calls of positional-only parameters are recorded, then rejected
            # by the original method with the same TypeError as outside a journal)
            # Graph.__init__ and Graph.sort call self.extend themselves: also journaled.
            assert ops == [
                "extend", "append", "extend", "extend", "insert_before", "insert_after",
                "insert_after", "sort", "extend", "append", "insert_after",
                "remove", "remove", "remove", "remove",
                "register_initializer", "register_initializer", "register_initializer",
                "register_initializer",
            ], ops
            details = dict((op, d) for op, d in reversed(graph_ops))  # first of each op
            assert details["sort"] is None
            assert details["extend"] == "[]", details["extend"]
            assert details["append"].startswith("Node(name='c'"), details["append"]
            assert details["insert_before"].startswith("node=Node(name='c'"), details
            assert ", new_nodes=Node(name='b'" in details["insert_before"], details
            assert details["remove"].startswith("nodes=Node(name='foreign'"), details["remove"]
            assert details["remove"].endswith(", safe=False"), details["remove"]
            assert graph_ops[12][1].endswith(", safe=True"), graph_ops[12]
            assert graph_ops[14][1].endswith(", safe=False"), graph_ops[14]
            assert details["register_initializer"].startswith("Value(name='w'"), details
            # "sort bad arg" raised before anything was recorded, inside and outside alike
            assert ops.count("sort") == 1
            # Timestamps are in program order
            stamps = [e.timestamp for e in inner.entries]
            assert stamps == sorted(stamps)
            # Stack traces end in this file (the caller of the journaled method)
            # ... or, for the two internal extend calls, in the library method that made it
            graph_entries = [
                e for e in inner.entries
                if e.class_name == "Graph" and e.operation in GRAPH_METHODS and e.obj is keep[0]
            ]
            for i, e in enumerate(graph_entries):
                last = e.stack_trace[-1]
                if i in (0, 8):
                    assert last.filename.endswith("_core.py"), last
                    assert last.name == ("__init__" if i == 0 else "sort"), last
                else:
                    assert last.filename == __file__ and last.name == "<lambda>", last
            del graph_entries, e
            # Entries keep nothing alive: every IR object of the scenario is garbage now
            del keep
            gc.collect()
            alive = [e for e in inner.entries if e.ref is not None and e.ref() is not None]
            assert not alive, [(e.class_name, e.operation) for e in alive]

    # Re-entering the same journal inside its own block, leaving by exception
    j = Journal()
    g = ir.Graph([], [], nodes=[], name="again")
    try:
        with j:
            with j:
                g.sort()
                assert get_current_journal() is j
            assert get_current_journal() is j
            g.sort()
            raise RuntimeError("leave")
    except RuntimeError:
        pass
    # Inside the inner block both layers of wrappers record into j
    assert [e.operation for e in j.entries] == ["sort", "sort", "sort"], [
        e.operation for e in j.entries
    ]
    assert get_current_journal() is None
    assert snapshot_classes() == before
    n_entries = len(j.entries)
    g.sort()
    g.extend([])
    assert len(j.entries) == n_entries, "journal still records after exit"

    # A hook sees each entry once, at the moment of the call (before the operation runs)
    seen = []
    j2 = Journal()
    g2 = ir.Graph([], [], nodes=[], name="hooked")
    j2.add_hook(lambda entry: seen.append((entry.operation, len(g2))))
    with j2:
        g2.append(ir.node("Relu", inputs=[ir.val("x")], name="r"))
        g2.extend([])
    graph_seen = [s for s in seen if s[0] in GRAPH_METHODS]
    assert graph_seen == [("append", 0), ("extend", 1)], seen
    assert snapshot_classes() == before
    print("C20 demo OK")
    return 0


if __name__ == "__main__":
    sys.exit(main())
