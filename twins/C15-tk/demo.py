"""Demo for C15: generated names never collide; bulk renaming is all-or-nothing."""

import numpy as np

import onnx_ir as ir
from onnx_ir import convenience


def check(cond, msg):
    if not cond:
        raise SystemExit(f"FAIL: {msg}")


def mknode(name=None, out_name=None, inputs=(), op="Add"):
    out = ir.Value(name=out_name)
    return ir.Node("", op, inputs=list(inputs), outputs=[out], name=name)


# ---- Part 1: name authority over an add / remove / re-add history ----
x = ir.Value(name="val_1")  # explicit name shaped like a generated one
graph = ir.Graph([x], [], nodes=[], name="g")
issued_nodes: set[str] = set()
issued_values: set[str] = {"val_1"}

# explicit names that look like generated ones, ahead of the counters
n_explicit = mknode(name="node_Add_1", out_name="val_3", inputs=[x])
graph.append(n_explicit)
check(n_explicit.name == "node_Add_1", "explicit node name altered")
check(n_explicit.outputs[0].name == "val_3", "explicit value name altered")
issued_nodes.add("node_Add_1")
issued_values.add("val_3")

history = []
for i in range(8):
    n = mknode(inputs=[x])
    graph.append(n)
    check(n.name and n.outputs[0].name, "unnamed after append")
    check(n.name not in issued_nodes, f"node name {n.name} reused")
    check(n.outputs[0].name not in issued_values, f"value name {n.outputs[0].name} reused")
    issued_nodes.add(n.name)
    issued_values.add(n.outputs[0].name)
    history.append(n)
    if i % 3 == 0:
        # remove, then add an explicitly named node taking the next generated shape
        graph.remove(n)
        e = mknode(name=f"node_Add_{i + 4}", out_name=f"val_{i + 5}", inputs=[x])
        graph.append(e)
        check(e.name == f"node_Add_{i + 4}", "explicit node name altered")
        check(e.outputs[0].name == f"val_{i + 5}", "explicit value name altered")
        issued_nodes.add(e.name)
        issued_values.add(e.outputs[0].name)
        # re-add the removed node: keeps the name it got
        before = (n.name, n.outputs[0].name)
        graph.append(n)
        check((n.name, n.outputs[0].name) == before, "re-added node renamed")

# the empty string is an explicit name, not a missing one
n_empty = mknode(name="", out_name="", inputs=[x])
graph.append(n_empty)
check(n_empty.name == "" and n_empty.outputs[0].name == "", "empty names altered")

# a different op type shares the node counter but not the names
n_mul = mknode(inputs=[x], op="Mul")
graph.append(n_mul)
check(n_mul.name.startswith("node_Mul_") and n_mul.name not in issued_nodes, "Mul name")
check(n_mul.outputs[0].name not in issued_values, "Mul output name reused")

# ---- Part 2: bulk renaming ----
def init(name, v):
    return ir.Value(name=name, const_value=ir.tensor(np.array([v], dtype=np.float32), name=name))


a, b, c = init("a", 1), init("b", 2), init("c", 3)
p = ir.Value(name="p")
g2 = ir.Graph([p], [], nodes=[], initializers=[a, b, c], name="g2")
sub_w = init("a", 9)  # same name in another graph
g3 = ir.Graph([], [], nodes=[], initializers=[sub_w], name="g3")


def snapshot():
    return (
        [(k, id(v), v.name, v.const_value.name) for k, v in g2.initializers.items()],
        [(k, id(v), v.name, v.const_value.name) for k, v in g3.initializers.items()],
        p.name,
    )


# 3-cycle including a plain value and an initializer of a second graph
convenience.rename_values([a, b, c, p, sub_w], ["b", "c", "a", "q", "w"])
check((a.name, b.name, c.name, p.name, sub_w.name) == ("b", "c", "a", "q", "w"), "cycle")
check(all(k == v.name == v.const_value.name for k, v in g2.initializers.items()), "keys g2")
check(set(g2.initializers) == {"a", "b", "c"} and set(g3.initializers) == {"w"}, "key sets")
check(g2.initializers["b"] is a and g2.initializers["a"] is c, "keyed by current names")

# swap (a holds "b", b holds "c") with a duplicated, consistent entry
convenience.rename_values([a, b, a], ["c", "b", "c"])
check((a.name, b.name, c.name) == ("c", "b", "a"), "swap with duplicate entry")
check(all(k == v.name for k, v in g2.initializers.items()), "keys after swap")

# empty input: nothing happens
before = snapshot()
convenience.rename_values([], [])
check(snapshot() == before, "empty rename changed something")


def rejected(values, names, exc):
    before = snapshot()
    try:
        convenience.rename_values(values, names)
    except exc:
        pass
    else:
        raise SystemExit(f"FAIL: rename {names} not rejected")
    check(snapshot() == before, f"rejected rename {names} changed something")


# target held by an initializer outside the set (the valid first pairs must not be applied)
rejected([p, sub_w, a], ["r", "w2", "b"], ValueError)
# two initializers of one graph aim at the same name
rejected([p, a, b], ["r", "z", "z"], ValueError)
# empty initializer name
rejected([p, sub_w, c], ["r", "w2", ""], ValueError)
# conflicting targets for one value
rejected([p, a, a], ["r", "x", "y"], ValueError)
# length mismatch and wrong types
rejected([p, a], ["r"], ValueError)
rejected([p, "a"], ["r", "s"], TypeError)
rejected([p, a], ["r", 3], TypeError)

# the same name in two different graphs is fine
convenience.rename_values([sub_w, a], ["same", "same"])
check(g2.initializers["same"] is a and g3.initializers["same"] is sub_w, "per-graph keys")

# single value / single name form
convenience.rename_values(p, "p_single")
check(p.name == "p_single", "single rename")

print("C15 demo OK")
