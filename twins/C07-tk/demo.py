"""Demo for C07: external-data save/load keeps every initializer and leaves the model untouched.

Exercises ir.save / ir.load and external_data.unload_from_model with thresholds,
sharding, workers, alignment, a subgraph, a shared tensor object, a zero-size tensor,
an already-external initializer, and several rejected / failing calls.
"""

from __future__ import annotations

import os
import sys
import tempfile

import numpy as np

import onnx_ir as ir
from onnx_ir import external_data


def make_model() -> ir.Model:
    rng = np.random.default_rng(7)
    shared = ir.Tensor(rng.standard_normal((40, 10)).astype(np.float32), name="shared_a")
    tensors = {
        "w_big": ir.Tensor(rng.standard_normal((64, 32)).astype(np.float32), name="w_big"),
        "w_small": ir.Tensor(np.arange(6, dtype=np.int64), name="w_small"),
        "w_empty": ir.Tensor(np.zeros((0, 4), dtype=np.float32), name="w_empty"),
        "w_u8": ir.Tensor(rng.integers(0, 255, (700,), dtype=np.uint8), name="w_u8"),
        "w_lazy": ir.LazyTensor(
            lambda: ir.Tensor(np.full((300,), 3.5, dtype=np.float64), name="w_lazy"),
            dtype=ir.DataType.DOUBLE,
            shape=ir.Shape([300]),
            name="w_lazy",
        ),
        "shared_a": shared,
    }
    inits = []
    for name, t in tensors.items():
        v = ir.Value(name=name, shape=t.shape, type=ir.TensorType(t.dtype), const_value=t)
        inits.append(v)
    # A second initializer holding the very same tensor object (duplicate object).
    dup = ir.Value(
        name="shared_b", shape=shared.shape, type=ir.TensorType(shared.dtype), const_value=shared
    )
    inits.append(dup)

    # Subgraph with its own initializers
    sub_t = ir.Tensor(rng.standard_normal((128,)).astype(np.float32), name="sub_w")
    sub_small = ir.Tensor(np.array([1, 2], dtype=np.int32), name="sub_small")
    sub_w = ir.Value(
        name="sub_w", shape=sub_t.shape, type=ir.TensorType(sub_t.dtype), const_value=sub_t
    )
    sub_s = ir.Value(
        name="sub_small",
        shape=sub_small.shape,
        type=ir.TensorType(sub_small.dtype),
        const_value=sub_small,
    )
    sub_node = ir.Node("", "Identity", inputs=[sub_w], num_outputs=1)
    sub_node.outputs[0].name = "sub_out"
    then_graph = ir.Graph(
        inputs=[],
        outputs=[sub_node.outputs[0]],
        nodes=[sub_node],
        initializers=[sub_w, sub_s],
        name="then_g",
    )
    else_node = ir.Node("", "Identity", inputs=[inits[0]], num_outputs=1)
    else_node.outputs[0].name = "else_out"
    else_graph = ir.Graph(
        inputs=[], outputs=[else_node.outputs[0]], nodes=[else_node], name="else_g"
    )
    cond = ir.Value(name="cond", shape=ir.Shape([]), type=ir.TensorType(ir.DataType.BOOL))
    if_node = ir.Node(
        "",
        "If",
        inputs=[cond],
        attributes=[
            ir.AttrGraph("then_branch", then_graph),
            ir.AttrGraph("else_branch", else_graph),
        ],
        num_outputs=1,
    )
    if_node.outputs[0].name = "y"
    graph = ir.Graph(
        inputs=[cond],
        outputs=[if_node.outputs[0]],
        nodes=[if_node],
        initializers=inits,
        opset_imports={"": 20},
        name="main",
    )
    return ir.Model(graph, ir_version=10)


def snapshot(model: ir.Model):
    """(value, tensor object, name, dtype, shape, bytes) for every initializer."""
    out = []
    for g in model.graphs():
        for v in g.initializers.values():
            t = v.const_value
            out.append((v, t, v.name, t.dtype, tuple(t.shape.numpy()), t.tobytes()))
    return out


def check_same_objects(model: ir.Model, snap, where: str) -> None:
    now = [v for g in model.graphs() for v in g.initializers.values()]
    assert len(now) == len(snap), where
    for (v, t, *_), v_now in zip(snap, now):
        assert v is v_now, where
        assert v_now.const_value is t, f"{where}: {v.name} no longer holds its tensor object"


def check_loaded(path: str, snap, threshold: int, files: set[str], where: str) -> dict:
    loaded = ir.load(path)
    got = {}
    for g in loaded.graphs():
        for v in g.initializers.values():
            got[v.name] = v.const_value
    assert set(got) == {s[2] for s in snap}, where
    ranges: dict[str, list[tuple[int, int, str]]] = {}
    for _, _, name, dtype, shape, data in snap:
        t = got[name]
        assert t.name == name and t.dtype == dtype, (where, name)
        assert tuple(t.shape.numpy()) == shape, (where, name)
        assert t.tobytes() == data, (where, name)
        if len(data) > threshold:
            assert isinstance(t, ir.ExternalTensor), (where, name, "should be external")
            assert t.location in files, (where, name, t.location, files)
            ranges.setdefault(t.location, []).append((t.offset, t.length, name))
        else:
            assert not isinstance(t, ir.ExternalTensor), (where, name, "should be inline")
    base = os.path.dirname(path)
    for loc, items in ranges.items():
        size = os.path.getsize(os.path.join(base, loc))
        end = 0
        for off, length, name in items:  # declaration order
            assert off >= end, (where, loc, name, "overlap / order")
            assert off + length <= size, (where, loc, name, "outside file")
            end = off + length
    return ranges


def main() -> int:
    configs = [
        dict(size_threshold_bytes=0),
        dict(size_threshold_bytes=256),
        dict(size_threshold_bytes=600, max_workers=4),
        dict(size_threshold_bytes=10**9),
        dict(size_threshold_bytes=100, alignment=4096, align_threshold=1000),
        dict(size_threshold_bytes=100, max_shard_size_bytes=2000),
        dict(size_threshold_bytes=0, max_shard_size_bytes=1500, max_workers=3),
        dict(size_threshold_bytes=47, max_shard_size_bytes=5000, alignment=8192, align_threshold=0),
    ]
    for i, cfg in enumerate(configs):
        model = make_model()
        snap = snapshot(model)
        with tempfile.TemporaryDirectory() as d:
            path = os.path.join(d, "m.v1.onnx")
            ext = os.path.join("weights", "m.v1.data")
            os.makedirs(os.path.join(d, "weights"))
            ir.save(model, path, external_data=ext, **cfg)
            check_same_objects(model, snap, f"cfg{i} after save")
            files = {
                os.path.join("weights", f) for f in os.listdir(os.path.join(d, "weights"))
            }
            ranges = check_loaded(path, snap, cfg["size_threshold_bytes"], files, f"cfg{i}")
            if "max_shard_size_bytes" in cfg:
                lim = cfg["max_shard_size_bytes"]
                for loc, items in ranges.items():
                    size = os.path.getsize(os.path.join(d, loc))
                    assert size <= lim or len(items) == 1, (i, loc, size, items)
            if cfg.get("alignment"):
                for items in ranges.values():
                    for off, length, name in items:
                        if length > cfg["align_threshold"]:
                            assert off % max(4096, cfg["alignment"]) == 0, (i, name, off)

            # Re-save the loaded model (already-external initializers) with a larger
            # threshold into another file: small external tensors are loaded to memory.
            loaded = ir.load(path)
            snap2 = snapshot(loaded)
            path2 = os.path.join(d, "again.onnx")
            ir.save(loaded, path2, external_data="again.data", size_threshold_bytes=1000)
            check_same_objects(loaded, snap2, f"cfg{i} resave")
            check_loaded(path2, snap2, 1000, {"again.data"}, f"cfg{i} resave")

            # Sharded save onto existing shard files is rejected; model untouched.
            if "max_shard_size_bytes" in cfg:
                try:
                    ir.save(model, path, external_data=ext, **cfg)
                except FileExistsError:
                    pass
                else:
                    raise AssertionError("expected FileExistsError")
                check_same_objects(model, snap, f"cfg{i} after FileExistsError")

    # Rejected calls and failures half-way: model keeps its tensor objects.
    model = make_model()
    snap = snapshot(model)
    with tempfile.TemporaryDirectory() as d:
        path = os.path.join(d, "m.onnx")
        for kwargs, exc in [
            (dict(external_data=os.path.abspath(os.path.join(d, "abs.data"))), ValueError),
            (dict(max_shard_size_bytes=100), ValueError),
            (dict(external_data="x.data", max_shard_size_bytes=0), ValueError),
            (dict(external_data="x.data", max_workers=0), ValueError),
            (dict(external_data="x.data", alignment=-1), ValueError),
            (dict(external_data="x.data", align_threshold=-1), ValueError),
            (dict(external_data="x.data", max_in_flight_bytes=0), ValueError),
            (dict(external_data=os.path.join("missing_dir", "x.data")), OSError),
        ]:
            try:
                ir.save(model, path, **kwargs)
            except exc:
                pass
            else:
                raise AssertionError(f"expected {exc.__name__} for {kwargs}")
            check_same_objects(model, snap, f"rejected {kwargs}")
        assert os.listdir(d) == [], os.listdir(d)

        class Boom(Exception):
            pass

        calls = []

        def cb(tensor, info):
            calls.append(info.index)
            if len(calls) == 3:
                raise Boom

        for extra in (dict(), dict(max_shard_size_bytes=3000), dict(max_workers=2)):
            calls.clear()
            try:
                ir.save(model, path, external_data="cb.data", size_threshold_bytes=0,
                        callback=cb, **extra)
            except Boom:
                pass
            else:
                raise AssertionError("expected Boom")
            check_same_objects(model, snap, f"callback raised {extra}")
            assert not os.path.exists(path)
            for f in os.listdir(d):
                os.remove(os.path.join(d, f))

        # StopIteration raised by a callback propagates unchanged as well.
        def cb_stop(tensor, info):
            raise StopIteration("stop")

        try:
            ir.save(model, path, external_data="cb.data", size_threshold_bytes=0, callback=cb_stop)
        except StopIteration as e:
            assert e.args == ("stop",)
        else:
            raise AssertionError("expected StopIteration")
        check_same_objects(model, snap, "callback StopIteration")

        # unload_from_model itself (no restore): only tensors above the threshold change.
        m2 = make_model()
        snap_m2 = snapshot(m2)
        out = external_data.unload_from_model(m2, d, "u.data", size_threshold_bytes=256)
        assert out is m2
        for v, t, name, dtype, shape, data in snap_m2:
            if len(data) > 256:
                assert isinstance(v.const_value, ir.ExternalTensor), name
                assert v.const_value.tobytes() == data
            else:
                assert v.const_value is t, name
        # A model without initializers and an uninitialized initializer
        empty = ir.Model(ir.Graph([], [], nodes=[], opset_imports={"": 20}), ir_version=10)
        ir.save(empty, os.path.join(d, "e.onnx"), external_data="e.data")
        assert os.path.getsize(os.path.join(d, "e.data")) == 0
        assert list(ir.load(os.path.join(d, "e.onnx")).graph.initializers) == []

    print("C07 demo OK")
    return 0


if __name__ == "__main__":
    sys.exit(main())
