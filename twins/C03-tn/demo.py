"""C03 demo: tensors of several implementations survive IR -> proto -> IR, serialization is repeatable."""
import os
import pathlib
import tempfile

import numpy as np
import onnx

import onnx_ir as ir
from onnx_ir import serde


def entries(proto):
    return [(e.key, e.value) for e in proto.external_data]


def main():
    tmp = tempfile.mkdtemp()
    data = np.arange(12, dtype=np.float32).reshape(3, 4)
    with open(os.path.join(tmp, "w.bin"), "wb") as f:
        f.write(b"\0" * 16 + data.tobytes())

    # --- external tensors: offset/length set, unset, zero, PathLike location
    ext_full = ir.ExternalTensor(
        "w.bin", offset=16, length=48, dtype=ir.DataType.FLOAT, shape=ir.Shape([3, 4]),
        name="ext_full", base_dir=tmp, doc_string="doc", metadata_props={"b": "2", "a": "1"},
    )
    ext_none = ir.ExternalTensor(
        pathlib.PurePosixPath("w.bin"), offset=None, length=None, dtype=ir.DataType.UINT8,
        shape=ir.Shape([64]), name="ext_none", base_dir=tmp,
    )
    ext_zero = ir.ExternalTensor(
        "w.bin", offset=0, length=None, dtype=ir.DataType.UINT8, shape=ir.Shape([64]),
        name="ext_zero", base_dir=tmp,
    )
    p_full = serde.serialize_tensor(ext_full)
    assert p_full.data_location == onnx.TensorProto.EXTERNAL
    assert entries(p_full) == [("location", "w.bin"), ("offset", "16"), ("length", "48")]
    assert [(e.key, e.value) for e in p_full.metadata_props] == [("a", "1"), ("b", "2")]
    assert not p_full.HasField("raw_data") and list(p_full.dims) == [3, 4]
    assert entries(serde.serialize_tensor(ext_none)) == [("location", "w.bin")]
    assert entries(serde.serialize_tensor(ext_zero)) == [("location", "w.bin"), ("offset", "0")]
    back = serde.deserialize_tensor(p_full, base_path=tmp)
    assert isinstance(back, ir.ExternalTensor)
    assert (back.location, back.offset, back.length, back.name, back.doc_string) == (
        "w.bin", 16, 48, "ext_full", "doc")
    assert back.metadata_props == {"a": "1", "b": "2"}
    np.testing.assert_array_equal(back.numpy(), data)
    assert serde.serialize_tensor(back) == p_full

    # --- string tensor, empty string tensor, numpy tensor, empty tensor, lazy tensor, proto tensor
    st = ir.StringTensor([b"x", b"", b"yz"], shape=ir.Shape([3]), name="st")
    p_st = serde.serialize_tensor(st)
    assert list(p_st.string_data) == [b"x", b"", b"yz"] and not p_st.HasField("raw_data")
    assert p_st.data_type == onnx.TensorProto.STRING
    assert list(serde.deserialize_tensor(p_st).string_data()) == [b"x", b"", b"yz"]
    p_empty_st = serde.serialize_tensor(ir.StringTensor([], shape=ir.Shape([0]), name="e"))
    assert list(p_empty_st.string_data) == [] and list(p_empty_st.dims) == [0]

    dense = ir.Tensor(data, name="dense", metadata_props={"k": "v"})
    p_dense = serde.serialize_tensor(dense)
    assert p_dense.raw_data == data.tobytes() and len(p_dense.external_data) == 0
    assert p_dense.data_location == onnx.TensorProto.DEFAULT
    empty = ir.Tensor(np.zeros((0, 2), dtype=np.int64), name="")
    p_empty = serde.serialize_tensor(empty)
    assert p_empty.raw_data == b"" and p_empty.HasField("raw_data") and not p_empty.HasField("name")
    lazy = ir.LazyTensor(lambda: ir.Tensor(data), dtype=ir.DataType.FLOAT, shape=ir.Shape([3, 4]), name="lazy")
    assert serde.serialize_tensor(lazy).raw_data == data.tobytes()
    tpt = serde.deserialize_tensor(p_dense)
    assert isinstance(tpt, serde.TensorProtoTensor)
    assert serde.serialize_tensor(tpt) == p_dense

    # --- rejected call: a location that is not path-like. data_location is already marked,
    # no external_data entry is written, and the error type is SerdeError caused by TypeError.
    bad = ir.ExternalTensor(12345, offset=1, length=2, dtype=ir.DataType.UINT8,
                            shape=ir.Shape([2]), name="bad", base_dir=tmp)
    target = onnx.TensorProto()
    try:
        serde.serialize_tensor_into(target, from_=bad)
    except serde.SerdeError as e:
        assert isinstance(e.__cause__, TypeError), repr(e.__cause__)
        assert "serialize_tensor_into" in str(e)
    else:
        raise AssertionError("expected SerdeError")
    assert target.name == "bad" and list(target.dims) == [2]
    assert target.data_location == onnx.TensorProto.EXTERNAL
    assert len(target.external_data) == 0 and len(target.metadata_props) == 0

    # --- whole model: all kinds as initializers (one shared with a nested graph), tensor attributes
    x = ir.Value(name="x", type=ir.TensorType(ir.DataType.FLOAT), shape=ir.Shape([3, 4]))
    inits = []
    for t in (ext_full, ext_none, st, dense, lazy, tpt):
        name = t.name if t is not tpt else "tpt_value"
        # type and shape given explicitly: deserialization derives them from the tensor
        inits.append(ir.Value(name=name, const_value=t, type=ir.TensorType(t.dtype),
                              shape=ir.Shape(list(t.shape))))
    inner_out = ir.Value(name="inner_out")
    inner = ir.Graph([], [inner_out], nodes=[
        ir.Node("", "Add", [x, inits[3]], outputs=[inner_out], name="inner_add")], name="inner")
    cond = ir.Value(name="cond")
    n_const = ir.Node("", "Constant", [], attributes=[ir.AttrTensor("value", ext_zero)], name="c0")
    n_consts = ir.Node("custom", "Pack", [n_const.outputs[0], None, inits[0]], attributes=[
        ir.AttrTensors("ts", [dense, st, ext_none, empty]), ir.AttrTensors("none", [])], name="pack", num_outputs=2)
    n_consts.outputs[0].name = "packed"
    n_consts.outputs[1].name = ""
    n_if = ir.Node("", "If", [cond], attributes=[
        ir.AttrGraph("then_branch", inner), ir.AttrGraph("else_branch", ir.Graph([], [], nodes=[], name="e"))], name="if")
    n_if.outputs[0].name = "y"
    n_const.outputs[0].name = "c0_out"
    graph = ir.Graph([x, cond], [n_if.outputs[0], n_consts.outputs[0]], nodes=[n_if, n_consts, n_const],
                     initializers=inits, opset_imports={"": 20, "custom": 1}, name="g")
    model = ir.Model(graph, ir_version=10)
    assert tpt.name == "dense"
    p1 = serde.serialize_model(model)
    assert tpt.name == "tpt_value"  # the one permitted side effect
    p2 = serde.serialize_model(model)
    assert p1 == p2 and p1.SerializeToString(deterministic=True) == p2.SerializeToString(deterministic=True)
    assert [i.name for i in p1.graph.initializer] == ["ext_full", "ext_none", "st", "dense", "lazy", "tpt_value"]
    assert [n.name for n in p1.graph.node] == ["if", "pack", "c0"]  # unsorted order kept
    assert list(p1.graph.node[1].input) == ["c0_out", "", "ext_full"]
    assert list(p1.graph.node[1].output) == ["packed"]
    assert entries(p1.graph.node[2].attribute[0].t) == [("location", "w.bin"), ("offset", "0")]

    model2 = serde.deserialize_model(p1)
    p3 = serde.serialize_model(model2)
    if p3 != p1:
        import difflib; print("\n".join(difflib.unified_diff(str(p1).splitlines(), str(p3).splitlines(), lineterm="", n=4)))
    assert p3 == p1, "round trip changed the proto"
    g2 = model2.graph
    assert list(g2.initializers) == list(graph.initializers)
    for name, v in graph.initializers.items():
        a, b = v.const_value, g2.initializers[name].const_value
        assert (a.dtype, list(a.shape)) == (b.dtype, list(b.shape)), name
        if isinstance(a, ir.ExternalTensor):
            assert isinstance(b, ir.ExternalTensor)
            assert (os.fspath(a.location), a.offset, a.length) == (b.location, b.offset, b.length)
        elif isinstance(a, ir.StringTensor):
            assert list(a.string_data()) == list(b.string_data())
        else:
            assert a.tobytes() == b.tobytes(), name
        assert dict(a.metadata_props) == dict(b.metadata_props), name
    pack2 = [n for n in g2 if n.name == "pack"][0]
    ts2 = pack2.attributes["ts"].value
    assert [type(t).__name__ for t in ts2] == ["TensorProtoTensor", "StringTensor", "ExternalTensor", "TensorProtoTensor"]
    assert pack2.attributes["none"].value == [] or list(pack2.attributes["none"].value) == []
    assert pack2.inputs[1] is None and pack2.inputs[2] is g2.initializers["ext_full"]
    inner2 = [n for n in g2 if n.name == "if"][0].attributes["then_branch"].value
    assert inner2[0].inputs[1] is g2.initializers["dense"] and inner2[0].inputs[0] is g2.inputs[0]
    print("C03 demo OK")


if __name__ == "__main__":
    main()
