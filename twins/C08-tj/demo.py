"""Demo for C08: an interrupted single-file external-data save never damages an existing data file.

Exercises onnx_ir.external_data.convert_tensors_to_external / unload_from_model through the
public API: failures from a tensor (mid-tensor), a callback, the file system (rename), a
rejected call, duplicates, an empty input, a symlinked destination, and a sharded save that
collides with a pre-existing file. Exits 0 when every expectation holds.
"""

from __future__ import annotations

import os
import stat
import sys
import tempfile
from unittest import mock

import numpy as np

import onnx_ir as ir
from onnx_ir import external_data as ed


class Boom(Exception):
    pass


class HalfThenFail(ir.Tensor):
    """Writes half of its bytes and then fails: a mid-tensor interruption."""

    def tofile(self, file) -> None:
        data = self.tobytes()
        file.write(data[: len(data) // 2])
        file.flush()
        raise Boom("mid-tensor")


def listing(d: str) -> list[str]:
    return sorted(os.listdir(d))


def read(p: str) -> bytes:
    with open(p, "rb") as f:
        return f.read()


def fresh(d: str, name: str = "w.data"):
    """Create a pre-existing data file and two external tensors reading from it."""
    a = np.arange(16, dtype=np.float32)
    b = np.arange(16, 24, dtype=np.int64)
    old = a.tobytes() + b.tobytes()
    with open(os.path.join(d, name), "wb") as f:
        f.write(old)
    ta = ir.ExternalTensor(name, 0, a.nbytes, ir.DataType.FLOAT, shape=ir.Shape([16]), name="a", base_dir=d)
    tb = ir.ExternalTensor(name, a.nbytes, b.nbytes, ir.DataType.INT64, shape=ir.Shape([8]), name="b", base_dir=d)
    return old, a, b, ta, tb


def expect_untouched(d, old, a, b, ta, tb, names=("w.data",)):
    assert listing(d) == sorted(names), listing(d)
    assert read(os.path.join(d, "w.data")) == old
    assert ta.valid() and tb.valid()
    np.testing.assert_array_equal(ta.numpy(), a)
    np.testing.assert_array_equal(tb.numpy(), b)
    ta.release()
    tb.release()


def main() -> int:
    new = ir.Tensor(np.full(32, 7, dtype=np.int32), name="new")

    # 1. a tensor fails half-way through its own bytes (serial and parallel writers)
    for workers in (None, 4):
        with tempfile.TemporaryDirectory() as d:
            old, a, b, ta, tb = fresh(d)
            bad = HalfThenFail(np.arange(64, dtype=np.float32), name="bad")
            try:
                ed.convert_tensors_to_external([tb, new, bad, ta], d, "w.data", max_workers=workers)
            except Boom:
                pass
            else:
                raise AssertionError("expected Boom")
            expect_untouched(d, old, a, b, ta, tb)

    # 2. a callback fails (ordinary exception, StopIteration, KeyboardInterrupt)
    for exc_type in (Boom, StopIteration, KeyboardInterrupt):
        with tempfile.TemporaryDirectory() as d:
            old, a, b, ta, tb = fresh(d)
            seen = []

            def cb(tensor, info, exc_type=exc_type, seen=seen):
                seen.append(info.index)
                if info.index == 1:
                    raise exc_type("callback")

            try:
                ed.convert_tensors_to_external([ta, new, tb], d, "w.data", callback=cb)
            except exc_type as e:
                assert e.args == ("callback",), e.args
            else:
                raise AssertionError("expected callback failure")
            assert seen == [0, 1], seen
            expect_untouched(d, old, a, b, ta, tb)

    # 3. the file system refuses the final rename
    with tempfile.TemporaryDirectory() as d:
        old, a, b, ta, tb = fresh(d)
        with mock.patch("os.replace", side_effect=PermissionError("nope")):
            try:
                ed.convert_tensors_to_external([new, ta], d, "w.data")
            except PermissionError:
                pass
            else:
                raise AssertionError("expected PermissionError")
        expect_untouched(d, old, a, b, ta, tb)

    # 4. rejected calls touch nothing; a missing directory leaves nothing behind
    with tempfile.TemporaryDirectory() as d:
        old, a, b, ta, tb = fresh(d)
        for kwargs in ({"max_workers": 0}, {"max_in_flight_bytes": 0}, {"alignment": -1}):
            try:
                ed.convert_tensors_to_external([ta, new], d, "w.data", **kwargs)
            except ValueError:
                pass
            else:
                raise AssertionError(f"expected ValueError for {kwargs}")
        try:
            ed.convert_tensors_to_external([new], d, os.path.join("missing", "w.data"))
        except FileNotFoundError:
            pass
        else:
            raise AssertionError("expected FileNotFoundError")
        expect_untouched(d, old, a, b, ta, tb)

    # 5. successful overwrite with a duplicate element: complete new bytes, mode kept,
    #    only the tensors backed by the replaced file are invalidated
    with tempfile.TemporaryDirectory() as d:
        old, a, b, ta, tb = fresh(d)
        _, a2, _, other, _ = fresh(d, "other.data")
        os.chmod(os.path.join(d, "w.data"), 0o640)
        out = ed.convert_tensors_to_external([tb, ta, tb, other, new], d, "w.data")
        assert listing(d) == ["other.data", "w.data"], listing(d)
        expected = b.tobytes() + a.tobytes() + b.tobytes() + a2.tobytes() + new.tobytes()
        assert read(os.path.join(d, "w.data")) == expected
        assert stat.S_IMODE(os.stat(os.path.join(d, "w.data")).st_mode) == 0o640
        assert not ta.valid() and not tb.valid() and other.valid()
        assert [t.offset for t in out] == [0, 64, 128, 192, 256]
        np.testing.assert_array_equal(out[2].numpy(), b)
        np.testing.assert_array_equal(out[4].numpy(), new.numpy())
        for t in out:
            t.release()
        other.release()

    # 6. empty input: the destination is replaced by the complete (empty) new file
    with tempfile.TemporaryDirectory() as d:
        old, a, b, ta, tb = fresh(d)
        assert ed.convert_tensors_to_external([], d, "w.data") == []
        assert listing(d) == ["w.data"] and read(os.path.join(d, "w.data")) == b""
        assert ta.valid() and tb.valid()  # not among the written tensors

    # 7. symlinked destination: the target is what is protected / replaced
    with tempfile.TemporaryDirectory() as d:
        old, a, b, ta, tb = fresh(d)
        os.mkdir(os.path.join(d, "sub"))
        os.symlink(os.path.join(d, "w.data"), os.path.join(d, "sub", "link.data"))
        bad = HalfThenFail(np.arange(8, dtype=np.float32), name="bad")
        try:
            ed.convert_tensors_to_external([ta, bad], os.path.join(d, "sub"), "link.data")
        except Boom:
            pass
        else:
            raise AssertionError("expected Boom")
        assert listing(os.path.join(d, "sub")) == ["link.data"]
        assert os.path.islink(os.path.join(d, "sub", "link.data"))
        expect_untouched(d, old, a, b, ta, tb, names=("sub", "w.data"))
        ed.convert_tensors_to_external([tb, ta], os.path.join(d, "sub"), "link.data")
        assert os.path.islink(os.path.join(d, "sub", "link.data"))
        assert listing(d) == ["sub", "w.data"]
        assert read(os.path.join(d, "w.data")) == b.tobytes() + a.tobytes()
        assert not ta.valid() and not tb.valid()

    # 8. sharded save through unload_from_model never changes a pre-existing file
    with tempfile.TemporaryDirectory() as d:
        old, a, b, ta, tb = fresh(d)
        shard = os.path.join(d, "w-00002-of-00002.data")
        with open(shard, "wb") as f:
            f.write(b"precious")
        va = ir.Value(name="a", const_value=ta)
        vn = ir.Value(name="new", const_value=new)
        graph = ir.Graph([], [], nodes=[], initializers=[va, vn], name="g")
        model = ir.Model(graph, ir_version=10)
        try:
            ed.unload_from_model(model, d, "w.data", max_shard_size_bytes=100)
        except FileExistsError:
            pass
        else:
            raise AssertionError("expected FileExistsError")
        assert read(shard) == b"precious"
        assert va.const_value is ta and vn.const_value is new
        expect_untouched(d, old, a, b, ta, tb, names=("w-00002-of-00002.data", "w.data"))
        # and a failing single-file save through the model API keeps the model usable
        try:
            ed.unload_from_model(model, d, "w.data", callback=lambda t, i: (_ for _ in ()).throw(Boom()))
        except Boom:
            pass
        else:
            raise AssertionError("expected Boom")
        assert va.const_value is ta and vn.const_value is new
        expect_untouched(d, old, a, b, ta, tb, names=("w-00002-of-00002.data", "w.data"))

    print("C08 demo OK")
    return 0


if __name__ == "__main__":
    sys.exit(main())
