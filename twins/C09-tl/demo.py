"""Demo for C09: concurrent external-data writing is schedule-independent, bounded and live.

Exercises onnx_ir.external_data.unload_from_model / convert_tensors_to_external in
the single-file, sharded-serial and sharded-concurrent configurations and compares
them with the serial save.
"""

from __future__ import annotations

import os
import sys
import tempfile
import threading
import time

import numpy as np

import logging

import onnx_ir as ir
from onnx_ir import external_data

SIZES = [40, 700, 16, 300, 300, 900, 8, 120, 650, 64]  # bytes; budget below is 256


class Probe(ir.Tensor):
    """An ir.Tensor whose tofile() records overlap with itself and live bytes."""

    stats_lock = threading.Lock()
    live_bytes = 0
    peak_bytes = 0
    overlap_same_object = 0
    fail_names: frozenset = frozenset()

    def tofile(self, file) -> None:
        cls = Probe
        with cls.stats_lock:
            active = getattr(self, "_active", 0)
            if active:
                cls.overlap_same_object += 1
            self._active = active + 1
            cls.live_bytes += self.nbytes
            cls.peak_bytes = max(cls.peak_bytes, cls.live_bytes)
        try:
            time.sleep(0.002)
            if self.name in cls.fail_names:
                raise RuntimeError(f"boom {self.name}")
            super().tofile(file)
        finally:
            with cls.stats_lock:
                self._active -= 1
                cls.live_bytes -= self.nbytes

    @classmethod
    def reset(cls, fail_names=()):
        cls.live_bytes = cls.peak_bytes = cls.overlap_same_object = 0
        cls.fail_names = frozenset(fail_names)


def make_model(sizes=SIZES, shared=True) -> ir.Model:
    graph = ir.Graph([], [], nodes=[], name="g", opset_imports={"": 20})
    tensors = []
    for i, size in enumerate(sizes):
        data = (np.arange(size, dtype=np.uint8) * (i + 3) + i).astype(np.uint8)
        tensors.append(Probe(data, name=f"w{i}"))
    for i, tensor in enumerate(tensors):
        graph.register_initializer(ir.Value(name=f"w{i}", const_value=tensor))
    if shared and tensors:
        # The same tensor object backs several initializers (one oversized, one small).
        graph.register_initializer(ir.Value(name="dup_big", const_value=tensors[1]))
        graph.register_initializer(ir.Value(name="dup_big2", const_value=tensors[1]))
        graph.register_initializer(ir.Value(name="dup_small", const_value=tensors[3]))
    return ir.Model(graph, ir_version=10)


class Recorder:
    def __init__(self):
        self.calls = []
        self.inside = 0
        self.overlaps = 0
        self.guard = threading.Lock()

    def __call__(self, tensor, info):
        with self.guard:
            self.inside += 1
            if self.inside > 1:
                self.overlaps += 1
        time.sleep(0.0005)
        with self.guard:
            self.calls.append((info.index, info.total, info.filename, tensor.name))
            self.inside -= 1


def snapshot(directory):
    result = {}
    for name in sorted(os.listdir(directory)):
        with open(os.path.join(directory, name), "rb") as f:
            result[name] = f.read()
    return result


def layout(model):
    return [
        (name, v.const_value.location, v.const_value.offset, v.const_value.length)
        for name, v in model.graph.initializers.items()
    ]


def save(directory, **kwargs):
    model = make_model()
    recorder = Recorder()
    Probe.reset()
    before = threading.active_count()
    external_data.unload_from_model(model, directory, "m.data", callback=recorder, **kwargs)
    assert threading.active_count() == before, "worker threads left behind"
    n = len(model.graph.initializers)
    assert sorted(c[0] for c in recorder.calls) == list(range(n)), recorder.calls
    assert all(c[1] == n for c in recorder.calls)
    assert recorder.overlaps == 0, "callback ran on two threads at once"
    assert Probe.overlap_same_object == 0, "a shared tensor was written twice at once"
    assert Probe.live_bytes == 0
    return snapshot(directory), layout(model), Probe.peak_bytes, sorted(recorder.calls)


def main() -> int:
    logging.getLogger("onnx_ir").setLevel(logging.ERROR)
    budget = 256
    largest = max(SIZES)
    with tempfile.TemporaryDirectory() as root:

        def fresh(name):
            path = os.path.join(root, name)
            os.mkdir(path)
            return path

        for shard_size in (None, 1000, 64):
            ref_files, ref_layout, _, ref_calls = save(
                fresh(f"ref-{shard_size}"), max_shard_size_bytes=shard_size
            )
            assert ref_files and all(
                name.startswith("m") and name.endswith(".data") for name in ref_files
            )
            for workers in (1, 2, 3, 8, 33):
                for in_flight in (1, budget, 1 << 20):
                    files, lay, peak, calls = save(
                        fresh(f"s{shard_size}-w{workers}-b{in_flight}"),
                        max_shard_size_bytes=shard_size,
                        max_workers=workers,
                        max_in_flight_bytes=in_flight,
                    )
                    assert files == ref_files, (shard_size, workers, in_flight)
                    assert lay == ref_layout
                    assert calls == ref_calls
                    if workers > 1:
                        assert peak <= in_flight + largest, (peak, in_flight, largest)

        # A failing tensor: the exception reaches the caller, after all workers stopped.
        for shard_size in (None, 1000):
            for workers in (None, 4):
                directory = fresh(f"fail-{shard_size}-{workers}")
                model = make_model()
                Probe.reset(fail_names={"w5"})
                before = threading.active_count()
                try:
                    external_data.unload_from_model(
                        model,
                        directory,
                        "m.data",
                        max_shard_size_bytes=shard_size,
                        max_workers=workers,
                        max_in_flight_bytes=budget,
                    )
                except RuntimeError as e:
                    assert "boom w5" in str(e)
                else:
                    raise AssertionError("failure was swallowed")
                assert threading.active_count() == before
                assert Probe.live_bytes == 0
                # Temporary files are cleaned up; the failing shard's file never appears.
                assert not any(n.startswith(".") for n in os.listdir(directory))
                if shard_size is None:
                    assert os.listdir(directory) == []
                # The model is untouched.
                assert all(
                    isinstance(v.const_value, Probe) for v in model.graph.initializers.values()
                )
        Probe.reset()

        # Rejected calls.
        for bad in (
            dict(max_workers=0),
            dict(max_workers=-2),
            dict(max_in_flight_bytes=0),
            dict(max_shard_size_bytes=0),
            dict(alignment=0),
        ):
            directory = fresh("bad-" + "-".join(f"{k}{v}" for k, v in bad.items()))
            try:
                external_data.unload_from_model(make_model(), directory, "m.data", **bad)
            except ValueError:
                pass
            else:
                raise AssertionError(f"{bad} accepted")
            assert os.listdir(directory) == []

        # An existing shard file is refused before anything is written or called back.
        directory = fresh("exists")
        with open(os.path.join(directory, "m-00002-of-00006.data"), "wb") as f:
            f.write(b"keep")
        probe_files, _, _, _ = save(fresh("exists-probe"), max_shard_size_bytes=1000)
        assert "m-00002-of-00006.data" in probe_files, sorted(probe_files)
        recorder = Recorder()
        try:
            external_data.unload_from_model(
                make_model(),
                directory,
                "m.data",
                max_shard_size_bytes=1000,
                max_workers=4,
                callback=recorder,
            )
        except FileExistsError:
            pass
        else:
            raise AssertionError("existing shard overwritten")
        assert snapshot(directory) == {"m-00002-of-00006.data": b"keep"}
        assert recorder.calls == []

        # Empty input and a single tensor, with concurrency requested.
        for shard_size in (None, 10):
            directory = fresh(f"empty-{shard_size}")
            model = make_model(sizes=[], shared=False)
            external_data.unload_from_model(
                model, directory, "m.data", max_shard_size_bytes=shard_size, max_workers=4
            )
            files = snapshot(directory)
            assert list(files.values()) == [b""], files
            directory = fresh(f"one-{shard_size}")
            model = make_model(sizes=[50], shared=False)
            recorder = Recorder()
            external_data.unload_from_model(
                model,
                directory,
                "m.data",
                max_shard_size_bytes=shard_size,
                max_workers=4,
                max_in_flight_bytes=1,
                callback=recorder,
            )
            assert len(recorder.calls) == 1 and recorder.calls[0][:2] == (0, 1)
            (content,) = snapshot(directory).values()
            assert len(content) == 50

        # convert_tensors_to_external directly, with duplicates in the list.
        directory = fresh("direct")
        t = [Probe(np.arange(n, dtype=np.uint8), name=f"t{n}") for n in (300, 5, 77)]
        seq = [t[0], t[1], t[0], t[2], t[0], t[1]]
        a = external_data.convert_tensors_to_external(seq, directory, "a.bin")
        recorder = Recorder()
        b = external_data.convert_tensors_to_external(
            seq, directory, "b.bin", max_workers=5, max_in_flight_bytes=100, callback=recorder
        )
        files = snapshot(directory)
        assert files["a.bin"] == files["b.bin"] == b"".join(x.tobytes() for x in seq)
        assert [(x.offset, x.length) for x in a] == [(x.offset, x.length) for x in b]
        assert sorted(c[0] for c in recorder.calls) == list(range(6))
        assert recorder.overlaps == 0 and Probe.overlap_same_object == 0

    print("C09 demo OK")
    return 0


if __name__ == "__main__":
    sys.exit(main())
