"""C02 demo: proto -> IR -> proto round trip around graph outputs and quantization annotations."""

import logging
import sys

import onnx
from onnx import TensorProto, helper

import onnx_ir as ir
from onnx_ir import serde

FAILED = []


def check(cond, msg):
    if not cond:
        FAILED.append(msg)
        print("FAIL:", msg)


def annotation(tensor_name, **params):
    ann = onnx.TensorAnnotation()
    ann.tensor_name = tensor_name
    for k, v in params.items():
        e = ann.quant_parameter_tensor_names.add()
        e.key, e.value = k, v
    return ann


def norm_graph(g: onnx.GraphProto):
    """Canonical form up to the documented normalisations (entry order of value_info / annotations)."""
    g = onnx.GraphProto.FromString(g.SerializeToString())
    vi = sorted(g.value_info, key=lambda v: v.name)
    del g.value_info[:]
    g.value_info.extend(vi)
    qa = sorted(g.quantization_annotation, key=lambda a: a.tensor_name)
    del g.quantization_annotation[:]
    g.quantization_annotation.extend(qa)
    for n in g.node:
        for a in n.attribute:
            if a.type == onnx.AttributeProto.GRAPH:
                a.g.CopyFrom(norm_graph(a.g))
    return g


def build_main():
    f32 = TensorProto.FLOAT
    x = helper.make_tensor_value_info("x", f32, [2, "N"])
    x.doc_string = "input x"
    e = x.metadata_props.add()
    e.key, e.value = "mx", "1"
    cond = helper.make_tensor_value_info("cond", TensorProto.BOOL, [])
    w = helper.make_tensor("w", f32, [2], [1.0, 2.0])  # initializer, not an input
    x_init = helper.make_tensor("x", f32, [2, 1], [3.0, 4.0])  # initializer for an input

    # subgraphs capture outer value "h" (declared later in the outer graph: out of order)
    then_out = helper.make_tensor_value_info("t_out", f32, [2])
    then_g = helper.make_graph(
        [helper.make_node("Add", ["h", "tw"], ["t_out"], name="t_add")],
        "then_g",
        [],
        [then_out],
        initializer=[helper.make_tensor("tw", f32, [2], [5.0, 6.0])],
    )
    then_g.quantization_annotation.append(annotation("tw", SCALE_TENSOR="tw_scale"))
    then_g.quantization_annotation.append(annotation("t_out", ZERO_POINT_TENSOR="t_zp"))
    else_out = helper.make_tensor_value_info("e_out", f32, [2])
    else_g = helper.make_graph(
        [helper.make_node("Identity", ["h"], ["e_out"], name="e_id")], "else_g", [], [else_out]
    )
    nodes = [
        helper.make_node("If", ["cond"], ["y"], name="if0", then_branch=then_g, else_branch=else_g),
        helper.make_node("Mul", ["x", "w"], ["h"], name="mul0"),
        helper.make_node("Split", ["h"], ["s0", "", "s2"], name="split0"),
    ]
    y = helper.make_tensor_value_info("y", f32, [2])
    y.doc_string = "output y"
    e = y.metadata_props.add()
    e.key, e.value = "my", "2"
    s2 = helper.make_tensor_value_info("s2", f32, None)
    # Unusual: "x" is an input that is also listed as an output, twice "y" (duplicate output)
    g = helper.make_graph(nodes, "main", [x, cond], [y, s2, x, y], initializer=[w, x_init])
    g.value_info.append(helper.make_tensor_value_info("h", f32, [2, "N"]))
    g.value_info.append(helper.make_tensor_value_info("w", f32, [2]))
    g.value_info.append(helper.make_tensor_value_info("s0", f32, ["K"]))
    g.quantization_annotation.append(annotation("x", SCALE_TENSOR="x_scale", ZERO_POINT_TENSOR="x_zp"))
    g.quantization_annotation.append(annotation("w", SCALE_TENSOR="w_scale"))
    g.quantization_annotation.append(annotation("h", SCALE_TENSOR="h_scale"))
    g.quantization_annotation.append(annotation("s2", AXIS="s2_axis"))
    g.doc_string = "main graph"
    return g


def test_round_trip():
    g = build_main()
    ir_g = ir.from_proto(g)
    # identity of values: a duplicated output is the very same value; input-as-output is the input
    check(ir_g.outputs[0] is ir_g.outputs[3], "duplicate output y must be one value")
    check(ir_g.outputs[2] is ir_g.inputs[0], "x output is the x input")
    check(ir_g.outputs[0].doc_string == "output y", "doc string of y")
    check(ir_g.outputs[0].metadata_props == {"my": "2"}, "metadata of y")
    check(ir_g.inputs[0].metadata_props == {"mx": "1"}, "metadata of x")
    key = "quant_parameter_tensor_names"
    check(
        ir_g.inputs[0].meta[key] == {"SCALE_TENSOR": "x_scale", "ZERO_POINT_TENSOR": "x_zp"},
        "annotation on input x",
    )
    check(ir_g.initializers["w"].meta[key] == {"SCALE_TENSOR": "w_scale"}, "annotation on w")
    mul = [n for n in ir_g if n.name == "mul0"][0]
    check(mul.outputs[0].meta[key] == {"SCALE_TENSOR": "h_scale"}, "annotation on h")
    check(ir_g.outputs[1].meta[key] == {"AXIS": "s2_axis"}, "annotation on s2")
    check(key not in ir_g.outputs[0].meta, "no annotation on y")
    if_node = [n for n in ir_g if n.name == "if0"][0]
    then_ir = if_node.attributes["then_branch"].value
    check(then_ir.initializers["tw"].meta[key] == {"SCALE_TENSOR": "tw_scale"}, "annotation tw")
    check(then_ir.outputs[0].meta[key] == {"ZERO_POINT_TENSOR": "t_zp"}, "annotation t_out")
    # captured outer value is the same object
    check(then_ir.node(0).inputs[0] is mul.outputs[0], "subgraph captures outer h")

    back = ir.to_proto(ir_g)
    # expected: documented normalisations only (value info added for initializer tw in subgraph)
    expected = norm_graph(g)
    got = norm_graph(back)
    # value_info for initializers is added by the serializer: remove those that the original lacks
    def strip_added(gp, orig):
        names = {v.name for v in orig.value_info}
        init = {t.name for t in gp.initializer}
        keep = [v for v in gp.value_info if v.name in names or v.name not in init]
        del gp.value_info[:]
        gp.value_info.extend(keep)
        for n, n0 in zip(gp.node, orig.node):
            for a, a0 in zip(n.attribute, n0.attribute):
                if a.type == onnx.AttributeProto.GRAPH:
                    strip_added(a.g, a0.g)
    strip_added(got, expected)
    check(got == expected, "round trip of main graph differs:\n%s\n---\n%s" % (got, expected))
    # second round trip is a fixpoint
    again = ir.to_proto(ir.from_proto(back))
    check(norm_graph(again) == norm_graph(back), "second round trip is not a fixpoint")


class _Collector(logging.Handler):
    def __init__(self):
        super().__init__()
        self.messages = []

    def emit(self, record):
        self.messages.append(record.getMessage())


def test_output_without_producer():
    """Unusual: graph outputs that no node produces (twice the same name) and empty graph."""
    f32 = TensorProto.FLOAT
    ghost = helper.make_tensor_value_info("ghost", f32, [3])
    ghost.doc_string = "nobody makes me"
    g = helper.make_graph([], "ghosts", [], [ghost, ghost])
    g.quantization_annotation.append(annotation("ghost", SCALE_TENSOR="never_used"))
    handler = _Collector()
    lg = logging.getLogger("onnx_ir.serde")
    lg.addHandler(handler)
    try:
        ir_g = ir.from_proto(g)
    finally:
        lg.removeHandler(handler)
    warnings = [m for m in handler.messages if "is not produced by any node" in m]
    check(len(warnings) == 2, f"expected two warnings, got {handler.messages}")
    check(ir_g.outputs[0] is not ir_g.outputs[1], "each unproduced output gets its own value")
    check("quant_parameter_tensor_names" not in ir_g.outputs[0].meta, "ghost is not annotated")
    check(ir_g.outputs[0].doc_string == "nobody makes me", "ghost doc string")
    back = ir.to_proto(ir_g)
    check(list(back.output) == [ghost, ghost], "ghost outputs round trip")
    check(len(back.quantization_annotation) == 0, "annotation of unannotated value not emitted")

    empty = onnx.GraphProto()
    check(ir.to_proto(ir.from_proto(empty)) == empty, "empty graph round trip")


def test_rejected():
    """Unusual: rejected inputs keep raising the same exception types and chains."""
    f32 = TensorProto.FLOAT
    # redeclared output -> SerdeError caused by ValueError
    g = helper.make_graph(
        [helper.make_node("Relu", ["a"], ["b"]), helper.make_node("Relu", ["a"], ["b"])],
        "dup",
        [helper.make_tensor_value_info("a", f32, [1])],
        [helper.make_tensor_value_info("b", f32, [1])],
    )
    g.quantization_annotation.append(annotation("b", SCALE_TENSOR="s"))
    try:
        ir.from_proto(g)
        check(False, "redeclared output must be rejected")
    except serde.SerdeError as e:
        check(isinstance(e.__cause__, ValueError), f"cause is {type(e.__cause__)}")
        check("_deserialize_graph" in str(e), str(e))

    # graph output with an unsupported (map) type: SerdeError <- SerdeError <- NotImplementedError
    bad = onnx.ValueInfoProto()
    bad.name = "m"
    bad.type.map_type.key_type = TensorProto.INT64
    bad.type.map_type.value_type.tensor_type.elem_type = f32
    g2 = helper.make_graph([], "badout", [], [bad])
    try:
        ir.from_proto(g2)
        check(False, "map type output must be rejected")
    except serde.SerdeError as e:
        chain = []
        cur = e
        while cur is not None:
            chain.append(type(cur).__name__)
            cur = cur.__cause__
        check(
            chain == ["SerdeError", "SerdeError", "SerdeError", "NotImplementedError"],
            f"unexpected chain {chain}",
        )
        check("_deserialize_graph" in str(e), str(e))
        check("deserialize_value_info_proto" in str(e.__cause__), str(e.__cause__))

    # scope stack is restored: a following deserialization with the public API works
    ok = helper.make_graph(
        [helper.make_node("Relu", ["a"], ["b"])],
        "ok",
        [helper.make_tensor_value_info("a", f32, [1])],
        [helper.make_tensor_value_info("b", f32, [1])],
    )
    check(ir.to_proto(ir.from_proto(ok)) == ok, "simple graph round trip after failures")


def main():
    test_round_trip()
    test_output_without_producer()
    test_rejected()
    if FAILED:
        print(f"{len(FAILED)} check(s) failed")
        return 1
    print("OK")
    return 0


if __name__ == "__main__":
    sys.exit(main())
