"""Demo for C11: graph iteration stays well defined while the graph is edited.

Exercises Graph.sort / Function.sort (with GRAPH and GRAPHS attributes, outer-scope
values, missing inputs, reference attributes, a cycle) and Graph.remove (single node,
iterables with duplicates, empty iterable, rejected calls) while iterators are live.
"""

from __future__ import annotations

import itertools
import random

import onnx_ir as ir


def names(it):
    return [n.name for n in it]


def drain(it):
    """Exhaust an iterator with next() only.

    (``for`` would call ``iter()`` again, and RecursiveGraphIterator restarts on that.)
    """
    out = []
    while (n := next(it, None)) is not None:
        out.append(n)
    return out


def val(name):
    return ir.Value(name=name)


def node(name, inputs, attributes=(), num_outputs=1):
    return ir.Node("", "Op", inputs, attributes, num_outputs=num_outputs, name=name)


def check_topological(graph_like):
    """Every producer that lives in the same graph comes before its consumer."""
    pos = {n: i for i, n in enumerate(graph_like)}
    assert len(pos) == len(graph_like)
    for n in graph_like:
        for v in n.inputs:
            if v is not None and v.producer() in pos:
                assert pos[v.producer()] < pos[n], (v.producer().name, n.name)


# ---------------------------------------------------------------- sort: basics
def scenario_sort_flat():
    x = val("x")
    a = node("a", [x])
    b = node("b", [a.outputs[0], None])  # a missing (None) input is ignored
    c = node("c", [b.outputs[0], b.outputs[0]])  # the same producer twice
    d = node("d", [x])
    e = node("e", [])
    g = ir.Graph([x], [c.outputs[0]], nodes=[c, e, b, d, a], name="g")
    assert names(g) == ["c", "e", "b", "d", "a"]
    g.sort()
    # stable: the chain a -> b -> c is pulled forward to the place of c
    assert names(g) == ["a", "b", "c", "e", "d"], names(g)
    assert names(reversed(g)) == ["d", "e", "c", "b", "a"]
    assert len(g) == 5 and g[0] is a and g[-1] is d and g[2] is c
    assert names(g[1:4]) == ["b", "c", "e"]
    assert a in g and node("zz", []) not in g
    check_topological(g)
    # idempotent
    g.sort()
    assert names(g) == ["a", "b", "c", "e", "d"]
    # empty graph
    empty = ir.Graph([], [], nodes=[], name="empty")
    empty.sort()
    assert len(empty) == 0 and list(empty) == [] and list(reversed(empty)) == []
    try:
        empty[0]
    except IndexError:
        pass
    else:
        raise AssertionError("IndexError expected")


# ------------------------------------------------------ sort: nested subgraphs
def build_nested():
    x = val("x")
    p = node("p", [x])
    q = node("q", [p.outputs[0]])
    # then-branch: uses an outer-scope value (q's output) and is itself unsorted
    t1 = node("t1", [q.outputs[0]])
    t2 = node("t2", [t1.outputs[0]])
    then_g = ir.Graph([], [t2.outputs[0]], nodes=[t2, t1], name="then")
    # else-branch contains a node with its own GRAPHS attribute
    i1 = node("i1", [])
    i2 = node("i2", [i1.outputs[0]])
    inner_a = ir.Graph([], [i2.outputs[0]], nodes=[i2, i1], name="inner_a")
    inner_b = ir.Graph([], [], nodes=[], name="inner_b")  # empty subgraph
    e1 = node("e1", [], [ir.AttrGraphs("bodies", [inner_a, inner_b])])
    e2 = node("e2", [e1.outputs[0]])
    else_g = ir.Graph([], [e2.outputs[0]], nodes=[e2, e1], name="else")
    iff = node(
        "if",
        [q.outputs[0]],
        [
            ir.AttrGraph("then_branch", then_g),
            ir.AttrGraph("else_branch", else_g),
            ir.AttrInt64("k", 3),
            ir.RefAttr("r", "outer", ir.AttributeType.GRAPH),  # reference: no graph
        ],
    )
    r = node("r", [iff.outputs[0]])
    g = ir.Graph([x], [r.outputs[0]], nodes=[r, iff, q, p], name="main")
    return g, then_g, else_g, inner_a, inner_b


def scenario_sort_nested():
    g, then_g, else_g, inner_a, inner_b = build_nested()
    assert names(g.all_nodes()) == [
        "r", "if", "t2", "t1", "e2", "e1", "i2", "i1", "q", "p",
    ]  # fmt: skip
    g.sort()
    assert names(g) == ["p", "q", "if", "r"], names(g)
    assert names(then_g) == ["t1", "t2"]
    assert names(else_g) == ["e1", "e2"]
    assert names(inner_a) == ["i1", "i2"]
    assert names(inner_b) == []
    assert names(g.all_nodes()) == [
        "p", "q", "if", "t1", "t2", "e1", "i1", "i2", "e2", "r",
    ]  # fmt: skip
    rev = ir.traversal.RecursiveGraphIterator(g, reverse=True)
    assert names(rev) == ["r", "if", "t2", "t1", "e2", "e1", "i2", "i1", "q", "p"], names(rev)
    for sub in (g, then_g, else_g, inner_a):
        check_topological(sub)
        assert all(n.graph is sub for n in sub)
    assert [s.name for s in g.subgraphs()] == ["then", "else", "inner_a", "inner_b"]


# ------------------------------------------------------------- sort: a cycle
def scenario_sort_cycle():
    x = val("x")
    a = node("a", [x])
    b = node("b", [a.outputs[0]])
    c = node("c", [b.outputs[0]])
    g = ir.Graph([x], [c.outputs[0]], nodes=[c, a, b], name="cyc")
    a.replace_input_with(0, c.outputs[0])  # a <- c <- b <- a
    it = iter(g)
    assert next(it) is c
    try:
        g.sort()
    except ValueError as exc:
        assert "cycle" in str(exc)
    else:
        raise AssertionError("ValueError expected")
    # nothing was modified, the live iterator continues undisturbed
    assert names(g) == ["c", "a", "b"] and len(g) == 3
    assert names(it) == ["a", "b"]
    a.replace_input_with(0, x)
    g.sort()
    assert names(g) == ["a", "b", "c"]


# ------------------------------------------------- sort while iterators are live
def scenario_sort_during_iteration():
    g, then_g, else_g, inner_a, _ = build_nested()
    fwd = iter(g)
    bwd = reversed(g)
    rec = iter(g.all_nodes())
    seen_f = [next(fwd).name, next(fwd).name]  # r, if
    seen_b = [next(bwd).name]  # p
    seen_r = [next(rec).name for _ in range(3)]  # r, if, t2
    assert (seen_f, seen_b, seen_r) == (["r", "if"], ["p"], ["r", "if", "t2"])
    g.sort()
    # Every iterator terminates without error and yields only current members.
    for it, seen in ((fwd, seen_f), (bwd, seen_b)):
        for n in it:
            assert n.graph is g and n in g
            seen.append(n.name)
    for n in drain(rec):
        assert n.graph is not None and n in n.graph
        seen_r.append(n.name)
    assert names(g) == ["p", "q", "if", "r"]
    # sort() re-appends the nodes one by one, i.e. it moves them: each iterator
    # resumes at the original place of its current node and then sees the
    # nodes that were re-appended behind it.
    assert seen_f == ["r", "if", "p", "q", "if", "r"], seen_f
    assert seen_b == ["p"], seen_b
    assert seen_r == [
        "r", "if", "t2", "t1", "t2", "e1", "i1", "i2", "e2", "p", "q",
        "if", "t1", "t2", "e1", "i1", "i2", "e2", "r",
    ], seen_r  # fmt: skip
    # fresh iterators see exactly the current sequence
    assert names(iter(g)) == ["p", "q", "if", "r"]
    assert names(reversed(g)) == ["r", "if", "q", "p"]

    # When the graph is already sorted, sort() keeps the order but still moves
    # (re-appends) all nodes: an iterator standing on the last node resumes at
    # its original place and sees all the nodes that were re-appended behind it.
    it_last = iter(g)
    for _ in range(4):
        last = next(it_last)
    assert last.name == "r"
    g.sort()
    assert names(it_last) == ["p", "q", "if", "r"]
    assert names(g) == ["p", "q", "if", "r"]
    # A single node is not moved at all by sort()
    x = val("x")
    only = node("only", [x])
    single = ir.Graph([x], [], nodes=[only], name="single")
    it_single = iter(single)
    assert next(it_single) is only
    single.sort()
    assert names(it_single) == [] and names(single) == ["only"]


# ------------------------------------------------------- Function delegates
def scenario_function():
    x = val("x")
    a = node("a", [x])
    b = node("b", [a.outputs[0]])
    c = node("c", [b.outputs[0]])
    fg = ir.Graph([x], [c.outputs[0]], nodes=[c, b, a], name="fbody")
    f = ir.Function("dom", "F", graph=fg, attributes=[])
    it = iter(f)
    assert next(it) is c
    f.sort()
    assert names(f) == ["a", "b", "c"] and len(f) == 3 and f[-1] is c
    assert names(it) == ["a", "b", "c"]
    it2 = iter(f)
    assert next(it2) is a
    f.remove(b)
    assert names(it2) == ["c"] and names(f) == ["a", "c"] and b.graph is None
    f.remove([], safe=True)  # empty input: nothing happens
    assert names(f) == ["a", "c"]


# ------------------------------------------------------------------ remove
def scenario_remove():
    x = val("x")
    ns = [node(f"n{i}", [x]) for i in range(8)]
    g = ir.Graph([x], [ns[7].outputs[0]], nodes=ns, name="rm")
    other = ir.Graph([], [], nodes=[node("foreign", [])], name="other")
    f_it, b_it = iter(g), reversed(g)
    assert next(f_it) is ns[0] and next(f_it) is ns[1]
    assert next(b_it) is ns[7]
    # single node (the current one of f_it)
    g.remove(ns[1])
    assert ns[1].graph is None and ns[1] not in g and len(g) == 7
    # iterable with duplicates, given as a generator
    g.remove(n for n in (ns[3], ns[5], ns[3]))
    assert names(g) == ["n0", "n2", "n4", "n6", "n7"]
    # rejected: a node of another graph in the batch -> nothing is removed
    try:
        g.remove([ns[2], other[0]])
    except ValueError as exc:
        assert "does not belong to this graph" in str(exc)
    else:
        raise AssertionError("ValueError expected")
    # rejected: an already removed node
    try:
        g.remove(ns[1])
    except ValueError:
        pass
    else:
        raise AssertionError("ValueError expected")
    # rejected: safe removal of the node producing the graph output
    try:
        g.remove([ns[6], ns[7]], safe=True)
    except ValueError as exc:
        assert "still an output" in str(exc)
    else:
        raise AssertionError("ValueError expected")
    # rejected: not a node at all
    try:
        g.remove(None)
    except (AttributeError, TypeError):
        pass
    else:
        raise AssertionError("error expected")
    assert names(g) == ["n0", "n2", "n4", "n6", "n7"] and len(g) == 5
    assert all(n.graph is g for n in g) and other[0].graph is other
    # safe removal detaches the inputs
    assert (ns[6], 0) in [tuple(u) for u in x.uses()]
    g.remove((ns[6],), safe=True)
    assert ns[6].inputs == (None,) and (ns[6], 0) not in [tuple(u) for u in x.uses()]
    # both live iterators skip everything removed and see each survivor once
    assert names(f_it) == ["n2", "n4", "n7"]
    assert names(b_it) == ["n4", "n2", "n0"]
    # a removed node can be inserted again; str/tuple-like single Node is not iterable
    g.insert_before(ns[0], ns[1])
    assert names(g) == ["n1", "n0", "n2", "n4", "n7"] and g[0] is ns[1] and g[-1] is ns[7]


# ------------------------------------------- random schedules against a model
def scenario_random(seed):
    rng = random.Random(seed)
    x = val("x")
    counter = itertools.count()

    def fresh():
        return node(f"m{next(counter)}", [x])

    model = [fresh() for _ in range(rng.randint(0, 6))]
    g = ir.Graph([x], [], nodes=list(model), name="rnd")
    start = list(model)
    touched = set()
    iters = []  # [iterator, direction, yielded]
    for _ in range(rng.randint(1, 3)):
        direction = rng.choice((1, -1))
        iters.append([iter(g) if direction == 1 else reversed(g), direction, []])
    done = [False] * len(iters)
    for _ in range(40):
        op = rng.choice(("step", "step", "append", "remove", "remove_many", "before", "after", "sort"))
        if op == "step":
            k = rng.randrange(len(iters))
            if not done[k]:
                try:
                    n = next(iters[k][0])
                except StopIteration:
                    done[k] = True
                else:
                    assert n.graph is g and n in model, "yielded a non-member"
                    iters[k][2].append(n)
        elif op == "append":
            n = fresh()
            g.append(n)
            model.append(n)
        elif op == "remove" and model:
            n = rng.choice(model)
            g.remove(n)
            model.remove(n)
            touched.add(n)
        elif op == "remove_many" and model:
            chosen = rng.sample(model, rng.randint(0, min(3, len(model))))
            g.remove(chosen + chosen[:1])  # with a duplicate
            for n in chosen:
                model.remove(n)
                touched.add(n)
        elif op in ("before", "after") and model:
            anchor = rng.choice(model)
            new = [fresh() for _ in range(rng.randint(0, 2))]
            if model and rng.random() < 0.4:
                moved = rng.choice(model)
                if moved is not anchor:
                    new.append(moved)  # move an existing node
                    model.remove(moved)
                    touched.add(moved)
            (g.insert_before if op == "before" else g.insert_after)(anchor, new)
            at = model.index(anchor) + (op == "after")
            model[at:at] = new
        elif op == "sort":
            # All nodes only consume the graph input: sort keeps the order but
            # still moves (re-appends) every node, unless there is only one.
            g.sort()
            if len(model) >= 2:
                touched.update(model)
        assert list(g) == model and len(g) == len(model)
        assert list(reversed(g)) == model[::-1]
        if model:
            assert g[0] is model[0] and g[-1] is model[-1]
            i = rng.randrange(len(model))
            assert g[i] is model[i] and g[i - len(model)] is model[i]
    # edits stopped: every iterator terminates
    for k, (it, direction, yielded) in enumerate(iters):
        for n in itertools.islice(it, 10_000):
            assert n.graph is g and n in model
            yielded.append(n)
        assert next(it, None) is None
        untouched = [n for n in start if n not in touched]
        got = [n for n in yielded if n in untouched]
        assert got == (untouched if direction == 1 else untouched[::-1]), (seed, k)


def main():
    scenario_sort_flat()
    scenario_sort_nested()
    scenario_sort_cycle()
    scenario_sort_during_iteration()
    scenario_function()
    scenario_remove()
    for seed in range(300):
        scenario_random(seed)
    print("C11 demo OK")


if __name__ == "__main__":
    main()
