"""Demo for C10: every external tensor reachable from a loaded model gets the model
directory as base directory, and reads never escape it (fail closed)."""

import io
import os
import sys
import tempfile

import numpy as np
import onnx
from onnx import TensorProto, helper

import onnx_ir as ir
from onnx_ir import external_data, serde

DATA = np.arange(4, dtype=np.float32)


def ext(name, location, dims=(4,)):
    t = TensorProto()
    t.name = name
    t.data_type = TensorProto.FLOAT
    t.dims.extend(dims)
    t.data_location = TensorProto.EXTERNAL
    for k, v in (("location", location), ("offset", "0"), ("length", str(4 * int(np.prod(dims))))):
        e = t.external_data.add()
        e.key, e.value = k, v
    return t


def subgraph(name, init_names, location):
    inits = [ext(n, location) for n in init_names]
    out = helper.make_tensor_value_info(f"{name}_out", TensorProto.FLOAT, [4])
    node = helper.make_node("Identity", [init_names[0]] if init_names else ["x"], [f"{name}_out"])
    return helper.make_graph([node], name, [], [out], initializer=inits)


def build(location):
    x = helper.make_tensor_value_info("x", TensorProto.FLOAT, [4])
    y = helper.make_tensor_value_info("y", TensorProto.FLOAT, [4])
    cond = helper.make_tensor_value_info("cond", TensorProto.BOOL, [])
    n_const = helper.make_node("Constant", [], ["c"], value=ext("attr_tensor", location))
    n_multi = helper.make_node(
        "Custom", ["x"], ["m"], domain="demo",
        many=[ext("attr_tensors_0", location), ext("attr_tensors_1", location)],
    )
    n_if = helper.make_node(
        "If", ["cond"], ["y"],
        then_branch=subgraph("then_g", ["then_w", "then_w2"], location),
        else_branch=subgraph("else_g", ["else_w"], location),
    )
    n_graphs = helper.make_node(
        "CustomG", ["x"], ["gg"], domain="demo",
        bodies=[subgraph("b0", ["b0_w"], location), subgraph("b1", [], location),
                subgraph("b2", ["b2_w"], location)],
    )
    graph = helper.make_graph(
        [n_const, n_multi, n_if, n_graphs], "main", [x, cond], [y],
        initializer=[ext("w", location), ext("empty", location, dims=(0,))],
    )
    # A function whose node has an external tensor attribute and a reference attribute
    f_node = helper.make_node("Constant", [], ["fc"], value=ext("func_attr_tensor", location))
    f_ref = helper.make_node("Custom", ["fc"], ["fo"], domain="demo")
    ref = f_ref.attribute.add()
    ref.name, ref.ref_attr_name, ref.type = "many", "a", onnx.AttributeProto.TENSORS
    func = helper.make_function(
        "demo", "F", [], ["fo"], [f_node, f_ref],
        [helper.make_opsetid("", 18), helper.make_opsetid("demo", 1)], attributes=["a"],
    )
    model = helper.make_model(
        graph, opset_imports=[helper.make_opsetid("", 18), helper.make_opsetid("demo", 1)],
        functions=[func],
    )
    return model


EXPECTED = {
    "w", "empty", "attr_tensor", "attr_tensors_0", "attr_tensors_1", "then_w", "then_w2",
    "else_w", "b0_w", "b2_w", "func_attr_tensor",
}


def tensors_of(graph, seen):
    """Independent walk (does not use the library helper under test)."""
    for v in graph.initializers.values():
        if v.const_value is not None:
            seen.append(v.const_value)
    for node in graph:
        for attr in node.attributes.values():
            if attr.is_ref() or attr.value is None:
                continue
            if attr.type == ir.AttributeType.TENSOR:
                seen.append(attr.value)
            elif attr.type == ir.AttributeType.TENSORS:
                seen.extend(attr.value)
            elif attr.type == ir.AttributeType.GRAPH:
                tensors_of(attr.value, seen)
            elif attr.type == ir.AttributeType.GRAPHS:
                for g in attr.value:
                    tensors_of(g, seen)
    return seen


def all_external(model):
    seen = tensors_of(model.graph, [])
    for f in model.functions.values():
        tensors_of(f.graph, seen)
    return [t for t in seen if isinstance(t, ir.ExternalTensor)]


def raw_bytes(t):
    """Serialize the tensor's content into the raw_data field of a TensorProto."""
    lazy = ir.LazyTensor(lambda: t, dtype=t.dtype, shape=t.shape, name=t.name)
    try:
        return serde.serialize_tensor(lazy).raw_data
    except serde.SerdeError as e:
        # The serializer wraps the error of the read; hand the original one to the caller
        assert isinstance(e.__cause__, ValueError), repr(e.__cause__)
        raise e.__cause__ from None


def readers(t):
    yield "numpy", lambda: t.numpy()
    yield "tobytes", lambda: t.tobytes()
    yield "tofile", lambda: t.tofile(io.BytesIO())
    yield "__array__", lambda: np.asarray(t)
    yield "serialize", lambda: raw_bytes(t)


def expect_rejected(model, what):
    tensors = all_external(model)
    assert {t.name for t in tensors} == EXPECTED, sorted(t.name for t in tensors)
    for t in tensors:
        assert t.base_dir != "", (what, t.name)
        for entry, fn in readers(t):
            try:
                fn()
            except ValueError:
                continue
            raise AssertionError(f"{what}: {t.name} via {entry} was not rejected")


def expect_ok(model, base_spelling, what):
    tensors = all_external(model)
    assert {t.name for t in tensors} == EXPECTED, sorted(t.name for t in tensors)
    for t in tensors:
        assert os.fspath(t.base_dir) == base_spelling, (what, t.name, t.base_dir)
        want = DATA if t.name != "empty" else DATA[:0]
        np.testing.assert_array_equal(t.numpy(), want)
        assert t.tobytes() == want.tobytes()
        buf = io.BytesIO()
        t.tofile(buf)
        assert buf.getvalue() == want.tobytes()
        np.testing.assert_array_equal(np.asarray(t), want)
        assert raw_bytes(t) == want.tobytes()


def main():
    root = os.path.realpath(tempfile.mkdtemp())
    mdir = os.path.join(root, "model")
    os.mkdir(mdir)
    os.mkdir(os.path.join(root, "model_evil"))  # sibling sharing the prefix
    os.mkdir(os.path.join(mdir, "sub"))
    for p in (
        os.path.join(mdir, "data.bin"),
        os.path.join(mdir, "sub", "data.bin"),
        os.path.join(root, "outside.bin"),
        os.path.join(root, "model_evil", "data.bin"),
        os.path.join(mdir, "linked_src.bin"),
    ):
        DATA.tofile(p)
    os.symlink(os.path.join(root, "outside.bin"), os.path.join(mdir, "sym_out.bin"))
    os.symlink(os.path.join(mdir, "data.bin"), os.path.join(mdir, "sym_in.bin"))
    os.symlink(root, os.path.join(mdir, "dir_out"))
    os.link(os.path.join(mdir, "linked_src.bin"), os.path.join(mdir, "hard.bin"))
    os.symlink(mdir, os.path.join(root, "model_link"))

    good = ["data.bin", "./data.bin", "sub/../data.bin", "sub//data.bin", "sym_in.bin"]
    bad = [
        "../outside.bin", "sub/../../outside.bin", os.path.join(root, "outside.bin"),
        "../model_evil/data.bin", "sym_out.bin", "dir_out/outside.bin", "hard.bin",
        "linked_src.bin",
    ]
    for i, loc in enumerate(good + bad):
        onnx.save(build(loc), os.path.join(mdir, f"m{i}.onnx"))

    os.chdir(mdir)
    spellings = [
        (mdir, lambda n: os.path.join(mdir, n)),
        (".", lambda n: n),  # bare file name
        (".", lambda n: "./" + n),
        ("../model", lambda n: "../model/" + n),
        (mdir + "/", lambda n: mdir + "//" + n),
        (os.path.join(root, "model_link"), lambda n: os.path.join(root, "model_link", n)),
    ]
    for base, spell in spellings:
        for i, loc in enumerate(good + bad):
            path = spell(f"m{i}.onnx")
            model = ir.load(path)
            what = f"load({path!r}) location={loc!r}"
            if loc in good:
                expect_ok(model, os.path.dirname(path) or ".", what)
            else:
                expect_rejected(model, what)
            # pathlib spelling of the same file
            import pathlib
            model = ir.load(pathlib.Path(path))
            (expect_ok if loc in good else expect_rejected)(
                model, *((os.path.dirname(os.fspath(pathlib.Path(path))) or ".", what) if loc in good else (what,))
            )

    # Unusual: the same tensor object shared (duplicate) by an initializer and two attributes,
    # a graph with no tensors at all, an initializer without value, and re-basing after a read.
    shared = ir.ExternalTensor("data.bin", 0, 16, ir.DataType.FLOAT, shape=ir.Shape([4]), name="shared")
    v = ir.Value(name="shared", const_value=shared)
    no_value = ir.Value(name="no_value")
    inner = ir.Graph([], [], nodes=[], initializers=[ir.Value(name="shared", const_value=shared)], name="inner")
    node = ir.Node("demo", "Op", [], attributes=[
        ir.AttrTensor("a", shared), ir.AttrTensors("b", [shared, shared]),
        ir.AttrGraph("g", inner), ir.AttrGraphs("gs", []), ir.AttrTensors("none", []),
        ir.RefAttr("r", "outer", ir.AttributeType.TENSOR),
    ])
    g = ir.Graph([], [], nodes=[node], initializers=[v], name="dup")
    g.initializers["no_value"] = no_value
    np.testing.assert_array_equal(shared.numpy(), DATA)  # base_dir empty: cwd is mdir, unchecked
    external_data.set_base_dir(g, os.path.join(root, "model_evil", "..", "model"))
    np.testing.assert_array_equal(shared.numpy(), DATA)
    external_data.set_base_dir(g, root)  # data.bin does not exist there
    try:
        shared.numpy()
    except FileNotFoundError:
        pass
    else:
        raise AssertionError("stale mapping served after re-basing")
    external_data.set_base_dir(ir.Graph([], [], nodes=[], name="nothing"), mdir)  # empty graph
    escaped = ir.ExternalTensor("../outside.bin", 0, 16, ir.DataType.FLOAT, shape=ir.Shape([4]), name="e")
    g2 = ir.Graph([], [], nodes=[ir.Node("", "Constant", [], attributes=[ir.AttrTensor("value", escaped)])],
                  name="attr_only")
    external_data.set_base_dir(g2, mdir)
    for entry, fn in readers(escaped):
        try:
            fn()
        except ValueError:
            continue
        raise AssertionError(f"escaped tensor read through {entry}")
    # Rejected call: a base directory that is not a path leaves the walk at the first tensor
    try:
        external_data.set_base_dir(g, 3)
    except TypeError:
        pass
    else:
        raise AssertionError("non-path base_dir accepted")
    assert shared.base_dir == root
    print("OK")


if __name__ == "__main__":
    main()
    sys.exit(0)
