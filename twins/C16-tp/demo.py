"""Demo for C16 (symbolic dimensions have integer semantics).

Exercises the constructor of SymbolicDim, true division and the reflected
(int on the left) operators through the public API, and checks every result
against exact integer / rational arithmetic. Exits 0 on success.
"""

from __future__ import annotations

import fractions
import itertools
import math
import sys

import sympy

import onnx_ir as ir

failures: list[str] = []


def check(cond: bool, msg: str) -> None:
    if not cond:
        failures.append(msg)


def as_exact(result):
    """Turn the result of evaluate() into an int or a Fraction."""
    if isinstance(result, int):
        return result
    assert isinstance(result, ir.SymbolicDim), result
    expr = sympy.sympify(result._expr)  # residual number, e.g. 7/2
    assert expr.is_number, expr
    ratio = sympy.Rational(expr)
    return fractions.Fraction(int(ratio.p), int(ratio.q))


# ---------------------------------------------------------------- constructor
n = ir.SymbolicDim("N")
check(n.value == "N" and n == "N" and hash(n) == hash("N"), "named dim")
unknown = ir.SymbolicDim(None)
check(unknown.value is None and unknown == None, "unknown dim")  # noqa: E711
from_expr = ir.SymbolicDim(sympy.Symbol("N", integer=True, positive=True) + 2)
check(from_expr.value == "N + 2", f"expr dim text {from_expr.value!r}")
check(from_expr.evaluate({"N": 5}) == 7, "expr dim evaluate")


class MyStr(str):
    pass


sub = ir.SymbolicDim(MyStr("K"))
check(type(sub.value) is MyStr and sub.evaluate({"K": 3}) == 3, "str subclass kept as is")

for bad in (3, True, 2.5, b"N", ["N"], object()):
    try:
        ir.SymbolicDim(bad)
    except TypeError as exc:
        if isinstance(bad, int):
            check("cannot be an int" in str(exc), f"int message {exc}")
        else:
            check(
                str(exc) == f"Expected str, None, or sympy.Expr, got {type(bad).__name__}",
                f"type message {exc}",
            )
    else:
        check(False, f"SymbolicDim({bad!r}) accepted")
# sympy.Integer is an Expr, not a Python int: accepted
check(ir.SymbolicDim(sympy.Integer(4)).evaluate({}) == 4, "sympy.Integer accepted")

# ------------------------------------------------- reflected operators, exact
m = ir.SymbolicDim("M")
values = [1, 2, 3, 7, 12]
consts = [-9, -1, 0, 1, 5, 17]
for c, nv, mv in itertools.product(consts, values, values):
    b = {"N": nv, "M": mv}
    check((c - n).evaluate(b) == c - nv, f"{c} - N @ {b}")
    check((c // n).evaluate(b) == c // nv, f"{c} // N @ {b}")
    check((c % n).evaluate(b) == c % nv, f"{c} % N @ {b}")
    check(as_exact((c / n).evaluate(b)) == fractions.Fraction(c, nv), f"{c} / N @ {b}")
    check(as_exact((n / m).evaluate(b)) == fractions.Fraction(nv, mv), f"N / M @ {b}")
    # nested, mixed int / symbolic operands on either side
    e = 100 - (c // (n + m)) * (7 % m) + (50 - n) // 3
    check(
        e.evaluate(b) == 100 - (c // (nv + mv)) * (7 % mv) + (50 - nv) // 3,
        f"nested @ {b}",
    )
    if c not in (0,):
        check(as_exact((n / c).evaluate(b)) == fractions.Fraction(nv, int(c)), f"N / {c} @ {b}")
        check(
            math.floor(n / c).evaluate(b) == math.floor(fractions.Fraction(nv, int(c))),
            f"floor(N / {c}) @ {b}",
        )
        check(
            math.ceil(c / n).evaluate(b) == math.ceil(fractions.Fraction(int(c), nv)),
            f"ceil({c} / N) @ {b}",
        )
    # partial binding leaves a residual that evaluates consistently later
    partial = (c - n * m).evaluate({"N": nv})
    later = partial.evaluate({"M": mv}) if isinstance(partial, ir.SymbolicDim) else partial
    check(later == c - nv * mv, f"partial {c} - N*M @ {b}")
    # text round trip and simplification
    d = (c % (n + 1)) + (c - m) // 2
    want = (c % (nv + 1)) + (c - mv) // 2
    check(ir.SymbolicDim(d.value).evaluate(b) == want, f"round trip {d.value!r} @ {b}")
    check(d.simplify().evaluate(b) == want, f"simplify {d.value!r} @ {b}")

# same dimension on both sides (aliasing)
check((n / n).evaluate({}) == 1, "N / N")
check((n / n).evaluate({"N": 4}) == 1, "N / N bound")

# ----------------------------------------------------- unknown dims propagate
for res in (5 - unknown, 5 // unknown, 5 / unknown, 5 % unknown, unknown / 2, unknown / n, n / unknown):
    check(isinstance(res, ir.SymbolicDim) and res.value is None, f"unknown propagation {res!r}")
# unknown wins over an unsupported operand (checked first)
check((unknown / "x").value is None, "unknown / str")
check(unknown.__rsub__("x").value is None, "str - unknown")

# --------------------------------------------------------- rejected operands
for name in ("__rsub__", "__rfloordiv__", "__rtruediv__", "__rmod__", "__truediv__"):
    check(getattr(n, name)(2.5) is NotImplemented, f"{name}(2.5)")
    check(getattr(n, name)("x") is NotImplemented, f"{name}('x')")
    check(getattr(n, name)(None) is NotImplemented, f"{name}(None)")
check(n.__rsub__(m) is NotImplemented, "__rsub__(SymbolicDim) is not handled by the reflected op")
for op in (lambda: 2.5 - n, lambda: "x" / n, lambda: n / 2.5, lambda: [1] % n, lambda: None // n):
    try:
        op()
    except TypeError:
        pass
    else:
        check(False, "unsupported operand accepted")

# a dimension whose text does not parse fails with ValueError before the operand is looked at
broken = ir.SymbolicDim("a $ b")
for call in (lambda: 1 - broken, lambda: broken.__rsub__("x"), lambda: broken / "x", lambda: n / broken):
    try:
        call()
    except ValueError:
        pass
    else:
        check(False, "unparseable text accepted")

if failures:
    print(f"{len(failures)} FAILURES")
    for f in failures[:20]:
        print("  ", f)
    sys.exit(1)
print("OK")
