"""Demo for C16: the textual form of a symbolic dimension re-parses with integer semantics.

Exercises the tokenizer path (numbers, identifiers with dots/underscores, one- and
two-character operators, parentheses, commas, whitespace, rejected characters)
through the public API only (ir.SymbolicDim / ir.Shape).
"""

import itertools
import math
import sys

import onnx_ir
import onnx_ir as ir

# (worktree-path assertion removed when the twin was stored)


def ev(text, **bindings):
    return ir.SymbolicDim(text).evaluate(bindings)


failures = []


def check(cond, msg):
    if not cond:
        failures.append(msg)
        print("FAIL:", msg)


# 1. Strings of the documented grammar get the standard arithmetic meaning.
CASES = [
    ("a + b * c", lambda a, b, c: a + b * c),
    ("a - b - c", lambda a, b, c: a - b - c),
    ("a-b+c", lambda a, b, c: a - b + c),
    ("(a - b) * c", lambda a, b, c: (a - b) * c),
    ("a // b // c", lambda a, b, c: a // b // c),
    ("a//b*c", lambda a, b, c: a // b * c),
    ("a * b // c", lambda a, b, c: a * b // c),
    ("a % b % c", lambda a, b, c: a % b % c),
    ("a * b % c", lambda a, b, c: a * b % c),
    ("a % b * c", lambda a, b, c: a % b * c),
    ("-a + b", lambda a, b, c: -a + b),
    ("- a * b", lambda a, b, c: -a * b),
    ("a - -b", lambda a, b, c: a - -b),
    ("a*-b", lambda a, b, c: a * -b),
    ("-a ** 2", lambda a, b, c: -(a**2)),
    ("a**2**2", lambda a, b, c: a ** (2**2)),
    ("2 ** b * c", lambda a, b, c: 2**b * c),
    ("a ** 2 // b", lambda a, b, c: a**2 // b),
    ("(a + b) // 2 * 2", lambda a, b, c: (a + b) // 2 * 2),
    ("max(a, b, c)", lambda a, b, c: max(a, b, c)),
    ("min(a,b)+c", lambda a, b, c: min(a, b) + c),
    ("Max(a, min(b, c)) - 1", lambda a, b, c: max(a, min(b, c)) - 1),
    ("floor(a / b)", lambda a, b, c: a // b),
    ("ceiling(a / b) * b", lambda a, b, c: -(-a // b) * b),
    ("mod(a, b)", lambda a, b, c: a % b),
    ("Mod(a + c, b)", lambda a, b, c: (a + c) % b),
    ("\t a  +\n 12  * ( b//c ) ", lambda a, b, c: a + 12 * (b // c)),
    ("007 + a", lambda a, b, c: 7 + a),
    ("a*(b)", lambda a, b, c: a * b),
    ("((a))", lambda a, b, c: a),
    ("a / b * b", lambda a, b, c: a),
    ("12345678901234567890123 * a", lambda a, b, c: 12345678901234567890123 * a),
]
values = [1, 2, 3, 7, 10]
for text, fn in CASES:
    for a, b, c in itertools.product(values, repeat=3):
        got = ev(text, a=a, b=b, c=c)
        want = fn(a, b, c)
        check(
            isinstance(got, int) and got == want,
            f"{text!r} with a={a} b={b} c={c}: got {got!r}, want {want!r}",
        )

# 2. Identifiers: dots, underscores, digits inside, leading underscore, unicode letters.
check(ev("decoder_input_ids.45_dim_1 + 1", **{"decoder_input_ids.45_dim_1": 4}) == 5, "dotted ident")
check(ev("_x1 * 2", _x1=3) == 6, "leading underscore ident")
check(ev("a.b.c - a", **{"a.b.c": 9, "a": 4}) == 5, "a.b.c is one identifier, distinct from a")
check(ev("x2y*2", x2y=5) == 10, "digits inside identifier")
check(ev("é + 1", **{"é": 2}) == 3, "non-ascii letter identifier")
check(ir.SymbolicDim("n_1.z+1").free_symbols() == frozenset({"n_1.z"}), "free symbols of dotted ident")
# '2a' tokenises as NUMBER 2 followed by IDENT a: not an expression of the grammar
for bad in ["2a", "a b", "a 1"]:
    try:
        ev(bad, a=1, b=1)
        check(False, f"{bad!r} accepted")
    except ValueError as e:
        check("Unexpected token" in str(e), f"{bad!r}: message {e}")

# 3. Rejected characters: exact exception type and message, position included.
REJECT = {
    "a $ b": "Unexpected character '$' at position 2 in expression 'a $ b'",
    "a + b!": "Unexpected character '!' at position 5 in expression 'a + b!'",
    "a ^ 2": "Unexpected character '^' at position 2 in expression 'a ^ 2'",
    "a + .5": "Unexpected character '.' at position 4 in expression 'a + .5'",
    "[a]": "Unexpected character '[' at position 0 in expression '[a]'",
    "a +  =": "Unexpected character '=' at position 5 in expression 'a +  ='",
}
for text, message in REJECT.items():
    try:
        ev(text, a=1, b=1)
        check(False, f"{text!r} accepted")
    except ValueError as e:
        check(str(e) == message, f"{text!r}: message {str(e)!r}")

# 4. Operators at the very end of the text (the two-character lookahead runs off the end).
for bad in ["a /", "a *", "a //", "a **", "a +", "a -", "a %", "(", "a,", "max(a,", "a * (", ")"]:
    try:
        ev(bad, a=1)
        check(False, f"{bad!r} accepted")
    except ValueError:
        pass
# '***' is '**' then '*'; '///' is '//' then '/': both are syntax errors, not silently accepted
for bad in ["a *** b", "a /// b", "a % % b", "a ,b", "max(a,,b)", "max(,a)"]:
    try:
        ev(bad, a=1, b=1)
        check(False, f"{bad!r} accepted")
    except ValueError:
        pass
# '* *' with a space is two '*' tokens, not a power
try:
    ev("a * * b", a=2, b=3)
    check(False, "'a * * b' accepted")
except ValueError:
    pass
check(ev("a//-b", a=7, b=2) == -4, "a//-b")
# Empty / whitespace-only text: construction is lazy, the failure appears on use
for empty in ["", "   "]:
    d = ir.SymbolicDim(empty)
    check(d.value == empty, "value stored verbatim")
    try:
        d.evaluate({})
        check(False, f"{empty!r} evaluated")
    except ValueError as e:
        check("Unexpected end of expression" in str(e), f"{empty!r}: {e}")
# A digit that is not a decimal literal is rejected with ValueError (from int())
try:
    ev("a + ²", a=1)
    check(False, "superscript two accepted")
except ValueError:
    pass
# Unknown function name
try:
    ev("foo(a)", a=1)
    check(False, "foo(a) accepted")
except ValueError as e:
    check("Unknown function 'foo'" in str(e), str(e))

# 5. Built expression -> text -> re-parsed expression: same evaluations; partial bindings.
N, M, K = ir.SymbolicDim("N"), ir.SymbolicDim("M"), ir.SymbolicDim("K.0")
built = [
    (N + 1) * M - K // 2,
    (N - M) % 5 + 3 * K,
    -(N * M) // 3,
    math.floor(N / 2) + math.ceil(M / 3),
    math.trunc((N - M) / 2),
    7 - N + M * M,
    10 // N + 10 % M,
    (N + M) / 2 * 2,
    (N * 4 + 6) // 2,
]
for d in built:
    text = d.value
    reparsed = ir.SymbolicDim(text)
    simplified = d.simplify()
    for n, m, k in itertools.product([1, 2, 5, 8], repeat=3):
        full = {"N": n, "M": m, "K.0": k}
        v1 = d.evaluate(full)
        v2 = reparsed.evaluate(full)
        v3 = simplified.evaluate(full)
        # (sympy may simplify trunc() into a Piecewise, whose text is outside the grammar)
        v4 = v3 if "Piecewise" in simplified.value else ir.SymbolicDim(simplified.value).evaluate(full)
        check(isinstance(v1, int), f"{text}: {v1!r} not int at {full}")
        check(v1 == v2 == v3 == v4, f"{text}: {v1!r} {v2!r} {v3!r} {v4!r} at {full}")
        # partial binding, then the rest, through the textual form of the residual
        part = d.evaluate({"N": n})
        if isinstance(part, ir.SymbolicDim):
            rest = ir.SymbolicDim(part.value).evaluate({"M": m, "K.0": k})
        else:
            rest = part
        check(rest == v1, f"{text}: partial {part!r} -> {rest!r}, want {v1!r}")

# 6. A shape holding such dims keeps the text verbatim (what a saved model stores).
shape = ir.Shape(["N + 1", "N + 1", None, 3, "a//b"])
check(shape[0] == shape[1] == "N + 1", "duplicates equal")
check(shape[0].evaluate({"N": 2}) == 3, "shape dim evaluates")
check(isinstance(shape[2].evaluate({"N": 2}), ir.SymbolicDim) and shape[2].evaluate({}).value is None, "unknown dim")
check(shape[4].evaluate({"a": 9, "b": 2}) == 4, "a//b in shape")

if failures:
    print(f"{len(failures)} failure(s)")
    sys.exit(1)
print("OK")
