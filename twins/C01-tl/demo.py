"""Demo for C01: use-def and ownership links stay consistent under edits.

Exercises Graph.extend / insert_after / insert_before / remove(safe=...) and
Node.resize_outputs, including rejected calls, duplicates, empty inputs and a
nested subgraph, and checks both directions of every link after each step.
"""
import onnx_ir as ir


def check(*graphs, loose_nodes=()):
    nodes = []
    for g in graphs:
        seq = list(g)
        assert len(seq) == len(set(map(id, seq))) == len(g), "node listed once"
        for n in seq:
            assert n.graph is g, (n, g)
        nodes.extend(seq)
        for v in g.inputs:
            assert v.is_graph_input() and v.graph is g and v.producer() is None
        for v in g.outputs:
            assert v.is_graph_output()
        for name, v in g.initializers.items():
            assert v.name == name and v.is_initializer() and v.producer() is None
    for n in loose_nodes:
        assert n.graph is None, n
        assert all(n is not m for m in nodes)
    values = set()
    for n in list(nodes) + list(loose_nodes):
        for i, v in enumerate(n.inputs):
            if v is not None:
                assert (n, i) in v.uses(), (n, i)
                values.add(v)
        for i, v in enumerate(n.outputs):
            assert v.producer() is n and v.index() == i
            values.add(v)
    for v in values:
        uses = list(v.uses())
        assert len(uses) == len(set(uses))
        for user, idx in uses:
            assert user.inputs[idx] is v


def expect(exc, fn, *a, **k):
    try:
        fn(*a, **k)
    except exc:
        return
    raise AssertionError(f"{fn} did not raise {exc}")


def names(g):
    return [n.name for n in g]


x = ir.Value(name="x")
a = ir.Node("", "A", [x], name="a")
b = ir.Node("", "B", [a.outputs[0], a.outputs[0]], name="b")
c = ir.Node("", "C", [b.outputs[0], None], name="c", num_outputs=3)
g = ir.Graph([x], [c.outputs[0]], nodes=[a, b, c], name="g")
check(g)
assert names(g) == ["a", "b", "c"]

# nested subgraph using an outer value
inner = ir.Node("", "Inner", [a.outputs[0]], name="inner")
sub = ir.Graph([], [inner.outputs[0]], nodes=[inner], name="sub")
host = ir.Node("", "If", [x], [ir.AttrGraph("then_branch", sub)], name="host")
g.append(host)
check(g, sub)

other = ir.Graph([], [], nodes=[], name="other")

# --- extend: empty, duplicates-free, rejected batch leaves nothing adopted
g.extend([])
other.extend(iter(()))
check(g, sub, other)
d = ir.Node("", "D", [], name=None)
e = ir.Node("", "E", [d.outputs[0]], name="e")
expect(ValueError, other.extend, [d, e, inner])  # inner belongs to sub
assert d.graph is None and e.graph is None and d.name is None and len(other) == 0
check(g, sub, other, loose_nodes=[d, e])
other.extend(n for n in (d, e))
assert d.name is not None and d.outputs[0].name is not None
check(g, sub, other)
assert names(other) == [d.name, "e"]

# --- insert_after / insert_before: single node, iterables, bad anchor, bad member
f1 = ir.Node("", "F", [x], name="f1")
f2 = ir.Node("", "F", [f1.outputs[0]], name="f2")
expect(ValueError, g.insert_after, d, [f1])  # anchor in another graph
expect(ValueError, g.insert_before, f2, f1)  # anchor in no graph
expect(ValueError, g.insert_after, a, [f1, e, f2])  # e belongs to other
assert f1.graph is None and f2.graph is None
check(g, sub, other, loose_nodes=[f1, f2])
g.insert_after(a, f1)
g.insert_before(b, (n for n in [f2]))
g.insert_after(a, [])
g.insert_before(a, ())
check(g, sub, other)
assert names(g) == ["a", "f1", "f2", "b", "c", "host"]
# moving nodes already in the graph
g.insert_before(a, [c, b])
check(g, sub, other)
assert names(g) == ["c", "b", "a", "f1", "f2", "host"]
a.append(b)
c.prepend([f2, f1])
check(g, sub, other)
assert names(g) == ["f2", "f1", "c", "a", "b", "host"]
g.insert_after(g[-1], [c])
assert names(g) == ["f2", "f1", "a", "b", "host", "c"]
check(g, sub, other)

# --- remove
expect(ValueError, g.remove, [f2, d])  # d is in other: nothing removed
assert f2.graph is g and d.graph is other
expect(ValueError, g.remove, f1, safe=True)  # f1 output used by f2
expect(ValueError, g.remove, c, safe=True)  # produces a graph output
expect(ValueError, g.remove, a, safe=True)  # used by b and by inner (subgraph)
check(g, sub, other)
g.remove([f1, f2, f2], safe=True)  # duplicates in the request
assert f1.inputs == (None,) and f2.inputs == (None,)
assert not f1.outputs[0].uses() and all(u.node is not f1 for u in x.uses())
check(g, sub, other, loose_nodes=[f1, f2])
expect(ValueError, g.remove, f1)  # already removed
g.remove(b)  # unsafe removal keeps b's uses of its inputs
assert b.inputs == (a.outputs[0], a.outputs[0])
assert (b, 0) in a.outputs[0].uses() and (b, 1) in a.outputs[0].uses()
check(g, sub, other, loose_nodes=[f1, f2, b])
g.remove([])
other.remove([e, d], safe=True)
assert len(other) == 0 and e.inputs == (None,)
check(g, sub, other, loose_nodes=[f1, f2, b, d, e])
g.insert_after(a, b)  # a removed node can come back
check(g, sub, other, loose_nodes=[f1, f2, d, e])
assert names(g) == ["a", "b", "host", "c"]

# --- resize_outputs
user = ir.Node("", "U", [c.outputs[2]], name="user")
g.append(user)
expect(ValueError, c.resize_outputs, 1)  # outputs[2] has a use; nothing detached
assert len(c.outputs) == 3 and c.outputs[1].producer() is c and c.outputs[1].index() == 1
check(g, sub, other)
user.replace_input_with(0, None)
old1, old2 = c.outputs[1], c.outputs[2]
c.resize_outputs(3)
c.resize_outputs(1)
assert len(c.outputs) == 1 and old1.producer() is None and old2.producer() is None
assert c.outputs[0].is_graph_output()
check(g, sub, other)
c.resize_outputs(4)
assert [v.index() for v in c.outputs] == [0, 1, 2, 3]
check(g, sub, other)
lone = ir.Node("", "L", [], num_outputs=2)
lone.resize_outputs(0)
assert lone.outputs == ()
lone.resize_outputs(2)
check(g, sub, other, loose_nodes=[lone])
expect(TypeError, lone.resize_outputs, "3")
assert len(lone.outputs) == 2
check(g, sub, other, loose_nodes=[lone])

# Function delegates to the same graph methods
fn = ir.Function("dom", "fn", graph=ir.Graph([], [], nodes=[], name="fg"), attributes=[])
fn.extend([f1, f2])
expect(ValueError, fn.extend, [lone, a])
assert lone.graph is None
fn.insert_before(f1, lone)
fn.remove(f2, safe=True)
check(g, sub, other, fn.graph, loose_nodes=[f2])
assert [n.op_type for n in fn] == ["L", "F"]

print("OK")
