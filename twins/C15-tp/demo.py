"""Demo for C15: generated names never collide; name fixing yields unique names only.

Exercises Value.name (initializer re-keying and its refusals), NameFixPass on
missing / duplicated names across nested scopes and a function, a custom name
generator, and rename_values (swap, cycle, rejected call = nothing changed).
"""

import onnx_ir as ir
from onnx_ir.passes.common.naming import NameFixPass


def check(cond, msg):
    if not cond:
        raise SystemExit(f"FAIL: {msg}")


def tensor(name):
    return ir.tensor([1.0], name=name)


def init(name):
    return ir.Value(name=name, const_value=tensor(name))


# ---------------------------------------------------------------- 1. generated names
g = ir.Graph([], [], nodes=[], name="g")
explicit = ir.Node("", "Add", [], name="node_Add_1", outputs=[ir.Value(name="val_2")])
g.append(explicit)
check(explicit.name == "node_Add_1" and explicit.outputs[0].name == "val_2", "explicit names altered")
seen_nodes, seen_values = {"node_Add_1"}, {"val_2"}
history = []
for i in range(6):
    n = ir.Node("", "Add", [], num_outputs=2)
    g.append(n)
    history.append(n)
    check(n.name not in seen_nodes, f"generated node name {n.name} collides")
    seen_nodes.add(n.name)
    for o in n.outputs:
        check(o.name not in seen_values, f"generated value name {o.name} collides")
        seen_values.add(o.name)
    if i % 2:
        g.remove(n)  # removed names stay reserved
check(explicit.name == "node_Add_1", "explicit node name altered by later adds")

# ---------------------------------------------------------------- 2. Value.name on initializers
a, b = init("a"), init("b")
g2 = ir.Graph([], [], nodes=[], initializers=[a, b], name="g2")
a.name = "a2"
check(list(g2.initializers) == ["b", "a2"] or set(g2.initializers) == {"a2", "b"}, "re-key failed")
check(g2.initializers["a2"] is a and a.const_value.name == "a2", "initializer/tensor not renamed")
a.name = "a2"  # no-op
for bad, label in ((None, "None"), ("", "empty"), ("b", "taken")):
    before = (a.name, a.const_value.name, dict(g2.initializers))
    try:
        a.name = bad
    except ValueError:
        pass
    else:
        raise SystemExit(f"FAIL: renaming an initializer to {label} was accepted")
    check((a.name, a.const_value.name, dict(g2.initializers)) == before, f"state changed by refused rename ({label})")
free = ir.Value(name="x")
free.name = None
free.name = ""
free.name = "b"  # not an initializer: unrestricted
check(free.name == "b", "plain value rename")


# ---------------------------------------------------------------- 3. NameFixPass
def build_model():
    x = ir.Value(name="dup", type=ir.TensorType(ir.DataType.FLOAT), shape=ir.Shape([1]))
    w = init("dup")  # initializer duplicating the input name
    w2 = init("v")  # looks like a generated name
    inner_in = ir.Value(name="dup")
    inner_n1 = ir.Node("", "Relu", [inner_in], name="n", outputs=[ir.Value(name=None)])
    inner_n2 = ir.Node("", "Relu", [inner_n1.outputs[0]], name="n", outputs=[ir.Value(name="v")])
    inner_n3 = ir.Node("", "Add", [inner_n2.outputs[0], x], name=None, outputs=[ir.Value(name="")])
    inner = ir.Graph([inner_in], [inner_n3.outputs[0]], nodes=[inner_n1, inner_n2, inner_n3], name="inner")
    n1 = ir.Node("", "Add", [x, w], name="n", outputs=[ir.Value(name="keep_me")])
    n2 = ir.Node("", "If", [n1.outputs[0]], attributes=[ir.AttrGraph("then_branch", inner)],
                 name="n", outputs=[ir.Value(name=None)])
    n3 = ir.Node("", "Mul", [n2.outputs[0], w2], name="", outputs=[ir.Value(name="keep_me")])
    n4 = ir.Node("", "Neg", [n3.outputs[0]], name="node", outputs=[ir.Value(name="v_1")])
    graph = ir.Graph([x], [n4.outputs[0]], nodes=[n1, n2, n3, n4], initializers=[w, w2],
                     name="main", opset_imports={"": 20})
    fx = ir.Value(name="dup")
    f1 = ir.Node("", "Relu", [fx], name=None, outputs=[ir.Value(name="dup")])
    f2 = ir.Node("", "Relu", [f1.outputs[0]], name=None, outputs=[ir.Value(name=None)])
    func = ir.Function("dom", "F", "", graph=ir.Graph([fx], [f2.outputs[0]], nodes=[f1, f2],
                                                       opset_imports={"": 20}), attributes=[])
    return ir.Model(graph, ir_version=10, functions=[func])


def check_scope(graph_like, outer):
    names = {}
    def see(v):
        if v is None or v in names:
            return
        check(v.name, "value without a name after the pass")
        names[v] = v.name
    for v in graph_like.inputs:
        see(v)
    if isinstance(graph_like, ir.Graph):
        for k, v in graph_like.initializers.items():
            check(k == v.name, f"initializer keyed {k!r} but named {v.name!r}")
            see(v)
    node_names = []
    for node in graph_like:
        check(node.name, "node without a name after the pass")
        node_names.append(node.name)
        for v in node.outputs:
            see(v)
    for v in graph_like.outputs:
        see(v)
    own = {v: n for v, n in names.items()}
    check(len(set(own.values())) == len(own), f"duplicate value names in a graph: {sorted(own.values())}")
    check(not (set(own.values()) & outer), "subgraph value name equals an enclosing-scope name")
    check(len(set(node_names)) == len(node_names), f"duplicate node names: {node_names}")
    for node in graph_like:
        for attr in node.attributes.values():
            if attr.type == ir.AttributeType.GRAPH:
                check_scope(attr.as_graph(), outer | set(own.values()))


def structure(model):
    out = []
    for gl in [model.graph, *model.functions.values()]:
        for node in ir.traversal.RecursiveGraphIterator(gl):
            out.append((node.op_type, len(node.inputs), len(node.outputs),
                        tuple(id(v) for v in node.inputs), tuple(id(v) for v in node.outputs)))
    return out


for gen in (None, "custom"):
    class Gen:
        def generate_node_name(self, node):
            return "n"  # always clashes

        def generate_value_name(self, value):
            return "keep_me"  # clashes with a name that is unique later on

    model = build_model()
    before = structure(model)
    first_keep = model.graph[0].outputs[0]
    result = NameFixPass(Gen() if gen else None)(model)
    check(result.modified, "pass reported no modification")
    check(structure(model) == before, "something other than names changed")
    check_scope(model.graph, set())
    for f in model.functions.values():
        check_scope(f, set())
    check(first_keep.name == "keep_me", "first holder of a name lost it")
    check(model.graph[0].name == "n", "first holder of a node name lost it")
    check(model.graph[3].name == "node" and model.graph[3].outputs[0].name == "v_1", "unique names not kept")
    check(model.graph.initializers["v"].name == "v", "unique initializer name not kept")
    again = NameFixPass()(model)
    check(not again.modified, "second run of the pass modified an already fixed model")

# empty model
empty = ir.Model(ir.Graph([], [], nodes=[], name="e"), ir_version=10)
check(not NameFixPass()(empty).modified, "empty graph reported modified")

# ---------------------------------------------------------------- 4. rename_values
p, q, r = init("p"), init("q"), init("r")
plain = ir.Value(name="plain")
g3 = ir.Graph([plain], [], nodes=[], initializers=[p, q, r], name="g3")
ir.convenience.rename_values([p, q], ["q", "p"])  # swap
check(g3.initializers["q"] is p and g3.initializers["p"] is q, "swap")
ir.convenience.rename_values([p, q, r, plain], ["p", "r", "q", "z"])  # cycle + plain
check({k: v for k, v in g3.initializers.items()} == {"p": p, "r": q, "q": r}, "cycle")
check(all(k == v.name == v.const_value.name for k, v in g3.initializers.items()), "keys/tensors")
snap = ([v.name for v in (p, q, r, plain)], dict(g3.initializers))
for vals, names, exc in (
    ([p, plain], ["r", "w"], ValueError),  # target held by an initializer outside the set
    ([p, q], ["same", "same"], ValueError),
    ([plain, p], ["w", ""], ValueError),
    ([plain, p, p], ["w", "a", "b"], ValueError),
    ([plain, p], ["w"], ValueError),
    ([plain, p], ["w", 3], TypeError),
):
    try:
        ir.convenience.rename_values(vals, names)
    except exc:
        pass
    else:
        raise SystemExit(f"FAIL: rename_values accepted {names}")
    check(snap == ([v.name for v in (p, q, r, plain)], dict(g3.initializers)), f"partial rename after refusal {names}")
ir.convenience.rename_values([], [])

print("OK")
