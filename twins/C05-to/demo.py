"""Demo for C05 (passes preserve what the model computes) in the area of InlinePass.

Exercises: nested functions, attribute parameters with defaults, several calls to
the same function, a call that omits a trailing optional input, calls inside
If-subgraphs (also an If with two branch graphs nested in a function that is kept
by the criteria), the id_count bookkeeping, and three rejected calls.
"""

import numpy as np
import onnx
import onnx.reference

import onnx_ir as ir
from onnx_ir.passes.common import InlinePass

MODEL_TEXT = """
<ir_version: 8, opset_import: ["" : 17, "local" : 1]>
main (float[4] x, float[4] y, bool c) => (float[4] out0, float[4] out1, float[4] out2) {
    a = local.scale_add <alpha = 3.0> (x, y)
    b = local.scale_add (y, x)
    lo = Constant <value = float {-1.0}> ()
    hi = Constant <value = float {2.0}> ()
    out0 = local.clip3 (a, lo, hi)
    out1 = local.clip3 (b, lo)
    out2 = If (c) <
        then_branch = then_g () => (float[4] t) {
            t0 = local.twice (a)
            t = local.twice (t0)
        },
        else_branch = else_g () => (float[4] e) {
            e = local.scale_add <alpha = 0.5> (b, x)
        }
    >
}
<domain: "local", opset_import: ["" : 17]>
scale_add <alpha: float = 2.0> (p, q) => (r) {
    k = Constant <value_float: float = @alpha> ()
    pk = Mul (p, k)
    r = Add (pk, q)
}
<domain: "local", opset_import: ["" : 17, "local" : 1]>
twice (p) => (r) {
    r = local.scale_add (p, p)
}
<domain: "local", opset_import: ["" : 17]>
clip3 (v, vmin, vmax) => (r) {
    r = Clip (v, vmin, vmax)
}
"""


def build() -> ir.Model:
    return ir.from_onnx_text(MODEL_TEXT)


def run(model: ir.Model, feeds):
    proto = ir.to_proto(model)
    onnx.checker.check_model(proto)
    return onnx.reference.ReferenceEvaluator(proto).run(None, feeds)


def reference(feeds):
    """What the model computes, written out by hand (float32 arithmetic).

    (The reference evaluator cannot run the un-inlined model because it does not
    apply default values of function attribute parameters.)
    """
    x, y, c = feeds["x"], feeds["y"], feeds["c"]
    f = np.float32
    a = x * f(3.0) + y
    b = y * f(2.0) + x
    out0 = np.clip(a, f(-1.0), f(2.0))
    out1 = np.maximum(b, f(-1.0))
    if c:
        t0 = a * f(2.0) + a
        out2 = t0 * f(2.0) + t0
    else:
        out2 = b * f(0.5) + x
    return [out0, out1, out2]


def signature(model: ir.Model):
    init = set(model.graph.initializers)
    return (
        [i.name for i in model.graph.inputs if i.name not in init],
        [o.name for o in model.graph.outputs],
    )


def check_same(before, after):
    assert len(before) == len(after)
    for b, a in zip(before, after):
        np.testing.assert_allclose(b, a, rtol=0, atol=0)


def all_ops(model: ir.Model):
    return [n.op_identifier() for n in ir.traversal.RecursiveGraphIterator(model.graph)]


def main():
    rng = np.random.default_rng(0)
    feeds_list = []
    for c in (True, False):
        feeds_list.append(
            {
                "x": rng.normal(size=4).astype(np.float32) * 3,
                "y": rng.normal(size=4).astype(np.float32) * 3,
                "c": np.array(c),
            }
        )

    # ---- 1. inline everything -------------------------------------------------
    model = build()
    sig = signature(model)
    onnx.checker.check_model(ir.to_proto(model))
    expected = [reference(f) for f in feeds_list]
    result = InlinePass()(model)
    assert result.modified is True
    assert result.model is model
    assert signature(model) == sig
    assert len(model.functions) == 0
    assert all(op[0] == "" for op in all_ops(model)), all_ops(model)
    for f, e in zip(feeds_list, expected):
        check_same(e, run(model, f))
    # Bookkeeping: calls counted in the main graph only (not in subgraphs)
    assert result.id_count[("local", "scale_add", "")] == 2
    assert result.id_count[("local", "clip3", "")] == 2
    # the omitted trailing input of clip3 became a missing input of Clip
    clips = [n for n in model.graph if n.op_type == "Clip"]
    assert len(clips) == 2
    assert sorted(len([i for i in n.inputs if i is not None]) for n in clips) == [2, 3]
    # all value and node names in the main graph are unique
    names = [o.name for n in model.graph for o in n.outputs]
    assert len(names) == len(set(names))
    node_names = [n.name for n in model.graph if n.name]
    assert len(node_names) == len(set(node_names))

    # second application: nothing to do (empty function table)
    result2 = InlinePass()(model)
    assert result2.modified is False
    assert result2.id_count == {}
    for f, e in zip(feeds_list, expected):
        check_same(e, run(model, f))

    # ---- 2. criteria keeps `twice`; its body call to scale_add is still inlined
    model = build()
    result = InlinePass(criteria=lambda fn: fn.name != "twice")(model)
    assert result.modified is True
    assert set(model.functions) == {("local", "twice", "")}
    twice = model.functions[("local", "twice", "")]
    assert [n.op_type for n in twice] == ["Constant", "Mul", "Add"]
    assert signature(model) == sig
    for f, e in zip(feeds_list, expected):
        check_same(e, run(model, f))

    # ---- 3. composed with other passes ----------------------------------------
    model = build()
    passes = ir.passes.Sequential(
        InlinePass(),
        ir.passes.common.LiftConstantsToInitializersPass(),
        ir.passes.common.CommonSubexpressionEliminationPass(),
        ir.passes.common.RemoveUnusedNodesPass(),
        ir.passes.common.NameFixPass(),
    )
    passes(model)
    assert signature(model) == sig
    for f, e in zip(feeds_list, expected):
        check_same(e, run(model, f))

    # ---- 4. model without functions / empty graph: untouched -------------------
    empty = ir.from_onnx_text(
        '<ir_version: 8, opset_import: ["" : 17]> g (float[2] x) => (float[2] x) {}'
    )
    r = InlinePass()(empty)
    assert r.modified is False and r.id_count == {}
    assert [o.name for o in empty.graph.outputs] == ["x"]

    # ---- 5. rejected calls -----------------------------------------------------
    # (a) more actual inputs than formal inputs
    bad = ir.from_onnx_text(
        """
        <ir_version: 8, opset_import: ["" : 17, "local" : 1]>
        main (float[2] x) => (float[2] z) { z = local.neg1 (x, x) }
        <domain: "local", opset_import: ["" : 17]>
        neg1 (p) => (r) { r = Neg (p) }
        """
    )
    try:
        InlinePass()(bad)
    except ValueError as e:
        assert "Input mismatch" in str(e), e
    else:
        raise AssertionError("expected ValueError")
    assert [n.op_type for n in bad.graph] == ["neg1"]
    assert len(bad.functions) == 1

    # (b) opset mismatch between function and model
    bad = ir.from_onnx_text(
        """
        <ir_version: 8, opset_import: ["" : 17, "local" : 1]>
        main (float[2] x) => (float[2] z) { z = local.neg1 (x) }
        <domain: "local", opset_import: ["" : 18]>
        neg1 (p) => (r) { r = Neg (p) }
        """
    )
    try:
        InlinePass()(bad)
    except ValueError as e:
        assert "Opset mismatch" in str(e), e
    else:
        raise AssertionError("expected ValueError")

    # (c) cyclic functions are refused by the precondition
    bad = ir.from_onnx_text(
        """
        <ir_version: 8, opset_import: ["" : 17, "local" : 1]>
        main (float[2] x) => (float[2] z) { z = local.f (x) }
        <domain: "local", opset_import: ["" : 17, "local" : 1]>
        f (p) => (r) { r = local.g (p) }
        <domain: "local", opset_import: ["" : 17, "local" : 1]>
        g (p) => (r) { r = local.f (p) }
        """
    )
    try:
        InlinePass()(bad)
    except ir.passes.PreconditionError as e:
        assert "Cyclic dependency" in str(e), e
    else:
        raise AssertionError("expected PreconditionError")
    assert len(bad.functions) == 2

    print("OK")


if __name__ == "__main__":
    main()
