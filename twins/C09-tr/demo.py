"""Demo for C09: concurrent external-data writing is schedule-independent, bounded and live.

Exercises the single-file driver (staging file + atomic replace), the byte layout
and the shard driver through the public API only.  Exits 0 when everything holds.
"""

from __future__ import annotations

import itertools
import logging
import os
import sys
import tempfile
import threading
import time

import numpy as np

import onnx_ir as ir
from onnx_ir import external_data as ed


class Probe:
    """Global observations shared by all ProbeTensors of one run."""

    def __init__(self) -> None:
        self.lock = threading.Lock()
        self.live = 0
        self.peak = 0
        self.calls = 0
        self.active_per_object: dict[int, int] = {}
        self.overlap = False
        self.active_total = 0


class ProbeTensor(ir.Tensor):
    """An in-memory tensor that records when its bytes are being materialised."""

    probe: Probe | None = None
    fail = False

    def tofile(self, file) -> None:  # type: ignore[override]
        probe = self.probe
        assert probe is not None
        with probe.lock:
            probe.calls += 1
            probe.live += self.nbytes
            probe.peak = max(probe.peak, probe.live)
            probe.active_total += 1
            n = probe.active_per_object.get(id(self), 0) + 1
            probe.active_per_object[id(self)] = n
            if n > 1:
                probe.overlap = True
        try:
            time.sleep(0.001)
            if self.fail:
                raise RuntimeError("boom while materialising " + str(self.name))
            super().tofile(file)
        finally:
            with probe.lock:
                probe.live -= self.nbytes
                probe.active_total -= 1
                probe.active_per_object[id(self)] -= 1


SIZES = [700, 16, 300, 0, 900, 64, 5000, 1, 257, 1200]  # in bytes (uint8 elements)


def make_tensors(probe: Probe, fail_at: int | None = None) -> list[ProbeTensor]:
    tensors = []
    for i, size in enumerate(SIZES):
        data = (np.arange(size, dtype=np.int64) * (i + 3) % 251).astype(np.uint8)
        t = ProbeTensor(data, name=f"t{i}")
        t.probe = probe
        t.fail = fail_at == i
        tensors.append(t)
    # duplicates: one tensor object used at three positions
    tensors.insert(4, tensors[0])
    tensors.append(tensors[0])
    return tensors


def make_model(tensors) -> ir.Model:
    graph = ir.Graph([], [], nodes=[], name="g")
    for i, t in enumerate(tensors):
        v = ir.Value(name=f"w{i}", const_value=t, shape=t.shape, type=ir.TensorType(t.dtype))
        graph.register_initializer(v)
    return ir.Model(graph, ir_version=10)


def read_files(directory: str) -> dict[str, bytes]:
    out = {}
    for name in sorted(os.listdir(directory)):
        full = os.path.join(directory, name)
        assert os.path.isfile(full), f"left-over directory {name!r} in {directory}"
        if name.endswith(".onnx"):
            continue
        with open(full, "rb") as f:
            out[name] = f.read()
    return out


class CallbackLog:
    def __init__(self) -> None:
        self.infos = []
        self.busy = threading.Lock()
        self.concurrent = False

    def __call__(self, tensor, info) -> None:
        if not self.busy.acquire(blocking=False):
            self.concurrent = True
            self.busy.acquire()
        try:
            time.sleep(0.0005)
            self.infos.append((tensor.name, info))
        finally:
            self.busy.release()


def save_once(workers, budget, shard, alignment):
    probe = Probe()
    tensors = make_tensors(probe)
    model = make_model(tensors)
    log = CallbackLog()
    with tempfile.TemporaryDirectory() as d:
        ir.save(
            model,
            os.path.join(d, "m.onnx"),
            external_data="m.data",
            size_threshold_bytes=0,
            max_shard_size_bytes=shard,
            callback=log,
            max_workers=workers,
            max_in_flight_bytes=budget,
            alignment=alignment,
            align_threshold=256,
        )
        files = read_files(d)
        loaded = ir.load(os.path.join(d, "m.onnx"))
        values = {k: v.const_value.numpy().copy() for k, v in loaded.graph.initializers.items()}
    # model restored
    for i, t in enumerate(tensors):
        assert model.graph.initializers[f"w{i}"].const_value is t
    return probe, tensors, log, files, values


def check_combinations() -> None:
    for shard, alignment in itertools.product([None, 2000, 100], [None, 4096]):
        ref_probe, tensors, ref_log, ref_files, ref_values = save_once(None, 1 << 30, shard, alignment)
        written = [t for t in tensors if t.nbytes > 0]
        assert ref_probe.calls == len(written)
        assert len(ref_log.infos) == len(written)
        # serial: callbacks in index order
        assert [info.index for _, info in ref_log.infos] == list(range(len(written)))
        for i, t in enumerate(tensors):
            if t.nbytes > 0:
                np.testing.assert_array_equal(ref_values[f"w{i}"], t.numpy())
        if shard is None:
            assert list(ref_files) == ["m.data"]
            if alignment is None:
                assert len(ref_files["m.data"]) == sum(t.nbytes for t in written)
                assert ref_files["m.data"] == b"".join(t.tobytes() for t in written)
        for workers, budget in itertools.product([1, 2, 3, 8], [1, 600, 1 << 30]):
            probe, tensors2, log, files, values = save_once(workers, budget, shard, alignment)
            key = (shard, alignment, workers, budget)
            assert files == ref_files, key
            assert probe.calls == len(written), key
            assert not probe.overlap, key
            assert probe.live == 0 and probe.active_total == 0, key
            assert not log.concurrent, key
            assert sorted(info.index for _, info in log.infos) == list(range(len(written))), key
            assert all(info.total == len(written) for _, info in log.infos), key
            by_index = {info.index: (name, info) for name, info in ref_log.infos}
            for name, info in log.infos:
                rname, rinfo = by_index[info.index]
                assert name == rname and info == rinfo, key
            assert probe.peak <= budget + max(SIZES), (key, probe.peak)


def check_failure() -> None:
    for workers, shard in itertools.product([None, 2, 6], [None, 2000]):
        probe = Probe()
        tensors = make_tensors(probe, fail_at=6)
        model = make_model(tensors)
        with tempfile.TemporaryDirectory() as d:
            with open(os.path.join(d, "m.data"), "wb") as f:
                f.write(b"previous")
            try:
                ir.save(
                    model,
                    os.path.join(d, "m.onnx"),
                    external_data="m.data",
                    size_threshold_bytes=0,
                    max_shard_size_bytes=shard,
                    max_workers=workers,
                    max_in_flight_bytes=600,
                )
            except RuntimeError as e:
                assert "boom" in str(e)
            else:
                raise AssertionError("failure swallowed")
            # every worker has stopped when the exception arrives
            with probe.lock:
                assert probe.active_total == 0 and probe.live == 0
                calls = probe.calls
            time.sleep(0.05)
            assert probe.calls == calls
            names = sorted(os.listdir(d))
            # no staging directory left, the old destination is untouched
            assert all(os.path.isfile(os.path.join(d, n)) for n in names), names
            assert not any(n.startswith(".") for n in names), names
            with open(os.path.join(d, "m.data"), "rb") as f:
                assert f.read() == b"previous"
            assert "m.onnx" not in names
        for i, t in enumerate(tensors):
            assert model.graph.initializers[f"w{i}"].const_value is t


def expect(exc_type, fn) -> None:
    try:
        fn()
    except exc_type:
        return
    raise AssertionError(f"{exc_type.__name__} not raised")


def check_unusual() -> None:
    probe = Probe()
    with tempfile.TemporaryDirectory() as d:
        # empty input: an empty file, no tensors, no left-overs
        for workers in (None, 4):
            assert ed.convert_tensors_to_external([], d, "empty.data", max_workers=workers) == []
            assert read_files(d) == {"empty.data": b""}
        os.remove(os.path.join(d, "empty.data"))

        # rejected calls leave nothing behind
        tensors = make_tensors(probe)
        for kwargs in (
            {"max_workers": 0},
            {"max_in_flight_bytes": 0},
            {"alignment": 0},
            {"align_threshold": -1},
        ):
            expect(ValueError, lambda kw=kwargs: ed.convert_tensors_to_external(tensors, d, "x.data", **kw))
        expect(ValueError, lambda: ed.convert_tensors_to_external(tensors, d, "", max_workers=3))
        expect(ValueError, lambda: ed.convert_tensors_to_external(tensors, d, "sub/", max_workers=3))
        expect(
            FileNotFoundError,
            lambda: ed.convert_tensors_to_external(tensors, d, "missing/x.data", max_workers=3),
        )
        assert os.listdir(d) == [] and probe.calls == 0

        # layout: dense, in input order, duplicates get their own range; zero-byte tensors too
        ext = ed.convert_tensors_to_external(tensors, d, "x.data", max_workers=4, max_in_flight_bytes=10)
        offsets = [0]
        for t in tensors:
            offsets.append(offsets[-1] + t.nbytes)
        assert [e.offset for e in ext] == offsets[:-1]
        assert [e.length for e in ext] == [t.nbytes for t in tensors]
        assert [e.name for e in ext] == [t.name for t in tensors]
        assert all(e.location == "x.data" for e in ext)
        assert not probe.overlap
        assert probe.peak <= 10 + max(SIZES)
        assert read_files(d) == {"x.data": b"".join(t.tobytes() for t in tensors)}

        # aligned layout: large tensors start on multiples of 4096, holes read back as zeros
        ext_a = ed.convert_tensors_to_external(
            tensors, d, "a.data", max_workers=3, alignment=1, align_threshold=299
        )
        pos = 0
        for t, e in zip(tensors, ext_a):
            if t.nbytes > 299:
                pos = (pos + 4095) // 4096 * 4096
            assert e.offset == pos, (t.name, e.offset, pos)
            pos += t.nbytes
        serial_dir = os.path.join(d, "serial")
        os.mkdir(serial_dir)
        ed.convert_tensors_to_external(tensors, serial_dir, "a.data", alignment=1, align_threshold=299)
        with open(os.path.join(serial_dir, "a.data"), "rb") as f1, open(os.path.join(d, "a.data"), "rb") as f2:
            assert f1.read() == f2.read()
        os.remove(os.path.join(serial_dir, "a.data"))
        os.rmdir(serial_dir)

        # nesting: re-saving onto the file that backs the inputs (they stream into the
        # staging file and are invalidated afterwards); file mode is kept
        os.chmod(os.path.join(d, "x.data"), 0o640)
        before = read_files(d)["x.data"]
        ext2 = ed.convert_tensors_to_external(list(reversed(ext)), d, "x.data", max_workers=4, max_in_flight_bytes=7)
        expected = b"".join(t.tobytes() for t in reversed(tensors))
        assert len(before) == len(expected)
        assert read_files(d)["x.data"] == expected
        assert os.stat(os.path.join(d, "x.data")).st_mode & 0o777 == 0o640
        nonempty_old = [e for e in ext if e.nbytes > 0]
        for e in nonempty_old:
            expect(Exception, e.numpy)  # invalidated
        for e, t in zip(ext2, reversed(tensors)):
            np.testing.assert_array_equal(e.numpy(), t.numpy())
            e.release()
        assert sorted(os.listdir(d)) == ["a.data", "x.data"]

        # sharded writes refuse an existing shard and create nothing
        for n in range(1, 20):
            open(os.path.join(d, f"s-00001-of-{n:05d}.data"), "wb").close()
        listing = sorted(os.listdir(d))
        calls = probe.calls
        for workers in (None, 4):
            model = make_model(tensors)
            expect(
                FileExistsError,
                lambda: ed.unload_from_model(
                    model, d, "s.data", max_shard_size_bytes=2000, max_workers=workers
                ),
            )
            assert sorted(os.listdir(d)) == listing and probe.calls == calls
            for i, t in enumerate(tensors):
                assert model.graph.initializers[f"w{i}"].const_value is t


def main() -> int:
    logging.disable(logging.WARNING)
    check_combinations()
    check_failure()
    check_unusual()
    print("C09 demo OK")
    return 0


if __name__ == "__main__":
    sys.exit(main())
