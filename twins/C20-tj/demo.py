"""Demo for C20: journaling observes without interfering and restores the classes."""

import gc
import sys
import weakref

import onnx_ir as ir
from onnx_ir import _core, _graph_containers
from onnx_ir.journaling import Journal, get_current_journal

WATCHED = [
    (_core.TensorBase, "__init__"), (_core.Node, "__init__"), (_core.Node, "resize_inputs"),
    (_core.Node, "prepend"), (_core.Node, "append"), (_core.Node, "resize_outputs"),
    (_core.Value, "__init__"), (_core.Value, "replace_all_uses_with"),
    (_core.Value, "merge_shapes"), (_core.Graph, "__init__"),
    (_core.Graph, "register_initializer"), (_core.Graph, "append"), (_core.Graph, "extend"),
    (_core.Graph, "remove"), (_core.Graph, "insert_after"), (_core.Graph, "insert_before"),
    (_core.Graph, "sort"), (_core.Model, "__init__"), (_core.Function, "__init__"),
    (_core.Attr, "__init__"),
    (_graph_containers._GraphIO, "append"), (_graph_containers._GraphIO, "extend"),
    (_graph_containers._GraphIO, "insert"), (_graph_containers._GraphIO, "pop"),
    (_graph_containers._GraphIO, "remove"), (_graph_containers._GraphIO, "clear"),
    (_graph_containers._GraphIO, "__setitem__"),
    (_graph_containers.GraphInitializers, "__setitem__"),
    (_graph_containers.GraphInitializers, "__delitem__"),
    (_graph_containers.Attributes, "__setitem__"),
]
PROPS = [
    (_core.Node, n) for n in ("name", "domain", "version", "op_type", "overload", "graph")
] + [(_core.Value, n) for n in ("name", "type", "shape", "const_value")] + [
    (_core.Function, n) for n in ("name", "domain", "overload")
]


def class_snapshot():
    snap = [cls.__dict__[name] for cls, name in WATCHED]
    for cls, name in PROPS:
        p = cls.__dict__[name]
        snap.extend([p.fget, p.fset, p.fdel])
    return snap


def same(a, b):
    return len(a) == len(b) and all(x is y for x, y in zip(a, b))


def scenario():
    """A sequence of IR operations; returns a trace of return values / exceptions / state."""
    trace = []
    x = ir.Value(name="x", type=ir.TensorType(ir.DataType.FLOAT), shape=ir.Shape([1, 2]))
    y = ir.Value(name="y")
    n1 = ir.Node("", "Add", [x, y], name="n1")
    n2 = ir.Node("", "Relu", [n1.outputs[0]], name="n2")
    g = ir.Graph([x, y], [n2.outputs[0]], nodes=[n1, n2], name="g")
    n3 = ir.Node("", "Neg", [x], name="n3")
    trace.append(("append", g.append(n3)))
    # rejected call: n3 already belongs to g -> appending it to another graph fails
    g2 = ir.Graph([], [], nodes=[], name="g2")
    try:
        g2.append(n3)
        trace.append(("g2.append", "ok"))
    except Exception as e:  # noqa: BLE001
        trace.append(("g2.append", type(e).__name__, str(e)))
    # rejected setter
    try:
        n1.version = "not an int or None" if False else n1.version
        n1.name = "n1_renamed"
        n1.domain = "custom"
        n1.overload = "ov"
    except Exception as e:  # noqa: BLE001
        trace.append(("setters", type(e).__name__))
    # unsafe remove of a used node with safe=True is rejected
    try:
        g.remove(n1, safe=True)
        trace.append(("remove safe", "ok"))
    except Exception as e:  # noqa: BLE001
        trace.append(("remove safe", type(e).__name__, str(e)))
    # empty input and duplicates
    trace.append(("extend empty", g.extend([])))
    trace.append(("remove n3", g.remove([n3, n3][:1])))
    # container ops recorded on the owning graph
    z = ir.Value(name="z")
    g.inputs.append(z)
    trace.append(("pop", g.inputs.pop().name))
    try:
        g.inputs.remove(z)
    except Exception as e:  # noqa: BLE001
        trace.append(("inputs.remove", type(e).__name__))
    g.inputs.insert(0, z)
    g.inputs[0] = z
    g.inputs.extend([])
    w = ir.Value(name="w", const_value=ir.tensor([1.0, 2.0], name="w"))
    g.initializers["w"] = w
    try:
        g.initializers["other_key"] = w
    except Exception as e:  # noqa: BLE001
        trace.append(("init setitem", type(e).__name__, str(e)))
    del g.initializers["w"]
    try:
        del g.initializers["w"]
    except Exception as e:  # noqa: BLE001
        trace.append(("init delitem", type(e).__name__))
    n2.attributes["alpha"] = ir.AttrFloat32("alpha", 0.5)
    n2.resize_outputs(2)
    n2.resize_inputs(2)
    x.shape = ir.Shape([1, 2])
    x.merge_shapes(ir.Shape([1, 2]))
    trace.append(("rauw", y.replace_all_uses_with(x)))
    trace.append(("sort", g.sort()))
    trace.append(("final", str(g)))
    return trace, g


def ops(entries):
    return [(e.operation, e.class_name, e.details) for e in entries]


def main():
    base = class_snapshot()
    plain_trace, _ = scenario()

    # 1. one journal: same trace, classes restored
    with Journal() as j1:
        assert get_current_journal() is j1
        t1, g1 = scenario()
        inside = class_snapshot()
    assert get_current_journal() is None
    assert t1 == plain_trace, "journal changed results"
    assert same(class_snapshot(), base), "classes not restored"
    assert not same(inside, base)
    assert len(j1.entries) > 30
    # container entries are recorded on the owner, method entries on self
    by_op = {}
    for e in j1.entries:
        by_op.setdefault(e.operation, []).append(e)
    assert all(e.class_name == "Graph" for e in by_op["append_io"] + by_op["pop_io"])
    assert all(e.class_name == "Graph" for e in by_op["set_initializer"])
    assert all(e.class_name == "Node" for e in by_op["set_attribute"])
    assert all(e.class_name == "Value" for e in by_op["replace_all_uses_with"])
    assert {e.class_name for e in by_op["append"]} == {"Graph"}
    # rejected calls were recorded before the original method rejected them
    assert len(by_op["append"]) == 2 and len(by_op["remove"]) == 2
    assert len(by_op["delete_initializer"]) == 2 and len(by_op["set_initializer"]) == 2
    # the stack trace ends in user code (this file), not in the wrappers
    direct = ("sort", "replace_all_uses_with", "merge_shapes", "pop_io", "set_attribute",
              "delete_initializer", "resize_outputs", "set_domain")
    for e in j1.entries:
        if e.operation in direct:
            assert e.stack_trace[-1].filename == __file__, (e.operation, e.stack_trace[-1])
    # program order of one instrumented operation sequence
    seq = [e.operation for e in j1.entries if e.operation in ("sort", "replace_all_uses_with", "merge_shapes")]
    assert seq == ["merge_shapes", "replace_all_uses_with", "sort"], seq

    # 2. nesting depth 3: every level sees the same operations, in the same order
    with Journal() as a:
        with Journal() as b:
            with Journal() as c:
                t3, _ = scenario()
            assert get_current_journal() is b
        assert get_current_journal() is a
    assert t3 == plain_trace
    assert same(class_snapshot(), base)
    assert ops(a.entries) == ops(b.entries) == ops(c.entries)
    # (details of a separate run differ only by the ids in made-up names)
    assert [o[:2] for o in ops(a.entries)] == [o[:2] for o in ops(j1.entries)]
    # all three levels recorded on the very same objects
    assert [e.object_id for e in a.entries] == [e.object_id for e in c.entries]

    # 3. exception out of nested journals restores everything
    class Boom(Exception):
        pass

    try:
        with Journal() as outer:
            v = ir.Value(name="v")
            with Journal() as inner:
                v.name = "v2"
                raise Boom
    except Boom:
        pass
    assert get_current_journal() is None
    assert same(class_snapshot(), base)
    assert [e.operation for e in inner.entries] == ["set_name"]
    assert [e.operation for e in outer.entries] == ["init", "set_name"]
    v.name = "v3"  # no longer recorded
    assert len(outer.entries) == 2

    # 4. entries keep no strong reference
    with Journal() as j4:
        _, g4 = scenario()
    r = weakref.ref(g4)
    del g4, _
    gc.collect()
    assert r() is None, "journal keeps the graph alive"
    assert any(e.ref is not None and e.ref() is None for e in j4.entries)

    # 5. leaving a journal that was never entered is rejected and changes nothing
    try:
        Journal().__exit__(None, None, None)
    except (KeyError, IndexError):
        # (KeyError before fix 2353e9a of the library, IndexError since: leaving a journal that was never entered is misuse either way)
        pass
    else:
        raise AssertionError("expected an error")
    assert same(class_snapshot(), base)
    assert scenario()[0] == plain_trace
    print("OK", len(j1.entries), "entries")


if __name__ == "__main__":
    main()
    sys.exit(0)
