"""Demo for C15: names generated when nodes are added to a graph never collide.

Exercises Graph.__init__ / append / extend / insert_before / insert_after / remove
and the name-fixing pass through the public API only.
"""

import onnx_ir as ir
from onnx_ir.passes.common import naming


def node(op="Relu", inputs=(), name=None, out_name=None, n_out=1):
    n = ir.Node("", op, inputs=list(inputs), num_outputs=n_out, name=name)
    if out_name is not None:
        n.outputs[0].name = out_name
    return n


def all_names(graph):
    return [n.name for n in graph], [v.name for n in graph for v in n.outputs]


def check_unique(graph, history_nodes, history_values):
    node_names, value_names = all_names(graph)
    assert all(node_names) and all(value_names)
    assert len(set(node_names)) == len(node_names), node_names
    assert len(set(value_names)) == len(value_names), value_names
    history_nodes.update(node_names)
    history_values.update(value_names)


def main():
    x = ir.Value(name="val_0")  # explicit name shaped like a generated one
    unnamed_input = ir.Value()
    init = ir.Value(name="val_2", const_value=ir.tensor([1.0], name="val_2"))
    first = node(inputs=[x], name="node_Relu_0")  # explicit, shaped like a generated name
    second = node(inputs=[first.outputs[0]])
    graph = ir.Graph(
        [x, unnamed_input],
        [],
        nodes=iter([first, second]),  # one-shot iterable
        initializers=[init],
        name="g",
    )
    # Explicit names untouched, generated ones avoid all registered names
    assert x.name == "val_0" and init.name == "val_2" and first.name == "node_Relu_0"
    assert unnamed_input.name == "val_1", unnamed_input.name
    assert first.outputs[0].name == "val_3", first.outputs[0].name
    assert second.name == "node_Relu_1", second.name
    assert second.outputs[0].name == "val_4"
    assert list(graph) == [first, second]
    assert first.graph is graph and second.graph is graph

    seen_nodes, seen_values = set(), {"val_0", "val_1", "val_2"}
    check_unique(graph, seen_nodes, seen_values)

    # Empty inputs: nothing happens
    graph.extend([])
    graph.extend(iter(()))
    graph.insert_after(second, [])
    graph.insert_before(first, ())
    assert list(graph) == [first, second]

    # Explicit names that look like the next generated ones are kept; generation skips them
    squat = node(name="node_Relu_2", out_name="val_5")
    fresh = node(n_out=2)
    graph.extend(n for n in (squat, fresh))
    assert squat.name == "node_Relu_2" and squat.outputs[0].name == "val_5"
    assert fresh.name == "node_Relu_3", fresh.name
    assert [v.name for v in fresh.outputs] == ["val_6", "val_7"]
    check_unique(graph, seen_nodes, seen_values)

    # Rejected extend: a node of another graph in the batch -> nothing adopted, nothing named,
    # no counter consumed
    other_node = node(name="foreign")
    other = ir.Graph([], [], nodes=[other_node], name="other")
    candidate = node("Add")
    try:
        graph.extend([candidate, other_node])
    except ValueError as e:
        assert "belongs to another graph" in str(e)
    else:
        raise AssertionError("extend must reject a node of another graph")
    assert candidate.graph is None and candidate.name is None
    assert candidate.outputs[0].name is None
    assert other_node.graph is other
    assert len(graph) == 4

    # Rejected inserts: bad anchor (checked first), then foreign node in the batch
    for insert in (graph.insert_after, graph.insert_before):
        try:
            insert(other_node, [candidate])
        except ValueError as e:
            assert "does not belong to this graph" in str(e)
        else:
            raise AssertionError
        try:
            insert(first, iter([candidate, other_node]))
        except ValueError as e:
            assert "belongs to another graph" in str(e)
        else:
            raise AssertionError
        assert candidate.graph is None and candidate.name is None
        assert candidate.outputs[0].name is None
        assert len(graph) == 4
    try:
        graph.append(other_node)
    except ValueError:
        pass
    else:
        raise AssertionError

    # The rejected calls consumed no counter: next names continue the sequence
    graph.insert_before(first, candidate)  # single node form
    assert candidate.name == "node_Add_4", candidate.name
    assert candidate.outputs[0].name == "val_8", candidate.outputs[0].name
    a, b = node("Mul"), node("Mul", name="node_Mul_5")
    graph.insert_after(candidate, [a, b])
    assert a.name == "node_Mul_5" and b.name == "node_Mul_5"  # explicit names never altered
    assert [n for n in graph][:4] == [candidate, a, b, first]
    assert a.outputs[0].name == "val_9" and b.outputs[0].name == "val_10"

    # remove / re-add history: names stay, removed names are never generated again
    graph.remove([a, fresh])
    assert a.graph is None and a.name == "node_Mul_5"
    graph.append(a)  # re-add keeps its names
    assert a.name == "node_Mul_5" and a.outputs[0].name == "val_9"
    later = node("Mul")
    graph.append(later)
    assert later.name == "node_Mul_6", later.name
    assert later.outputs[0].name == "val_11"
    assert later.name not in seen_nodes and later.outputs[0].name not in seen_values
    assert "val_6" not in {v.name for n in graph for v in n.outputs}

    # Re-extending with nodes already in the graph is allowed by the check (same graph) and
    # does not rename
    before = all_names(graph)
    graph.extend([later])
    assert all_names(graph) == before

    # Name fixing: duplicates (a / b node names) and nesting are repaired, unique names kept
    inner_in = ir.Value(name="val_0")  # shadows the outer input name
    inner_node = node(inputs=[inner_in], name="node_Mul_5")
    inner_node.outputs[0].name = None
    inner = ir.Graph([inner_in], [inner_node.outputs[0]], nodes=[inner_node], name="inner")
    holder = ir.Node("", "If", inputs=[x], attributes=[ir.AttrGraph("then_branch", inner)])
    graph.append(holder)
    graph.outputs.append(holder.outputs[0])
    model = ir.Model(graph, ir_version=10)
    kept = {n: n.name for n in graph if n is not a}  # a was re-added after b
    result = naming.NameFixPass()(model)
    assert result.modified
    top_nodes = [n.name for n in graph]
    assert len(set(top_nodes)) == len(top_nodes), top_nodes
    assert b.name == "node_Mul_5" and a.name != "node_Mul_5"
    for n, name in kept.items():
        assert n.name == name
    outer_values = {v.name for v in graph.inputs} | {v.name for n in graph for v in n.outputs}
    outer_values |= set(graph.initializers)
    inner_values = [inner_in.name, inner_node.outputs[0].name]
    assert len(set(inner_values)) == 2 and not (set(inner_values) & outer_values), inner_values
    assert x.name == "val_0"
    for key, v in graph.initializers.items():
        assert key == v.name
    assert not naming.NameFixPass()(model).modified

    print("OK")


if __name__ == "__main__":
    main()
