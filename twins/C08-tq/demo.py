"""C08 demo: an interrupted single-file external-data save never damages an existing data file.

Exercises destination resolution (symlink, rejected paths), detection of the external
tensors backed by the destination (direct path, symlink, hard link, duplicates, missing
file) and their invalidation only after the file was actually replaced.
"""

from __future__ import annotations

import logging
import os
import stat
import sys
import tempfile
from unittest import mock

import numpy as np

import onnx_ir as ir
from onnx_ir import external_data as ed

logging.getLogger("onnx_ir").setLevel(logging.ERROR)

CHECKS = 0


def check(cond, msg):
    global CHECKS
    CHECKS += 1
    if not cond:
        print("FAIL:", msg)
        sys.exit(1)


def read(path):
    with open(path, "rb") as f:
        return f.read()


def entries(d):
    return sorted(os.listdir(d))


def mem(name, values):
    return ir.Tensor(np.array(values, dtype=np.float32), name=name)


def ext(location, offset, n, name, base_dir):
    return ir.ExternalTensor(
        location, offset, n * 4, ir.DataType.FLOAT, shape=ir.Shape([n]), name=name,
        base_dir=base_dir,
    )


def boom_tensor(name, n, exc):
    def _raise():
        raise exc

    return ir.LazyTensor(_raise, ir.DataType.FLOAT, ir.Shape([n]), name=name)


def seed_file(d, name="w.data"):
    """Write an initial data file with two tensors and return external tensors on it."""
    a = mem("a", [1, 2, 3, 4])
    b = mem("b", [5, 6])
    ea, eb = ed.convert_tensors_to_external([a, b], d, name)
    return ea, eb


def expect_raises(exc_type, fn):
    try:
        fn()
    except exc_type as e:  # noqa: PERF203
        return e
    check(False, f"expected {exc_type.__name__}")


def scenario_failures():
    with tempfile.TemporaryDirectory() as d:
        ea, eb = seed_file(d)
        dest = os.path.join(d, "w.data")
        os.chmod(dest, 0o640)
        before = read(dest)
        listing = entries(d)
        np.testing.assert_array_equal(ea.numpy(), [1, 2, 3, 4])  # maps the file

        class Boom(Exception):
            pass

        # 1. a tensor fails half-way (after ea was already streamed), serial and parallel
        for workers in (None, 1, 3):
            expect_raises(
                Boom,
                lambda w=workers: ed.convert_tensors_to_external(
                    [ea, mem("c", [9] * 64), boom_tensor("x", 3, Boom("t")), eb],
                    d, "w.data", max_workers=w,
                ),
            )
            check(read(dest) == before, f"bytes changed after tensor failure w={workers}")
            check(entries(d) == listing, f"leftovers after tensor failure w={workers}")
            check(ea.valid() and eb.valid(), "tensors invalidated although nothing replaced")
            np.testing.assert_array_equal(eb.numpy(), [5, 6])
            np.testing.assert_array_equal(ea.numpy(), [1, 2, 3, 4])

        # 2. the callback fails on the second tensor
        def cb(tensor, info):
            if info.index == 1:
                raise Boom("cb")

        expect_raises(
            Boom, lambda: ed.convert_tensors_to_external([ea, eb], d, "w.data", callback=cb)
        )
        check(read(dest) == before and entries(d) == listing, "callback failure damaged dir")
        check(ea.valid() and eb.valid(), "invalidated after callback failure")

        # 3. the rename itself fails: tensors were released but must remain valid
        with mock.patch.object(os, "replace", side_effect=OSError("no rename")):
            expect_raises(
                OSError, lambda: ed.convert_tensors_to_external([eb, ea, eb], d, "w.data")
            )
        check(read(dest) == before and entries(d) == listing, "rename failure damaged dir")
        check(ea.valid() and eb.valid(), "invalidated although rename failed")
        np.testing.assert_array_equal(ea.numpy(), [1, 2, 3, 4])

        # 4. an external tensor whose file is missing: not backed by dest, save fails
        ghost = ext("ghost.data", 0, 2, "g", d)
        expect_raises(
            OSError, lambda: ed.convert_tensors_to_external([ea, ghost], d, "w.data")
        )
        check(read(dest) == before and entries(d) == listing, "missing source damaged dir")
        check(ea.valid() and ghost.valid(), "invalidated after missing-source failure")

        # 5. rejected calls: nothing may be created, nothing invalidated
        expect_raises(ValueError, lambda: ed.convert_tensors_to_external([ea], d, ""))
        expect_raises(ValueError, lambda: ed.convert_tensors_to_external([ea], d + os.sep, ""))
        expect_raises(
            ValueError, lambda: ed.convert_tensors_to_external([ea], d, "w.data", max_workers=0)
        )
        expect_raises(
            ValueError,
            lambda: ed.convert_tensors_to_external([ea], d, "w.data", alignment=-1),
        )
        check(read(dest) == before and entries(d) == listing, "rejected call touched dir")
        check(ea.valid() and eb.valid(), "invalidated by rejected call")
        check(stat.S_IMODE(os.stat(dest).st_mode) == 0o640, "mode changed")


def scenario_success_and_invalidation():
    with tempfile.TemporaryDirectory() as d:
        ea, eb = seed_file(d)
        other_a, _ = seed_file(d, "other.data")
        dest = os.path.join(d, "w.data")
        os.chmod(dest, 0o600)
        other_before = read(os.path.join(d, "other.data"))
        # duplicates: eb twice; other_a is backed by a different file
        out = ed.convert_tensors_to_external([eb, ea, eb, other_a, mem("m", [7])], d, "w.data")
        expected = (
            np.array([5, 6, 1, 2, 3, 4, 5, 6, 1, 2, 3, 4, 7], dtype="<f4").tobytes()
        )
        check(read(dest) == expected, "new file is not exactly the complete new bytes")
        check(stat.S_IMODE(os.stat(dest).st_mode) == 0o600, "mode not carried over")
        check(entries(d) == ["other.data", "w.data"], "temporary entries remain")
        check(not ea.valid() and not eb.valid(), "backed tensors must be invalidated")
        check(other_a.valid(), "tensor of another file must stay valid")
        check(read(os.path.join(d, "other.data")) == other_before, "other file changed")
        expect_raises(ValueError, ea.numpy)
        np.testing.assert_array_equal(other_a.numpy(), [1, 2, 3, 4])
        check([t.offset for t in out] == [0, 8, 24, 32, 48], "offsets")
        np.testing.assert_array_equal(out[2].numpy(), [5, 6])
        for t in out:
            t.release()

        # empty input: the destination becomes the complete (empty) new file
        out = ed.convert_tensors_to_external([], d, "w.data")
        check(out == [] and read(dest) == b"", "empty save")
        check(entries(d) == ["other.data", "w.data"], "temporary entries remain (empty)")


def scenario_links():
    with tempfile.TemporaryDirectory() as d:
        real_dir = os.path.join(d, "real")
        os.mkdir(real_dir)
        ea, eb = seed_file(real_dir)
        real = os.path.join(real_dir, "w.data")
        link = os.path.join(d, "link.data")
        os.symlink(real, link)
        before = read(real)
        via_link = ext("link.data", 0, 4, "vl", "")  # base_dir "" -> path "link.data"
        via_link.base_dir = d  # now d/link.data
        # unrelated tensor that reads through the symlink, not part of the save
        bystander = ext("w.data", 16, 2, "by", real_dir)

        class Boom(Exception):
            pass

        # failing save through the symlink
        expect_raises(
            Boom,
            lambda: ed.convert_tensors_to_external(
                [ea, boom_tensor("x", 1, Boom())], d, "link.data"
            ),
        )
        check(os.path.islink(link) and read(real) == before, "failed save via link")
        check(entries(d) == ["link.data", "real"] and entries(real_dir) == ["w.data"], "left")
        check(ea.valid() and eb.valid(), "invalidated after failed save via link")

        # successful save through the symlink: link kept, target replaced, ea (given by its
        # real path) invalidated, eb (not among the tensors) untouched
        out = ed.convert_tensors_to_external([mem("n", [8, 9]), ea], d, "link.data")
        check(os.path.islink(link), "symlink was replaced by a file")
        check(
            read(real) == np.array([8, 9, 1, 2, 3, 4], dtype="<f4").tobytes(), "target bytes"
        )
        check(entries(d) == ["link.data", "real"] and entries(real_dir) == ["w.data"], "left2")
        check(not ea.valid(), "tensor backed by link target not invalidated")
        check(eb.valid() and bystander.valid(), "tensor not taking part was invalidated")
        check(out[1].location == "link.data", "location")
        np.testing.assert_array_equal(out[1].numpy(), [1, 2, 3, 4])
        out[1].release()

        # hard link: samefile() is true, and the containment check refuses the read, so the
        # save fails and nothing may change
        hard = os.path.join(real_dir, "hard.data")
        os.link(real, hard)
        now = read(real)
        eh = ext("hard.data", 0, 2, "h", real_dir)
        err = expect_raises(
            ValueError, lambda: ed.convert_tensors_to_external([eh], real_dir, "w.data")
        )
        check("hard link" in str(err), "unexpected error: %s" % err)
        check(read(real) == now and read(hard) == now, "hard-linked file changed")
        check(entries(real_dir) == ["hard.data", "w.data"], "leftovers (hard link)")
        check(eh.valid(), "invalidated although nothing replaced (hard link)")
        # without a base_dir the hard-linked tensor can be read: it is backed by the
        # destination, so it is invalidated; the other name keeps the previous bytes
        eh2 = ext(hard, 0, 2, "h2", "")
        ed.convert_tensors_to_external([eh2, mem("z", [0])], real_dir, "w.data")
        check(read(hard) == now, "old inode modified in place")
        check(read(real) == np.array([8, 9, 0], dtype="<f4").tobytes(), "new bytes (hard)")
        check(not eh2.valid() and eh.valid(), "hard link invalidation")


def scenario_model_and_shards():
    with tempfile.TemporaryDirectory() as d:
        graph = ir.Graph([], [], nodes=[], name="g")
        for name, vals in (("p", [1, 2, 3]), ("q", [4, 5, 6, 7])):
            v = ir.Value(name=name, const_value=mem(name, vals))
            graph.initializers[name] = v
        model = ir.Model(graph, ir_version=10)
        ed.unload_from_model(model, d, "m.data")
        dest = os.path.join(d, "m.data")
        before = read(dest)
        p, q = (graph.initializers[n].const_value for n in ("p", "q"))

        # sharded save over a pre-existing shard name: refused, nothing changes
        shard1 = os.path.join(d, "m-00001-of-00002.data")
        with open(shard1, "wb") as f:
            f.write(b"precious")
        expect_raises(
            FileExistsError,
            lambda: ed.unload_from_model(model, d, "m.data", max_shard_size_bytes=16),
        )
        check(read(shard1) == b"precious" and read(dest) == before, "shard collision")
        check(entries(d) == ["m-00001-of-00002.data", "m.data"], "shard leftovers")
        check(p.valid() and q.valid(), "invalidated by refused sharded save")
        check(graph.initializers["p"].const_value is p, "model changed by refused save")
        os.remove(shard1)

        # sharded save next to the single file: single file untouched, tensors stay valid
        ed.unload_from_model(model, d, "m.data", max_shard_size_bytes=16)
        check(read(dest) == before, "sharded save changed a pre-existing file")
        check(p.valid() and q.valid(), "invalidated although backing file not replaced")
        check(
            entries(d) == ["m-00001-of-00002.data", "m-00002-of-00002.data", "m.data"],
            "shards",
        )

        # failing re-save of the model into m.data
        graph.initializers["p"].const_value = p
        graph.initializers["q"].const_value = boom_tensor("q", 4, RuntimeError("lazy"))
        listing = entries(d)
        expect_raises(RuntimeError, lambda: ed.unload_from_model(model, d, "m.data"))
        check(read(dest) == before and entries(d) == listing, "model save failure")
        check(p.valid() and graph.initializers["p"].const_value is p, "p damaged")
        np.testing.assert_array_equal(p.numpy(), [1, 2, 3])
        p.release()


def main():
    scenario_failures()
    scenario_success_and_invalidation()
    scenario_links()
    scenario_model_and_shards()
    print(f"OK ({CHECKS} checks)")


if __name__ == "__main__":
    main()
