"""Demo for C07: external-data save/load round trip and layout well-formedness."""

import itertools
import logging
import os
import sys
import tempfile

import numpy as np

import onnx_ir as ir
from onnx_ir import external_data


def make_model():
    rng = np.random.default_rng(0)
    shared = ir.Tensor(rng.integers(0, 255, size=(40, 40), dtype=np.uint8), name="shared")
    arrays = {
        "w_small": rng.standard_normal((3,)).astype(np.float32),  # 12 bytes
        "w_mid": rng.standard_normal((30, 20)).astype(np.float32),  # 2400 bytes
        "w_big": rng.standard_normal((70, 50)).astype(np.float64),  # 28000 bytes
        "w_empty": np.zeros((0, 4), dtype=np.float32),  # zero size
        "w_i16": rng.integers(-5, 5, size=(999,), dtype=np.int16),  # 1998 bytes
    }
    inits = []
    for name, arr in arrays.items():
        inits.append(ir.Value(name=name, const_value=ir.Tensor(arr, name=name)))
    # sub-byte packed tensor
    int4 = ir.PackedTensor(
        rng.integers(0, 255, size=(253,), dtype=np.uint8),
        ir.DataType.INT4,
        shape=[2, 253],
        name="w_int4",
    )
    inits.append(ir.Value(name="w_int4", const_value=int4))
    # lazy tensor
    lazy_arr = rng.standard_normal((25, 25)).astype(np.float32)
    lazy = ir.LazyTensor(
        lambda: ir.Tensor(lazy_arr, name="w_lazy"),
        dtype=ir.DataType.FLOAT,
        shape=ir.Shape([25, 25]),
        name="w_lazy",
    )
    inits.append(ir.Value(name="w_lazy", const_value=lazy))
    # the same tensor object used by two initializers (main graph and subgraph)
    inits.append(ir.Value(name="shared", const_value=shared))
    for v in inits:
        v.shape = ir.Shape(v.const_value.shape)
        v.dtype = v.const_value.dtype

    sub_shared = ir.Value(name="shared", const_value=shared, shape=shared.shape, type=ir.TensorType(shared.dtype))
    sub_w = ir.Value(
        name="sub_w",
        const_value=ir.Tensor(rng.standard_normal((600,)).astype(np.float32), name="sub_w"),
    )
    sub_node = ir.node("Identity", inputs=[sub_w])
    subgraph = ir.Graph(
        inputs=[], outputs=sub_node.outputs, nodes=[sub_node],
        initializers=[sub_w, sub_shared], name="then_branch",
    )
    x = ir.Value(name="x", shape=ir.Shape([1]), type=ir.TensorType(ir.DataType.BOOL))
    if_node = ir.node("If", inputs=[x], attributes={"then_branch": subgraph, "else_branch": subgraph.clone()})
    graph = ir.Graph(
        inputs=[x], outputs=if_node.outputs, nodes=[if_node], initializers=inits,
        opset_imports={"": 20}, name="main",
    )
    return ir.Model(graph, ir_version=10)


def snapshot(model):
    out = []
    for g in model.graphs():
        for v in g.initializers.values():
            out.append((v, v.const_value))
    return out


def expected_contents(model):
    out = []
    for g in model.graphs():
        for v in g.initializers.values():
            t = v.const_value
            if t is None:
                continue
            out.append((g.name, v.name, t.dtype, tuple(t.shape.numpy()), t.tobytes()))
    return out


def check_same_objects(snap):
    for v, t in snap:
        assert v.const_value is t, f"initializer {v.name} does not hold its original tensor"


def check_roundtrip(model, path, threshold, alignment, align_threshold, max_shard):
    expected = expected_contents(model)
    loaded = ir.load(path)
    base = os.path.dirname(path)
    got = []
    per_file = {}
    for g in loaded.graphs():
        for v in g.initializers.values():
            t = v.const_value
            got.append((g.name, v.name, t.dtype, tuple(t.shape.numpy()), t.tobytes()))
            if t.nbytes > threshold:
                assert isinstance(t, ir.ExternalTensor), (v.name, "should be external")
                per_file.setdefault(os.path.normpath(t.location), []).append(t)
            else:
                assert not isinstance(t, ir.ExternalTensor), (v.name, "should be inline")
    assert got == expected, "contents differ after round trip"
    for location, tensors in per_file.items():
        size = os.path.getsize(os.path.join(base, location))
        end = 0
        for t in tensors:
            assert t.offset >= end, "ranges overlap or are out of order"
            assert t.offset + t.length <= size, "range outside file"
            assert t.length == t.nbytes
            if alignment is not None and t.nbytes > align_threshold:
                assert t.offset % max(4096, alignment) == 0, "alignment not honoured"
            if alignment is None:
                assert t.offset == end, "dense packing expected"
            end = t.offset + t.length
        if max_shard is not None and end > max_shard:
            assert len(tensors) == 1, "oversized shard with more than one tensor"
    return per_file


def main():
    logging.getLogger("onnx_ir").setLevel(logging.ERROR)
    combos = itertools.product(
        [0, 100, 2400, 10**9],  # threshold
        [(None, 0), (4096, 0), (8192, 2000)],  # alignment / align_threshold
        [None, 1, 3000, 20000, 10**9],  # shard limit
        [None, 1, 4],  # workers
    )
    n = 0
    with tempfile.TemporaryDirectory() as root:
        for threshold, (alignment, align_threshold), max_shard, workers in combos:
            model = make_model()
            snap = snapshot(model)
            d = os.path.join(root, f"case{n}", "sub.dir")
            os.makedirs(os.path.join(d, "data.v1"))
            path = os.path.join(d, "model.v2.onnx")
            calls = []
            ir.save(
                model, path, external_data=os.path.join("data.v1", "weights.v2.bin"),
                size_threshold_bytes=threshold, max_shard_size_bytes=max_shard,
                max_workers=workers, alignment=alignment, align_threshold=align_threshold,
                callback=lambda t, info: calls.append((info.index, info.total, info.offset)),
            )
            check_same_objects(snap)
            files = check_roundtrip(model, path, threshold, alignment, align_threshold, max_shard)
            n_ext = sum(len(v) for v in files.values())
            assert sorted(c[0] for c in calls) == list(range(n_ext)), calls
            assert all(c[1] == n_ext for c in calls)
            # no temporary directory is left behind
            assert not [f for f in os.listdir(os.path.join(d, "data.v1")) if f.startswith(".")]

            if n % 7 == 0:
                # Re-save: already external initializers (loaded model) into a new place
                loaded = ir.load(path)
                snap2 = snapshot(loaded)
                path2 = os.path.join(d, "again.onnx")
                ir.save(loaded, path2, external_data="again.data", size_threshold_bytes=threshold,
                        alignment=alignment, align_threshold=align_threshold, max_workers=workers)
                check_same_objects(snap2)
                check_roundtrip(model, path2, threshold, alignment, align_threshold, None)
                if max_shard is not None and threshold < 10**9:
                    # Sharded save onto existing shard files is rejected; model is untouched
                    try:
                        ir.save(model, path, external_data=os.path.join("data.v1", "weights.v2.bin"),
                                size_threshold_bytes=threshold, max_shard_size_bytes=max_shard,
                                max_workers=workers, alignment=alignment, align_threshold=align_threshold)
                    except FileExistsError:
                        pass
                    else:
                        raise AssertionError("expected FileExistsError")
                    check_same_objects(snap)
            n += 1

        # Rejected calls leave the model unchanged
        model = make_model()
        snap = snapshot(model)
        path = os.path.join(root, "rej.onnx")
        for kwargs, exc in [
            (dict(external_data="r.data", max_workers=0), ValueError),
            (dict(external_data="r.data", alignment=0), ValueError),
            (dict(external_data="r.data", align_threshold=-1), ValueError),
            (dict(external_data="r.data", max_shard_size_bytes=0), ValueError),
            (dict(external_data="r.data", max_in_flight_bytes=0), ValueError),
            (dict(external_data=os.path.abspath("r.data")), ValueError),
            (dict(max_shard_size_bytes=10), ValueError),
            (dict(external_data=os.path.join("missing_dir", "r.data")), FileNotFoundError),
        ]:
            try:
                ir.save(model, path, **kwargs)
            except exc:
                pass
            else:
                raise AssertionError(f"expected {exc.__name__} for {kwargs}")
            check_same_objects(snap)
        assert not os.path.exists(os.path.join(root, "r.data"))

        # A callback that raises half-way: save raises, the model is still restored
        def boom(tensor, info):
            if info.index == 2:
                raise RuntimeError("boom")

        for workers in (None, 3):
            try:
                ir.save(model, path, external_data="boom.data", size_threshold_bytes=0,
                        callback=boom, max_workers=workers)
            except RuntimeError:
                pass
            else:
                raise AssertionError("expected RuntimeError")
            check_same_objects(snap)
            assert not os.path.exists(os.path.join(root, "boom.data"))
            assert not [f for f in os.listdir(root) if f.startswith(".boom")]

        # Direct use of convert_tensors_to_external: empty input and duplicates
        assert external_data.convert_tensors_to_external([], root, "empty.data") == []
        assert os.path.getsize(os.path.join(root, "empty.data")) == 0
        t = ir.Tensor(np.arange(1500, dtype=np.float32), name="dup")
        z = ir.Tensor(np.zeros((0,), dtype=np.float32), name="zero")
        ext = external_data.convert_tensors_to_external(
            [t, z, t, t], root, "dup.data", alignment=4096, align_threshold=100, max_workers=2
        )
        assert [(e.offset, e.length) for e in ext] == [(0, 6000), (6000, 0), (8192, 6000), (16384, 6000)]
        assert all(e.tobytes() == s.tobytes() for e, s in zip(ext, [t, z, t, t]))
        ext = external_data.convert_tensors_to_external([t, z, t], root, "dense.data")
        assert [(e.offset, e.length) for e in ext] == [(0, 6000), (6000, 0), (6000, 6000)]
        assert os.path.getsize(os.path.join(root, "dense.data")) == 12000

        # unload_from_model with an empty model
        empty = ir.Model(ir.Graph([], [], nodes=[], name="e", opset_imports={"": 20}), ir_version=10)
        assert external_data.unload_from_model(empty, root, "none.data") is empty
    print(f"OK ({n} save configurations)")
    return 0


if __name__ == "__main__":
    sys.exit(main())
