"""Demo for C01: ownership links of graph inputs/outputs stay consistent under edits.

Exercises _GraphIO.__init__/extend/__setitem__ (index, slice, extended slice), with
duplicates, rejected calls, empty inputs, a nested subgraph and values that are input,
output and initializer at once.
"""
import sys

import onnx_ir as ir


def snapshot(graphs, values):
    return (
        [(list(map(id, g.inputs)), list(map(id, g.outputs)), {k: id(v) for k, v in g.initializers.items()}) for g in graphs],
        [(id(v.graph) if v.graph is not None else None, v.is_graph_input(), v.is_graph_output(), v.is_initializer()) for v in values],
    )


def check(graphs, values):
    for v in values:
        in_in = [g for g in graphs if any(x is v for x in g.inputs)]
        in_out = [g for g in graphs if any(x is v for x in g.outputs)]
        in_init = [g for g in graphs if any(x is v for x in g.initializers.values())]
        assert v.is_graph_input() == bool(in_in), (v, "input flag")
        assert v.is_graph_output() == bool(in_out), (v, "output flag")
        assert v.is_initializer() == bool(in_init), (v, "initializer flag")
        owners = {id(g) for g in in_in + in_out + in_init}
        assert len(owners) <= 1, (v, "owned by several graphs")
        if owners:
            assert id(v.graph) in owners, (v, "graph link")
        elif v.producer() is None:
            assert v.graph is None, (v, "stale graph link")
        if in_in or in_init:
            assert v.producer() is None, (v, "input/initializer has producer")
    for g in graphs:
        for k, v in g.initializers.items():
            assert k == v.name, (k, v.name)


def expect(exc, fn, graphs, values):
    before = snapshot(graphs, values)
    try:
        fn()
    except exc:
        pass
    else:
        raise AssertionError(f"expected {exc.__name__}")
    assert snapshot(graphs, values) == before, "rejected call modified state"
    check(graphs, values)


def main():
    a, b, c, d, e = (ir.Value(name=n) for n in "abcde")
    t = ir.Value(name="t", const_value=ir.tensor([1.0], name="t"))
    node = ir.Node("", "Add", [a, b], num_outputs=1)
    y = node.outputs[0]
    y.name = "y"
    # construction with duplicates and a generator; t is input, output and initializer
    g = ir.Graph((v for v in [a, b, a, t]), [y, y, t], nodes=[node], initializers=[t], name="g")
    # nested subgraph owned by a node of g
    sub_in = ir.Value(name="sub_in")
    sub_node = ir.Node("", "Identity", [sub_in], num_outputs=1)
    sub = ir.Graph([sub_in], [sub_node.outputs[0]], nodes=[sub_node], name="sub")
    holder = ir.Node("", "If", [y], attributes=[ir.AttrGraph("then_branch", sub)], num_outputs=1)
    g.append(holder)
    other_in = ir.Value(name="other_in")
    other = ir.Graph([other_in], [], nodes=[], name="other")
    graphs = [g, sub, other]
    values = [a, b, c, d, e, t, y, sub_in, sub_node.outputs[0], holder.outputs[0], other_in]
    check(graphs, values)

    # construction rejected as a whole: second value belongs to another graph
    fresh = ir.Value(name="fresh")
    values.append(fresh)
    expect(ValueError, lambda: ir.Graph([fresh, other_in], [], nodes=[], name="bad"), graphs, values)
    assert fresh.graph is None and not fresh.is_graph_input()

    # extend: empty, duplicates, rejected (produced value as input; foreign value)
    g.inputs.extend([])
    g.inputs.extend(iter([c, c]))
    check(graphs, values)
    assert g.inputs.count(c) == 2
    expect(ValueError, lambda: g.inputs.extend([d, y]), graphs, values)
    expect(ValueError, lambda: g.outputs.extend([d, sub_in]), graphs, values)
    assert d.graph is None

    # single item replacement: one duplicate goes away, the value stays an input
    g.inputs[0] = d  # a is still at index 2
    check(graphs, values)
    assert a.is_graph_input() and d.is_graph_input()
    g.inputs[2] = d  # now a is gone
    check(graphs, values)
    assert not a.is_graph_input() and a.graph is None
    g.inputs[-1] = g.inputs[-1]  # self replacement
    check(graphs, values)
    expect(ValueError, lambda: g.inputs.__setitem__(0, other_in), graphs, values)
    expect(ValueError, lambda: g.inputs.__setitem__(0, y), graphs, values)
    expect(IndexError, lambda: g.inputs.__setitem__(99, e), graphs, values)
    expect(TypeError, lambda: g.inputs.__setitem__("0", e), graphs, values)
    expect(TypeError, lambda: g.inputs.__setitem__(slice(0, 1), 5), graphs, values)
    expect(TypeError, lambda: g.inputs.__setitem__(1.5, [e]), graphs, values)

    # slice replacement: shrinking, growing, empty, overlapping old and new values
    g.inputs[0:2] = [e]
    check(graphs, values)
    g.inputs[1:1] = (x for x in [a, a])
    check(graphs, values)
    g.inputs[0:0] = []
    check(graphs, values)
    g.inputs[:] = list(g.inputs)[::-1]
    check(graphs, values)
    n = len(g.inputs)
    g.inputs[::2] = list(g.inputs[::2])
    check(graphs, values)
    # extended slice of wrong size, and a slice with a rejected value: nothing changes
    expect(ValueError, lambda: g.inputs.__setitem__(slice(None, None, 2), [a]), graphs, values)
    expect(ValueError, lambda: g.inputs.__setitem__(slice(0, 2), [b, other_in]), graphs, values)
    expect(ValueError, lambda: g.outputs.__setitem__(slice(0, 3), [sub_node.outputs[0]]), graphs, values)
    assert len(g.inputs) == n

    # outputs: t stays initializer and input when dropped from the outputs
    g.outputs[2] = holder.outputs[0]
    check(graphs, values)
    assert t.is_initializer() and t.is_graph_input() and not t.is_graph_output() and t.graph is g
    g.outputs[0:2] = [y]
    check(graphs, values)
    g.outputs[:] = []
    check(graphs, values)
    assert y.graph is g  # through its producer
    g.inputs[:] = []
    check(graphs, values)
    assert t.graph is g and t.is_initializer()
    del g.initializers["t"]
    check(graphs, values)
    assert t.graph is None

    # a released value can be adopted by another graph
    other.inputs[0:1] = [t, a]
    check(graphs, values)
    assert other_in.graph is None and t.graph is other
    print("demo OK")
    return 0


if __name__ == "__main__":
    sys.exit(main())
