"""Demo for property C11: graph iteration stays well defined while the graph is edited.

Exercises, through the public API, the code paths touched by the refactoring:
indexing (DoublyLinkedSet.__getitem__ via Graph/Function), Graph.remove and Graph.sort,
interleaved with live forward / backward / recursive iterators.
"""

import onnx_ir as ir
from onnx_ir import _linked_list


def mk(name, inputs=(), **kw):
    return ir.Node("", "Op", inputs=list(inputs), name=name, num_outputs=1, **kw)


def names(seq):
    return [n.name for n in seq]


def check(cond, msg):
    if not cond:
        raise SystemExit(f"FAIL: {msg}")


def raises(exc, fn, *a, **kw):
    try:
        fn(*a, **kw)
    except exc:
        return True
    except BaseException as e:  # noqa: BLE001
        raise SystemExit(f"FAIL: expected {exc.__name__}, got {type(e).__name__}: {e}")
    return False


# ---------------------------------------------------------------- indexing
x = ir.Value(name="x")
nodes = [mk(f"n{i}", [x]) for i in range(6)]
g = ir.Graph([x], [], nodes=nodes, name="g")
for i in range(6):
    check(g[i] is nodes[i], f"g[{i}]")
    check(g[i - 6] is nodes[i], f"g[{i - 6}]")
    check(g.node(i) is nodes[i], "node(i)")
check(raises(IndexError, lambda: g[6]), "g[6] must raise")
check(raises(IndexError, lambda: g[-7]), "g[-7] must raise")
check(names(g[1:4]) == ["n1", "n2", "n3"], "slice")
check(names(g[::-2]) == ["n5", "n3", "n1"], "neg step slice")
check(g[True] is nodes[1], "bool index behaves like int")
empty = ir.Graph([], [], nodes=[], name="empty")
check(raises(IndexError, lambda: empty[0]) and raises(IndexError, lambda: empty[-1]), "empty")
check(list(empty) == [] and list(reversed(empty)) == [] and len(empty) == 0, "empty iteration")

# raw container: indexing after erasures in the middle and with a live iterator
ls = _linked_list.DoublyLinkedSet("abcdef"[i] * 2 for i in range(6))
vals = list(ls)
it = iter(ls)
check(next(it) == "aa", "first")
ls.remove(vals[1])
ls.remove(vals[4])
check([ls[i] for i in range(4)] == ["aa", "cc", "dd", "ff"], "index after erase")
check([ls[-i - 1] for i in range(4)] == ["ff", "dd", "cc", "aa"], "neg index after erase")
check(raises(IndexError, lambda: ls[4]) and raises(IndexError, lambda: ls[-5]), "range")
check(raises(TypeError, lambda: ls["0"]), "str index is a TypeError")
check(list(it) == ["cc", "dd", "ff"], "live iterator skips erased")

# ---------------------------------------------------------------- remove while iterating
seen_f, seen_b = [], []
it_f, it_b = iter(g), reversed(g)
seen_f.append(next(it_f).name)  # n0
seen_b.append(next(it_b).name)  # n5
# duplicates in the argument collapse; a generator is accepted
g.remove(n for n in (nodes[1], nodes[1], nodes[4], nodes[4]))
check(nodes[1].graph is None and nodes[4].graph is None, "graph cleared")
check(len(g) == 4 and names(g) == ["n0", "n2", "n3", "n5"], "after remove")
check(nodes[1] not in g and nodes[2] in g, "membership")
check(g[1] is nodes[2] and g[-2] is nodes[3], "indexing after remove")
# remove the current node of the forward iterator (a single node, not an iterable)
g.remove(nodes[0])
seen_f.append(next(it_f).name)  # resumes at n2
# rejected calls must leave everything untouched
other = ir.Graph([], [], nodes=[mk("foreign")], name="other")
before = names(g)
check(raises(ValueError, g.remove, [nodes[2], other[0]]), "foreign node rejected")
check(raises(ValueError, g.remove, nodes[1]), "already removed node rejected")
check(raises(ValueError, g.remove, [nodes[3], nodes[4]]), "mix with detached rejected")
check(names(g) == before and all(n.graph is g for n in g), "rejected remove changes nothing")
check(names(other) == ["foreign"], "other graph untouched")
g.remove([])  # empty input: no-op
g.remove(iter(()))
check(names(g) == before, "empty remove")
seen_f += names(it_f)
seen_b += names(it_b)
check(seen_f == ["n0", "n2", "n3", "n5"], f"forward {seen_f}")
check(seen_b == ["n5", "n3", "n2"], f"backward {seen_b}")

# safe removal: rejected while still used / graph output, accepted together with the users
x2 = ir.Value(name="x2")
x = x2
a = mk("a", [x])
b = mk("b", [a.outputs[0]])
c = mk("c", [b.outputs[0], a.outputs[0]])
d = mk("d", [x])
h = ir.Graph([x], [c.outputs[0]], nodes=[a, b, c, d], name="h")
check(raises(ValueError, h.remove, a, safe=True), "a still used")
check(raises(ValueError, h.remove, [a, b], safe=True), "a still used by c")
check(raises(ValueError, h.remove, [c], safe=True), "c is a graph output")
check(raises(ValueError, h.remove, [d, a], safe=True), "d fine but a not: nothing removed")
check(names(h) == ["a", "b", "c", "d"] and d.graph is h, "untouched after rejected safe remove")
check(c.inputs[0] is b.outputs[0] and len(x.uses()) == 2, "inputs untouched")
it_h = iter(h)
check(next(it_h) is a, "a")
h.outputs.clear()
h.remove([c, b, a, a], safe=True)
check(names(h) == ["d"] and c.inputs == (None, None) and b.inputs == (None,), "safe removed")
check(len(x.uses()) == 1 and a.graph is None, "usages dropped")
check(names(it_h) == ["d"], "iterator resumes after removed current node")
check(h[0] is d and h[-1] is d and len(h) == 1, "indexing")

# ---------------------------------------------------------------- sort (moves) while iterating
inp = ir.Value(name="inp")
s_in = ir.Value(name="s_in")
# subgraph whose nodes are out of order and which uses an outer-scope value
p = mk("p", [inp])
s2 = mk("s2", [s_in])
s1 = mk("s1", [s2.outputs[0], p.outputs[0]])
sub = ir.Graph([s_in], [s1.outputs[0]], nodes=[s1, s2], name="sub")
q = mk("q", [p.outputs[0]], attributes=[ir.AttrGraph("body", sub)])
r = mk("r", [q.outputs[0]])
lone = mk("lone", [None, inp])
main = ir.Graph([inp], [r.outputs[0]], nodes=[r, lone, q, p], name="main")
f_it, b_it = iter(main), reversed(main)
rec_it = iter(ir.traversal.RecursiveGraphIterator(main))
check(next(f_it) is r and next(b_it) is p, "first steps")
check(next(rec_it) is r, "recursive first")
main.sort()
check(names(main) == ["p", "q", "r", "lone"], f"sorted {names(main)}")
check(names(sub) == ["s2", "s1"], f"sub sorted {names(sub)}")
check([main[i].name for i in range(-4, 4)] == ["p", "q", "r", "lone"] * 2, "indexing after sort")
check(len(main) == 4 and r in main and s1 not in main and s1 in sub, "len / membership")
# every node was moved, so both iterators resume at their original neighbours, which are gone
rest_f = names(f_it)
rest_b = names(b_it)
rest_r = names(rec_it)
# all nodes were re-appended behind the forward position and before the backward one
check(rest_f == ["p", "q", "r", "lone"], f"forward after sort {rest_f}")
check(rest_b == [], f"backward after sort {rest_b}")
check(rest_r == ["p", "q", "s2", "s1", "r", "lone"], f"recursive after sort {rest_r}")
check(all(n in ["lone", "p", "q", "r"] for n in rest_f + rest_b), "yields members only")
check(all(n.graph is not None for n in ir.traversal.RecursiveGraphIterator(main)), "members")
check(set(rest_r) <= {"lone", "p", "q", "r", "s1", "s2"}, "recursive yields members only")
main.sort()  # idempotent
check(names(main) == ["p", "q", "r", "lone"] and names(sub) == ["s2", "s1"], "stable")

# cycle: rejected, nothing moves
inp = ir.Value(name="inp2")
c1 = mk("c1", [inp])
c2 = mk("c2", [c1.outputs[0]])
c1.replace_input_with(0, c2.outputs[0])
ok = mk("ok", [inp])
cyc = ir.Graph([inp], [], nodes=[c2, ok, c1], name="cyc")
live = iter(cyc)
check(next(live) is c2, "c2")
check(raises(ValueError, cyc.sort), "cycle rejected")
check(names(cyc) == ["c2", "ok", "c1"], "cycle: order untouched")
check(names(live) == ["ok", "c1"], "iterator unaffected by rejected sort")
ir.Graph([], [], nodes=[], name="e2").sort()  # empty graph sorts fine

# ---------------------------------------------------------------- Function delegates
x = ir.Value(name="x3")
fn_nodes = [mk(f"f{i}", [x]) for i in range(4)]
fg = ir.Graph([x], [], nodes=fn_nodes, name="fg")
fn = ir.Function("dom", "fn", "", graph=fg, attributes=[])
fit = iter(fn)
check(next(fit) is fn_nodes[0], "f0")
fn.remove([fn_nodes[0], fn_nodes[2]])
check(fn[0] is fn_nodes[1] and fn[-1] is fn_nodes[3] and len(fn) == 2, "function indexing")
fn.insert_after(fn_nodes[1], fn_nodes[0])
check(names(fit) == ["f1", "f0", "f3"], "function iterator")
fn.sort()
check(names(fn) == ["f1", "f0", "f3"], "function sort keeps independent nodes in place")

print("OK")
