"""Demo for C02 (proto -> IR -> proto lossless), area: node input resolution in _deserialize_node."""
import logging
import sys

import onnx
from onnx import TensorProto, helper

import onnx_ir as ir
from onnx_ir import serde

failures = []


def check(cond, msg):
    if not cond:
        failures.append(msg)
        print("FAIL:", msg)


class _Capture(logging.Handler):
    def __init__(self):
        super().__init__(level=logging.WARNING)
        self.messages = []

    def emit(self, record):
        self.messages.append(record.getMessage())


capture = _Capture()
logging.getLogger("onnx_ir.serde").addHandler(capture)


def vi(name, shape=(2,), elem=TensorProto.FLOAT):
    return helper.make_tensor_value_info(name, elem, list(shape))


def norm_graph(g):
    """Normalise the documented freedoms: value_info order."""
    g2 = onnx.GraphProto()
    g2.CopyFrom(g)
    infos = sorted(g2.value_info, key=lambda v: v.name)
    del g2.value_info[:]
    g2.value_info.extend(infos)
    for n in g2.node:
        for a in n.attribute:
            if a.type == onnx.AttributeProto.GRAPH:
                a.g.CopyFrom(norm_graph(a.g))
            for i, sg in enumerate(a.graphs):
                a.graphs[i].CopyFrom(norm_graph(sg))
    return g2


# ---- 1. nested subgraphs capturing outer values, with shadowing, duplicates, empty inputs
inner_inner = helper.make_graph(
    [
        # captures 'x' from the outermost graph and 'shadow' from the middle graph (inner wins)
        helper.make_node("Add", ["x", "shadow"], ["ii_out"], name="ii_add"),
    ],
    "inner_inner",
    [],
    [vi("ii_out")],
)
middle = helper.make_graph(
    [
        helper.make_node("Neg", ["x"], ["shadow"], name="mid_neg"),  # shadows outer 'shadow'
        helper.make_node(
            "If", ["cond"], ["m_if"], name="mid_if",
            then_branch=inner_inner, else_branch=inner_inner,
        ),
        # duplicates and an empty optional input in the middle
        helper.make_node("Clip", ["m_if", "", "m_if"], ["m_out"], name="mid_clip"),
    ],
    "middle",
    [],
    [vi("m_out")],
    value_info=[vi("shadow"), vi("m_if")],
)
main = helper.make_graph(
    [
        helper.make_node("Abs", ["x"], ["shadow"], name="abs"),
        helper.make_node("If", ["cond"], ["y"], name="outer_if", then_branch=middle, else_branch=middle),
        helper.make_node("Sum", ["y", "y", "shadow", "x", "x"], ["z"], name="sum"),
    ],
    "main",
    [vi("x"), vi("cond", (), TensorProto.BOOL)],
    [vi("z")],
    value_info=[vi("shadow"), vi("y")],
)
model = helper.make_model(main, opset_imports=[helper.make_opsetid("", 18)], ir_version=10)
# (not checker-valid: the subgraph shadows an outer name on purpose - an unusual input)

capture.messages.clear()
ir_model = serde.deserialize_model(model)
check(not capture.messages, f"valid model must not warn: {capture.messages}")
back = serde.serialize_model(ir_model)
check(norm_graph(back.graph) == norm_graph(model.graph), "nested model round trip differs")
back.graph.CopyFrom(model.graph)
check(back == model, "model-level fields differ")

# Identity of the resolved values: shadowing and sharing
g = ir_model.graph
outer_if = g.node("outer_if") if hasattr(g, "node") else [n for n in g if n.name == "outer_if"][0]
nodes = {n.name: n for n in g}
sum_node = nodes["sum"]
check(sum_node.inputs[0] is sum_node.inputs[1], "duplicate inputs must be one value")
check(sum_node.inputs[3] is g.inputs[0] and sum_node.inputs[4] is g.inputs[0], "x must be graph input")
mid = nodes["outer_if"].attributes["then_branch"].value
mid_nodes = {n.name: n for n in mid}
check(mid_nodes["mid_clip"].inputs[1] is None, "empty input must be None")
check(mid_nodes["mid_clip"].inputs[0] is mid_nodes["mid_clip"].inputs[2], "dup inputs in subgraph")
check(mid_nodes["mid_neg"].inputs[0] is g.inputs[0], "middle graph captures outer x")
ii = mid_nodes["mid_if"].attributes["then_branch"].value
ii_add = list(ii)[0]
check(ii_add.inputs[0] is g.inputs[0], "innermost graph captures outermost x")
check(ii_add.inputs[1] is mid_nodes["mid_neg"].outputs[0], "innermost scope wins (shadowing)")
check(ii_add.inputs[1] is not nodes["abs"].outputs[0], "outer shadowed value not used")

# ---- 2. Unsorted graph: consumer precedes producer; no warnings, same value object
unsorted = helper.make_graph(
    [
        helper.make_node("Relu", ["t"], ["out"], name="consumer"),
        helper.make_node("Neg", ["x"], ["t"], name="producer"),
    ],
    "unsorted",
    [vi("x")],
    [vi("out")],
    value_info=[vi("t")],
)
capture.messages.clear()
ug = serde.deserialize_graph(unsorted)
check(not capture.messages, f"unsorted graph must not warn: {capture.messages}")
un = {n.name: n for n in ug}
check(un["consumer"].inputs[0] is un["producer"].outputs[0], "unsorted: value shared")
check(norm_graph(serde.serialize_graph(ug)) == norm_graph(unsorted), "unsorted round trip differs")

# ---- 3. Unusual: undeclared input (invalid model), used twice, typed through value_info
#         and carrying a quantization annotation; at top level and inside a subgraph.
sub = helper.make_graph(
    [helper.make_node("Add", ["ghost_inner", "ghost_inner"], ["s_out"], name="sub_add")],
    "sub",
    [],
    [vi("s_out")],
    value_info=[vi("ghost_inner", (3, "N"))],
)
bad = helper.make_graph(
    [
        helper.make_node("Add", ["ghost", "x"], ["a"], name="n1"),
        helper.make_node("Mul", ["ghost", "a"], ["b"], name="n2"),
        helper.make_node("If", ["cond"], ["c"], name="n3", then_branch=sub, else_branch=sub),
    ],
    "bad",
    [vi("x"), vi("cond", (), TensorProto.BOOL)],
    [vi("b"), vi("c")],
    value_info=[vi("ghost", (5, 7), TensorProto.INT8), vi("a")],
)
ann = bad.quantization_annotation.add()
ann.tensor_name = "ghost"
e = ann.quant_parameter_tensor_names.add()
e.key, e.value = "SCALE_TENSOR", "ghost_scale"

capture.messages.clear()
bg = serde.deserialize_graph(bad)
cannot = [m for m in capture.messages if "cannot be found in any scope" in m]
caveat = [m for m in capture.messages if m.startswith("Caveat: The value is created in the subgraph")]
# 'ghost' once (second use finds the created value), 'ghost_inner' once per branch
check(len(cannot) == 3, f"expected 3 'cannot be found' warnings, got {len(cannot)}: {cannot}")
check(len(caveat) == 2, f"expected 2 subgraph caveats, got {len(caveat)}")
check(
    cannot[0]
    == "Input 'ghost' of node 'n1' (::Add:) cannot be found in any scope. The model is invalid "
    "but we will still create a new input for the node (current depth: 1)",
    f"unexpected warning text: {cannot[0]!r}",
)
check("Input 'ghost_inner' of node 'sub_add'" in cannot[1] and "(current depth: 2)" in cannot[1],
      f"unexpected warning text: {cannot[1]!r}")
bn = {n.name: n for n in bg}
ghost = bn["n1"].inputs[0]
check(ghost is bn["n2"].inputs[0], "created value is registered in scope and reused")
check(ghost.name == "ghost" and ghost.producer() is None, "ghost has no producer")
check(ghost.dtype == ir.DataType.INT8 and list(ghost.shape) == [5, 7], "ghost typed from value_info")
check(ghost.meta.get("quant_parameter_tensor_names") == {"SCALE_TENSOR": "ghost_scale"},
      f"ghost quantization annotation lost: {dict(ghost.meta)}")
sub_ir = bn["n3"].attributes["then_branch"].value
sub_add = list(sub_ir)[0]
check(sub_add.inputs[0] is sub_add.inputs[1], "ghost_inner created once per subgraph")
check(sub_add.inputs[0].shape is not None and len(sub_add.inputs[0].shape) == 2, "ghost_inner typed")
else_add = list(bn["n3"].attributes["else_branch"].value)[0]
check(else_add.inputs[0] is not sub_add.inputs[0], "value created in the subgraph scope only")
bad_back = serde.serialize_graph(bg)
# The graph is ill-formed (outside the property): the serializer only emits value_info and
# annotations for values owned by the graph, so those of the undeclared inputs are not written
# back. Everything else must be identical - and identical before and after the refactoring.
bad_expected = onnx.GraphProto()
bad_expected.CopyFrom(bad)
del bad_expected.quantization_annotation[:]
kept = [v for v in bad_expected.value_info if v.name != "ghost"]
del bad_expected.value_info[:]
bad_expected.value_info.extend(kept)
for a in bad_expected.node[2].attribute:
    del a.g.value_info[:]
check(norm_graph(bad_back) == norm_graph(bad_expected), "ill-formed graph round trip differs")

# ---- 4. Standalone node: inputs are undeclared by construction; duplicates and empties
node_proto = helper.make_node("Foo", ["p", "", "p", "q"], ["r", ""], name="solo", domain="custom")
capture.messages.clear()
n = serde.deserialize_node(node_proto)
check(len([m for m in capture.messages if "cannot be found" in m]) == 2, "2 warnings for p, q")
check(n.inputs[0] is n.inputs[2] and n.inputs[1] is None, "standalone node duplicates/empties")
expected = onnx.NodeProto()
expected.CopyFrom(node_proto)
del expected.output[:]
expected.output.append("r")  # trailing unnamed output trimmed (documented)
check(serde.serialize_node(n) == expected, "standalone node round trip differs")

# node with no inputs at all
empty_node = helper.make_node("Bar", [], ["o"], name="noin")
check(serde.serialize_node(serde.deserialize_node(empty_node)) == empty_node, "no-input node")

# ---- 5. Rejected: output redeclared in the same scope
dup = helper.make_graph(
    [helper.make_node("Neg", ["x"], ["d"], name="d1"), helper.make_node("Abs", ["x"], ["d"], name="d2")],
    "dup", [vi("x")], [vi("d")],
)
try:
    serde.deserialize_graph(dup)
    check(False, "redeclared output must be rejected")
except serde.SerdeError as exc:
    check(isinstance(exc.__cause__, ValueError) and "redeclared" in str(exc.__cause__),
          f"unexpected cause {exc.__cause__!r}")

# ---- 6. Rejected inside input creation: malformed value_info for an undeclared input.
#         The error surfaces as SerdeError from _deserialize_node with the original cause.
bad_vi = onnx.ValueInfoProto()
bad_vi.name = "ghost2"
bad_vi.type.tensor_type.elem_type = 9999  # not a DataType
g6 = helper.make_graph(
    [helper.make_node("Neg", ["ghost2"], ["o6"], name="n6")], "g6", [], [vi("o6")]
)
g6.value_info.append(bad_vi)
try:
    serde.deserialize_graph(g6)
    check(False, "invalid elem_type must be rejected")
except serde.SerdeError as exc:
    chain = []
    cur = exc
    while cur is not None:
        chain.append(type(cur).__name__ + ":" + str(cur)[:60])
        cur = cur.__cause__
    check(any("_deserialize_node" in c for c in chain), f"node frame missing in chain: {chain}")
    check(chain[-1].startswith("ValueError"), f"root cause should be ValueError: {chain}")

if failures:
    print(f"{len(failures)} failure(s)")
    sys.exit(1)
print("OK")
