"""Round-trip demo for C02 (proto -> IR -> proto lossless), type/shape area."""
import logging
import sys

import onnx
from onnx import TensorProto, helper

import onnx_ir as ir
from onnx_ir import serde

logging.disable(logging.WARNING)


def check(cond, msg):
    if not cond:
        print("FAIL:", msg)
        sys.exit(1)


def tensor_tp(elem, dims, denot=None, dim_denots=None):
    tp = onnx.TypeProto()
    tp.tensor_type.elem_type = elem
    if dims is not None:
        tp.tensor_type.shape.SetInParent()
        for i, d in enumerate(dims):
            dp = tp.tensor_type.shape.dim.add()
            if isinstance(d, int):
                dp.dim_value = d
            elif isinstance(d, str):
                dp.dim_param = d
            if dim_denots and dim_denots[i]:
                dp.denotation = dim_denots[i]
    if denot:
        tp.denotation = denot
    return tp


def seq_of(tp, denot=None):
    out = onnx.TypeProto()
    out.sequence_type.elem_type.CopyFrom(tp)
    if denot:
        out.denotation = denot
    return out


def opt_of(tp, denot=None):
    out = onnx.TypeProto()
    out.optional_type.elem_type.CopyFrom(tp)
    if denot:
        out.denotation = denot
    return out


def sparse_tp(elem, dims):
    tp = onnx.TypeProto()
    tp.sparse_tensor_type.elem_type = elem
    for d in dims:
        tp.sparse_tensor_type.shape.dim.add().dim_value = d
    return tp


TYPES = [
    tensor_tp(TensorProto.FLOAT, [1, "N", None], "TENSOR", ["DATA_BATCH", None, "DATA_CHANNEL"]),
    tensor_tp(TensorProto.INT64, []),  # rank-0 (shape present, empty)
    tensor_tp(TensorProto.BFLOAT16, None),  # no shape at all
    sparse_tp(TensorProto.DOUBLE, [3, 4]),
    seq_of(tensor_tp(TensorProto.FLOAT, ["a", 2]), "SEQ"),
    opt_of(seq_of(tensor_tp(TensorProto.UINT8, [None, None], "inner")), "OPT"),
    seq_of(opt_of(sparse_tp(TensorProto.FLOAT16, [7]))),
    onnx.TypeProto(),  # completely empty type proto
]

# 1. TypeProto -> TypeAndShape -> TypeProto via TYPE_PROTO attribute
for i, tp in enumerate(TYPES):
    ap = onnx.AttributeProto()
    ap.name = f"tp{i}"
    ap.type = onnx.AttributeProto.TYPE_PROTO
    ap.tp.CopyFrom(tp)
    ap.doc_string = "doc"
    attr = serde.deserialize_attribute(ap)
    tas = serde.from_proto(tp)
    check(isinstance(tas, ir.TypeAndShape), "from_proto(TypeProto) kind")
    check(attr.value == tas, f"from_proto and attribute path disagree for {i}")
    back = serde.serialize_attribute(attr)
    if tp.WhichOneof("value") is None:
        # Empty type: nothing is written, 'tp' is not even marked present.
        check(not back.HasField("tp"), "empty tp must stay absent")
        check(back.type == onnx.AttributeProto.TYPE_PROTO, "attr type")
    else:
        check(back == ap, f"TYPE_PROTO roundtrip {i}:\n{back}\n!=\n{ap}")

# 2. TYPE_PROTOS with duplicates and an empty list
for protos in ([], [TYPES[0]], [TYPES[0], TYPES[0], TYPES[5], TYPES[1], TYPES[5]]):
    ap = onnx.AttributeProto()
    ap.name = "tps"
    ap.type = onnx.AttributeProto.TYPE_PROTOS
    for tp in protos:
        ap.type_protos.add().CopyFrom(tp)
    attr = serde.deserialize_attribute(ap)
    check(len(attr.value) == len(protos), "TYPE_PROTOS length")
    back = serde.serialize_attribute(attr)
    check(back == ap, f"TYPE_PROTOS roundtrip ({len(protos)})")

# empty type inside TYPE_PROTOS: entry kept (as empty), count preserved
ap = onnx.AttributeProto()
ap.name = "tps"
ap.type = onnx.AttributeProto.TYPE_PROTOS
ap.type_protos.add()
ap.type_protos.add().CopyFrom(TYPES[4])
back = serde.serialize_attribute(serde.deserialize_attribute(ap))
check(back == ap, "TYPE_PROTOS with empty entry")

# 3. ValueInfoProto roundtrip (type, nested type, shape, denotations, doc, metadata)
for i, tp in enumerate(TYPES):
    vi = onnx.ValueInfoProto()
    vi.name = f"v{i}"
    if tp.WhichOneof("value") is not None:
        vi.type.CopyFrom(tp)
    vi.doc_string = "value doc"
    e = vi.metadata_props.add()
    e.key, e.value = "k", "v"
    value = serde.deserialize_value_info_proto(vi, None)
    back = serde.serialize_value(value)
    check(back == vi, f"ValueInfo roundtrip {i}:\n{back}\n!=\n{vi}")
    check(back.HasField("type") == vi.HasField("type"), "type presence")
    check(serde.to_proto(value) == vi, "to_proto(value)")
    renamed = serde.serialize_value(value, name="other")
    check(renamed.name == "other" and renamed.type == vi.type, "custom name")

# 4. Unusual: shape but no type -> shape cannot be written, type stays absent
v = ir.Value(name="shape_only", shape=ir.Shape([1, 2]))
p = serde.serialize_value(v)
check(p.name == "shape_only" and not p.HasField("type"), "shape-only value")
a = ir.Attr("t", ir.AttributeType.TYPE_PROTO, ir.TypeAndShape(None, ir.Shape([3])))
p = serde.serialize_attribute(a)
check(not p.HasField("tp") and p.type == onnx.AttributeProto.TYPE_PROTO, "shape-only tp")
a = ir.Attr("t", ir.AttributeType.TYPE_PROTO, ir.TypeAndShape(None, None))
p = serde.serialize_attribute(a)
check(not p.HasField("tp") and p.type == onnx.AttributeProto.TYPE_PROTO, "none tp")

# 5. Rejected inputs: map types, unsupported type object, bad value
mp = onnx.TypeProto()
mp.map_type.key_type = TensorProto.INT64
mp.map_type.value_type.CopyFrom(TYPES[0])
for call in (
    lambda: serde.from_proto(mp),
    lambda: serde.deserialize_attribute(
        helper.make_attribute("m", mp, attr_type=onnx.AttributeProto.TYPE_PROTO)
    ),
):
    try:
        call()
    except serde.SerdeError as exc:
        cause = exc.__cause__
        while isinstance(cause, serde.SerdeError):
            cause = cause.__cause__
        check(isinstance(cause, NotImplementedError), f"map cause {cause!r}")
    else:
        check(False, "map type must be rejected")

bad_seq = onnx.TypeProto()
bad_seq.sequence_type.SetInParent()
try:
    serde.from_proto(bad_seq)
except serde.SerdeError as exc:
    check(isinstance(exc.__cause__, ValueError), "sequence w/o elem_type cause")
else:
    check(False, "sequence without elem_type must be rejected")


class NotAType:
    denotation = None


target = onnx.AttributeProto()
try:
    serde.serialize_attribute_into(
        target, ir.Attr("x", ir.AttributeType.TYPE_PROTO, ir.TypeAndShape(NotAType(), None))
    )
except serde.SerdeError as exc:
    check(isinstance(exc.__cause__, serde.SerdeError), "outer wraps inner SerdeError")
    check(isinstance(exc.__cause__.__cause__, TypeError), "root cause TypeError")
    check(target.name == "x" and target.type == 0 and not target.HasField("tp"),
          "partial state after rejection")
else:
    check(False, "unsupported type object must be rejected")

try:
    serde.serialize_attribute(ir.Attr("x", ir.AttributeType.TYPE_PROTO, None))
except serde.SerdeError as exc:
    check(isinstance(exc.__cause__, AttributeError), "None value -> AttributeError")
else:
    check(False, "None TYPE_PROTO value must be rejected")

# 6. Whole model: node with type-proto attributes + nested-typed values
seq_vi = onnx.ValueInfoProto()
seq_vi.name = "s"
seq_vi.type.CopyFrom(TYPES[5])
node = helper.make_node("Custom", ["x", "s"], ["y"], domain="my", name="n")
a1 = node.attribute.add()
a1.name, a1.type = "one", onnx.AttributeProto.TYPE_PROTO
a1.tp.CopyFrom(TYPES[4])
a2 = node.attribute.add()
a2.name, a2.type = "many", onnx.AttributeProto.TYPE_PROTOS
for tp in (TYPES[0], TYPES[0], TYPES[6]):
    a2.type_protos.add().CopyFrom(tp)
x_vi = onnx.ValueInfoProto()
x_vi.name = "x"
x_vi.type.CopyFrom(TYPES[0])
y_vi = onnx.ValueInfoProto()
y_vi.name = "y"
y_vi.type.CopyFrom(TYPES[3])
graph = helper.make_graph([node], "g", [x_vi, seq_vi], [y_vi])
model = helper.make_model(
    graph,
    opset_imports=[helper.make_opsetid("", 18), helper.make_opsetid("my", 1)],
    ir_version=10,
)
back = serde.serialize_model(serde.deserialize_model(model))
check(back == model, "model roundtrip")

print("OK")
