"""C06 demo: rejected Graph.extend / insert_after / insert_before / remove / append leave everything unchanged."""

import sys

import onnx_ir as ir


def build():
    x = ir.Value(name="x")
    a = ir.Node("", "Relu", [x], name="a")
    b = ir.Node("", "Neg", [a.outputs[0]], name="b")
    c = ir.Node("", "Abs", [b.outputs[0]], name="c")
    g = ir.Graph([x], [c.outputs[0]], nodes=[a, b, c], name="g")
    y = ir.Value(name="y")
    p = ir.Node("", "Exp", [y], name="p")
    q = ir.Node("", "Log", [p.outputs[0]], name="q")
    other = ir.Graph([y], [q.outputs[0]], nodes=[p, q], name="other")
    return g, other


def node_state(n):
    return (
        id(n),
        n.name,
        id(n.graph) if n.graph is not None else None,
        tuple(id(v) if v is not None else None for v in n.inputs),
        tuple((id(v), v.name, id(v.producer()), v.index()) for v in n.outputs),
        tuple(
            tuple(sorted((id(u.node), u.idx) for u in v.uses())) for v in n.outputs
        ),
    )


def graph_state(g):
    return (
        g.name,
        tuple(node_state(n) for n in g),
        tuple(node_state(n) for n in reversed(g)),
        len(g),
        tuple((id(v), v.name, id(v.graph) if v.graph is not None else None) for v in g.inputs),
        tuple((id(v), v.name) for v in g.outputs),
        tuple(sorted(g.initializers)),
    )


def snapshot(graphs, loose):
    return tuple(graph_state(g) for g in graphs), tuple(node_state(n) for n in loose)


def expect_rejected(label, call, graphs, loose, exc=ValueError):
    before = snapshot(graphs, loose)
    try:
        call()
    except exc:
        pass
    else:
        raise AssertionError(f"{label}: call was not rejected")
    after = snapshot(graphs, loose)
    assert before == after, f"{label}: state changed by a rejected call"
    # A rejected call can be retried with the same outcome
    try:
        call()
    except exc:
        pass
    else:
        raise AssertionError(f"{label}: retry was not rejected")
    assert snapshot(graphs, loose) == before, f"{label}: state changed by the retry"


def main():
    g, other = build()
    a, b, c = list(g)
    p, q = list(other)
    graphs = [g, other]

    def fresh(k):
        # Unnamed nodes and outputs: names would be assigned on adoption
        return [ir.Node("", "Identity", [g.inputs[0]]) for _ in range(k)]

    # Foreign node at every position of a multi-element argument
    for pos in range(3):
        new = fresh(2)
        arg = new[:pos] + [p] + new[pos:]
        for label, call in (
            ("extend", lambda arg=arg: g.extend(arg)),
            ("extend-gen", lambda arg=arg: g.extend(n for n in arg)),
            ("insert_after", lambda arg=arg: g.insert_after(a, arg)),
            ("insert_before", lambda arg=arg: g.insert_before(c, iter(arg))),
            ("Node.append", lambda arg=arg: b.append(arg)),
            ("Node.prepend", lambda arg=arg: b.prepend(arg)),
        ):
            expect_rejected(f"{label}@{pos}", call, graphs, new)
            for n in new:
                assert n.graph is None and n.name is None, label
                assert all(v.name is None for v in n.outputs), label

    # Anchor that is not a member: foreign anchor and detached anchor, with good new nodes
    new = fresh(2)
    loose_anchor = ir.Node("", "Identity", [g.inputs[0]], name="loose")
    for anchor in (p, loose_anchor):
        expect_rejected("after-bad-anchor", lambda: g.insert_after(anchor, new), graphs, new + [loose_anchor])
        expect_rejected("before-bad-anchor", lambda: g.insert_before(anchor, new[0]), graphs, new + [loose_anchor])
    # Anchor bad AND new node bad: still a ValueError, nothing changes
    expect_rejected("both-bad", lambda: g.insert_after(p, [new[0], q]), graphs, new)
    # Single foreign node
    expect_rejected("append", lambda: g.append(p), graphs, [])
    expect_rejected("insert-single", lambda: g.insert_before(a, q), graphs, [])

    # remove: foreign node among members, single foreign node, unsafe removal
    expect_rejected("remove-mixed", lambda: g.remove([a, p, b]), graphs, [])
    expect_rejected("remove-foreign", lambda: g.remove(q), graphs, [])
    expect_rejected("remove-detached", lambda: g.remove(loose_anchor), graphs, [loose_anchor])
    expect_rejected("remove-safe-used", lambda: g.remove(a, safe=True), graphs, [])
    expect_rejected("remove-safe-output", lambda: g.remove([c], safe=True), graphs, [])
    expect_rejected("remove-safe-mixed", lambda: g.remove([b, c, p], safe=True), graphs, [])

    # Empty inputs are accepted and change nothing
    before = snapshot(graphs, [])
    g.extend([])
    g.extend(iter(()))
    g.insert_after(a, [])
    g.insert_before(a, ())
    g.remove([])
    g.remove((), safe=True)
    assert snapshot(graphs, []) == before

    # Accepted calls still work as before, including duplicates and moving members
    n1, n2 = fresh(2)
    g.insert_after(a, [n1, n2])
    assert [n.name for n in g][:1] == ["a"] and list(g)[1:3] == [n1, n2]
    assert n1.graph is g and n1.name and n1.outputs[0].name and n1.name != n2.name
    g.insert_before(a, c)  # move a member
    assert list(g) == [c, a, n1, n2, b] and len(g) == 5
    g.extend([c, c])  # duplicates of a member: moved to the end once
    assert list(g) == [a, n1, n2, b, c] and len(g) == 5
    g.remove([n1, n2, n1])
    assert list(g) == [a, b, c] and n1.graph is None and n2.graph is None
    g.remove(c)
    assert list(g) == [a, b] and c.graph is None
    g.append(c)
    assert list(g) == [a, b, c] and c.graph is g
    # After the rejected calls the other graph is still fully usable
    other.remove(q)
    g.insert_after(c, q)
    assert q.graph is g and list(other) == [p]
    print("C06 demo OK")
    return 0


if __name__ == "__main__":
    sys.exit(main())
