"""Demo for C16: dimension strings re-parse with standard integer arithmetic meaning.

Exercises, through the public API (ir.SymbolicDim / ir.Shape), the primary, unary-minus
and power levels of the dimension parser and its entry points (end-of-input check and
the closing-parenthesis expectation), and compares every evaluation with an independent
reference computed with Python's exact arithmetic (fractions.Fraction).
"""

from __future__ import annotations

import math
import random
import re
import sys
from fractions import Fraction

import onnx_ir as ir

failures: list[str] = []


def check(cond: bool, msg: str) -> None:
    if not cond:
        failures.append(msg)


# ---------------------------------------------------------------------------
# Independent reference: rewrite the string to a Python expression over Fractions
# ---------------------------------------------------------------------------
_TOKEN = re.compile(r"\s*(\d+|[A-Za-z_][A-Za-z0-9_.]*|//|\*\*|[-+*/%(),])")
_FUNCS = {
    "max": lambda *a: max(a),
    "Max": lambda *a: max(a),
    "min": lambda *a: min(a),
    "Min": lambda *a: min(a),
    "floor": lambda x: Fraction(math.floor(x)),
    "ceiling": lambda x: Fraction(math.ceil(x)),
    "Abs": abs,
    "sign": lambda x: Fraction((x > 0) - (x < 0)),
    "mod": lambda a, b: a % b,
    "Mod": lambda a, b: a % b,
}


def reference(text: str, env: dict[str, int]) -> Fraction:
    out = []
    pos = 0
    text = text.strip()
    tokens = []
    while pos < len(text):
        m = _TOKEN.match(text, pos)
        assert m, (text, pos)
        tokens.append(m.group(1))
        pos = m.end()
        while pos < len(text) and text[pos].isspace():
            pos += 1
    for i, tok in enumerate(tokens):
        if tok.isdigit():
            out.append(f"F({int(tok)})")
        elif tok[0].isalpha() or tok[0] == "_":
            if i + 1 < len(tokens) and tokens[i + 1] == "(":
                out.append(f"FN[{tok!r}]")
            else:
                out.append(f"F(V[{tok!r}])")
        elif tok == "//":
            out.append("//")
        else:
            out.append(tok)
    value = eval(" ".join(out), {"__builtins__": {}}, {"F": Fraction, "V": env, "FN": _FUNCS})  # noqa: S307
    return Fraction(value)


def evaluate_text(text: str, env: dict[str, int]):
    """What the library computes for a stored dimension string."""
    return ir.SymbolicDim(text).evaluate(env)


def same(result, expected: Fraction) -> bool:
    if expected.denominator == 1:
        return isinstance(result, int) and not isinstance(result, bool) and result == expected
    # Non-integer value: stays a SymbolicDim whose text is the exact rational
    return isinstance(result, ir.SymbolicDim) and result.value == str(expected)


# ---------------------------------------------------------------------------
# 1. Hand-written strings: precedence and associativity of unary minus, **, parentheses
# ---------------------------------------------------------------------------
ENV = {"N": 7, "M": 3, "K": 12, "batch.size_1": 5, "_x": 2}
fixed = [
    "N + 1",
    "-N",
    "--N",
    "---N + M",
    "-N**2",
    "(-N)**2",
    "2**-1 * 4",
    "2**3**2",
    "2**-M",
    "-2**-2 * 8",
    "N - -M",
    "N * -M",
    "N // -M",
    "-N // M",
    "-N % M",
    "N % -M",
    "-(N + M) * 2",
    "((N))",
    "(((N + ((M)))))*((2))",
    "((((((((((N))))))))))",
    "N-M-K",
    "N - (M - K)",
    "K // M // 2",
    "K // (M // 2)",
    "K / M / 2",
    "K % 5 % 3",
    "K*M % 5",
    "K % 5 * M",
    "N + M * K",
    "(N + M) * K",
    "N * M + K",
    "N*(M+K)",
    "2*N//3",
    "2*(N//3)",
    "max(N, M)",
    "min(N, M, K)",
    "max(N, min(M, K)) + 1",
    "Max(N - 10, 0)",
    "Min(1, N)",
    "floor(N / 2)",
    "ceiling(N / 2)",
    "floor(-N / 2)",
    "ceiling(-N / 2)",
    "-floor(N / 2)",
    "-max(N, M)**2",
    "max(-N, -M)",
    "max((N), (M))",
    "mod(N, M)",
    "Mod(-N, M)",
    "Abs(M - N)",
    "sign(M - N) * floor(Abs(M - N) / 2)",
    "batch.size_1 * 2",
    "_x**3",
    "  N  +\t1 ",
    "N+1",
    "( N )",
    "max ( N , M )",
    "7",
    "007 + N",
    "(3)",
    "-3",
    "N / M",
    "K / M",
    "1 / N",
    "N / 2 + N / 2",
]
for text in fixed:
    try:
        expected = reference(text, ENV)
    except ZeroDivisionError:
        continue
    try:
        got = evaluate_text(text, ENV)
    except Exception as e:  # noqa: BLE001
        failures.append(f"{text!r}: raised {type(e).__name__}: {e}")
        continue
    check(same(got, expected), f"{text!r}: got {got!r}, expected {expected}")

# ---------------------------------------------------------------------------
# 2. Random strings of the grammar
# ---------------------------------------------------------------------------
rng = random.Random(1616)
NAMES = ["N", "M", "K", "seq_len", "a.b_1"]


def sp() -> str:
    return rng.choice(["", "", " ", "  "])


def gen_primary(depth: int) -> str:
    r = rng.random()
    if depth <= 0 or r < 0.35:
        return rng.choice(NAMES) if rng.random() < 0.7 else str(rng.randint(0, 9))
    if r < 0.6:
        return "(" + sp() + gen_expr(depth - 1) + sp() + ")"
    if r < 0.75:
        fn = rng.choice(["max", "min", "Max", "Min"])
        n = rng.randint(1, 3)
        return fn + sp() + "(" + (sp() + "," + sp()).join(gen_expr(depth - 1) for _ in range(n)) + ")"
    if r < 0.85:
        fn = rng.choice(["floor", "ceiling", "Abs", "sign"])
        return fn + "(" + gen_expr(depth - 1) + ")"
    if r < 0.92:
        return rng.choice(["mod", "Mod"]) + "(" + gen_expr(depth - 1) + ", " + gen_expr(depth - 1) + ")"
    return "(" + gen_expr(depth - 1) + ")"


def gen_power(depth: int) -> str:
    base = gen_primary(depth)
    if rng.random() < 0.15:
        return base + sp() + "**" + sp() + rng.choice(["0", "1", "2", "3", "-1", "2**1", "-(1)"])
    return base


def gen_unary(depth: int) -> str:
    if rng.random() < 0.2:
        return "-" + sp() + gen_unary(depth)
    return gen_power(depth)


def gen_term(depth: int) -> str:
    s = gen_unary(depth)
    while rng.random() < 0.35:
        s += sp() + rng.choice(["*", "*", "//", "%", "/"]) + sp() + gen_unary(depth)
    return s


def gen_expr(depth: int) -> str:
    s = gen_term(depth)
    while rng.random() < 0.4:
        s += sp() + rng.choice(["+", "-"]) + sp() + gen_term(depth)
    return s


checked = 0
for _ in range(400):
    text = gen_expr(3)
    env = {n: rng.randint(1, 9) for n in NAMES}
    try:
        expected = reference(text, env)
    except ZeroDivisionError:
        continue
    if abs(expected) > 10**12 or expected.denominator > 10**6:
        continue
    try:
        dim = ir.SymbolicDim(text)
        got = dim.evaluate(env)
    except Exception as e:  # noqa: BLE001
        failures.append(f"random {text!r}: raised {type(e).__name__}: {e}")
        continue
    checked += 1
    check(same(got, expected), f"random {text!r} {env}: got {got!r}, expected {expected}")

    # Partial binding, then the rest: same value.
    names = sorted(dim.free_symbols())
    if names and expected.denominator == 1:
        first = {n: env[n] for n in names[: len(names) // 2]}
        partial = dim.evaluate(first)
        if isinstance(partial, ir.SymbolicDim):
            # The residual is stored as text (what a saved model keeps); re-read it.
            reread = ir.SymbolicDim(partial.value)
            later = reread.evaluate(env)
            check(same(later, expected), f"partial {text!r} {first}: residual {partial.value!r} -> {later!r}, expected {expected}")
        else:
            check(same(partial, expected), f"partial {text!r} {first}: got {partial!r}, expected {expected}")

check(checked > 200, f"only {checked} random strings checked")

# ---------------------------------------------------------------------------
# 3. Printed forms of computed dimensions re-parse to the same evaluations
# ---------------------------------------------------------------------------
N, M = ir.SymbolicDim("N"), ir.SymbolicDim("M")
built = [
    -N,
    -(-N),
    -(N + M) * 2,
    (N - M) * (N - M),
    (N + 1) // 2,
    -N // M,
    (N * M) % 5,
    math.floor(N / 2),
    math.ceil(N / M),
    math.trunc(-N / 2),
    10 - N,
    100 // (N + 1),
    (N * N * N) // (M * M),
]
for dim in built:
    for env in ({"N": 7, "M": 3}, {"N": 1, "M": 1}, {"N": 12, "M": 5}):
        direct = dim.evaluate(env)
        stored = ir.Shape([dim, 4])  # a shape keeps the same dimension object / text
        reread = ir.SymbolicDim(stored[0].value).evaluate(env)
        check(
            type(direct) is type(reread) and direct == reread,
            f"printed {dim.value!r} {env}: direct {direct!r}, re-read {reread!r}",
        )

# ---------------------------------------------------------------------------
# 4. Rejected strings: exception type and message
# ---------------------------------------------------------------------------
rejected = {
    "": "Unexpected end of expression ''",
    "   ": "Unexpected end of expression '   '",
    "N +": "Unexpected end of expression 'N +'",
    "-": "Unexpected end of expression '-'",
    "N **": "Unexpected end of expression 'N **'",
    "(N": "Expected RPAREN but got None in expression '(N'",
    "(N + 1": "Expected RPAREN but got None in expression '(N + 1'",
    "(N, M)": "Expected RPAREN but got ('COMMA', ',') in expression '(N, M)'",
    "(N 2)": "Expected RPAREN but got ('NUMBER', 2) in expression '(N 2)'",
    "N)": "Unexpected token ('RPAREN', ')') at end of expression 'N)'",
    "N 2": "Unexpected token ('NUMBER', 2) at end of expression 'N 2'",
    "2 N": "Unexpected token ('IDENT', 'N') at end of expression '2 N'",
    "N M": "Unexpected token ('IDENT', 'M') at end of expression 'N M'",
    "N, M": "Unexpected token ('COMMA', ',') at end of expression 'N, M'",
    "(N)(M)": "Unexpected token ('LPAREN', '(') at end of expression '(N)(M)'",
    "2(N)": "Unexpected token ('LPAREN', '(') at end of expression '2(N)'",
    "N**2**": "Unexpected end of expression 'N**2**'",
    ")": "Unexpected token ('RPAREN', ')') in expression ')'",
    "()": "Unexpected token ('RPAREN', ')') in expression '()'",
    ",": "Unexpected token ('COMMA', ',') in expression ','",
    "N + * 2": "Unexpected token ('OP', '*') in expression 'N + * 2'",
    "+N": "Unexpected token ('OP', '+') in expression '+N'",
    "N ** ** 2": "Unexpected token ('OP', '**') in expression 'N ** ** 2'",
    "N // // 2": "Unexpected token ('OP', '//') in expression 'N // // 2'",
    "-)": "Unexpected token ('RPAREN', ')') in expression '-)'",
    "N $ 2": "Unexpected character '$' at position 2 in expression 'N $ 2'",
    "(N + 1) ?": "Unexpected character '?' at position 8 in expression '(N + 1) ?'",
    "max(N, M": "Expected RPAREN but got None in expression 'max(N, M'",
}
for text, message in rejected.items():
    dim = ir.SymbolicDim(text)  # construction is lazy and must not fail
    check(dim.value == text, f"rejected {text!r}: value changed to {dim.value!r}")
    try:
        r = dim.evaluate({"N": 1, "M": 2})
    except ValueError as e:
        check(type(e) is ValueError, f"rejected {text!r}: {type(e).__name__}")
        check(str(e) == message, f"rejected {text!r}: message {str(e)!r}, expected {message!r}")
    except Exception as e:  # noqa: BLE001
        failures.append(f"rejected {text!r}: raised {type(e).__name__}: {e}")
    else:
        failures.append(f"rejected {text!r}: accepted, gave {r!r}")

# An unknown function is rejected even though the rest is well formed
try:
    ir.SymbolicDim("foo(N) + 1").evaluate({"N": 1})
except ValueError as e:
    check(str(e).startswith("Unknown function 'foo' in expression 'foo(N) + 1'."), f"unknown function: {e}")
else:
    failures.append("unknown function accepted")

# A rejected string stays rejected on the second attempt (nothing half-parsed is cached)
bad = ir.SymbolicDim("(N")
for _ in range(2):
    try:
        bad.free_symbols()
    except ValueError:
        pass
    else:
        failures.append("'(N' accepted on retry")

# Unknown dimension: nothing to parse
check(ir.SymbolicDim(None).evaluate({"N": 1}) == ir.SymbolicDim(None), "None dim")

if failures:
    print(f"{len(failures)} FAILURES")
    for f in failures[:40]:
        print("  ", f)
    sys.exit(1)
print(f"OK ({len(fixed)} fixed strings, {checked} random strings, {len(built)} printed forms, {len(rejected)} rejected strings)")
