"""Demo for C08: an interrupted external-data save never damages an existing data file.

Exercises the concurrent single-file writer (max_workers > 1) through the public API.
"""

import os
import sys
import tempfile
from unittest import mock

import numpy as np

import onnx_ir as ir
from onnx_ir import external_data


def open_fds() -> int:
    return len(os.listdir("/proc/self/fd")) if os.path.isdir("/proc/self/fd") else 0


def make_tensors(seed: int, n: int = 6):
    rng = np.random.default_rng(seed)
    return [
        ir.Tensor(rng.integers(0, 255, size=(37 + 11 * i,), dtype=np.uint8), name=f"t{i}")
        for i in range(n)
    ]


def expected_bytes(tensors) -> bytes:
    return b"".join(t.tobytes() for t in tensors)


def check(cond: bool, msg: str) -> None:
    if not cond:
        print("FAIL:", msg)
        sys.exit(1)


def main() -> None:
    with tempfile.TemporaryDirectory() as base:
        dest = os.path.join(base, "w.data")

        # 0. Rejected call: nothing is created.
        try:
            external_data.convert_tensors_to_external(
                make_tensors(0), base, "w.data", max_workers=0
            )
            check(False, "max_workers=0 accepted")
        except ValueError:
            pass
        check(os.listdir(base) == [], "rejected call left files")

        # 1. First save, concurrently; creates the file.
        fds0 = open_fds()
        old = make_tensors(1)
        ext_old = external_data.convert_tensors_to_external(old, base, "w.data", max_workers=4)
        old_bytes = expected_bytes(old)
        check(open(dest, "rb").read() == old_bytes, "initial content")
        check(os.listdir(base) == ["w.data"], "temporary left after first save")
        check(open_fds() == fds0, "descriptor leaked after first save")
        os.chmod(dest, 0o640)

        # 2. A tensor that fails half-way through a concurrent overwrite.
        class Boom(RuntimeError):
            pass

        def explode():
            raise Boom("tensor failed")

        new = make_tensors(2)
        bad = list(new)
        bad[3] = ir.LazyTensor(explode, dtype=ir.DataType.UINT8, shape=ir.Shape([70]), name="b")
        try:
            external_data.convert_tensors_to_external(bad, base, "w.data", max_workers=3)
            check(False, "failing tensor did not raise")
        except Boom:
            pass
        check(open(dest, "rb").read() == old_bytes, "destination damaged by failing tensor")
        check(os.listdir(base) == ["w.data"], "temporary left after failing tensor")
        check(open_fds() == fds0, "descriptor leaked after failing tensor")
        check(all(t.valid() for t in ext_old), "tensors invalidated although nothing replaced")
        check(ext_old[2].tobytes() == old[2].tobytes(), "old external tensor unreadable")
        for t in ext_old:
            t.release()

        # 3. A callback that fails (called from a worker thread).
        seen = []

        def cb(tensor, info):
            seen.append(info.index)
            if len(seen) == 4:
                raise Boom("callback failed")

        try:
            external_data.convert_tensors_to_external(
                new, base, "w.data", callback=cb, max_workers=2
            )
            check(False, "failing callback did not raise")
        except Boom:
            pass
        check(open(dest, "rb").read() == old_bytes, "destination damaged by failing callback")
        check(os.listdir(base) == ["w.data"], "temporary left after failing callback")
        check(open_fds() == fds0, "descriptor leaked after failing callback")

        # 4. The file system fails at the rename.
        with mock.patch.object(os, "replace", side_effect=OSError("disk")):
            try:
                external_data.convert_tensors_to_external(new, base, "w.data", max_workers=4)
                check(False, "failing rename did not raise")
            except OSError:
                pass
        check(open(dest, "rb").read() == old_bytes, "destination damaged by failing rename")
        check(os.listdir(base) == ["w.data"], "temporary left after failing rename")
        check(all(t.valid() for t in ext_old), "invalidated although rename failed")

        # 5. Unusual input: the same tensor object several times plus external tensors that
        #    read from the destination itself, written concurrently with alignment.
        dup = [new[0], ext_old[1], new[0], ext_old[4], ext_old[1], new[5], new[0]]
        result = external_data.convert_tensors_to_external(
            dup, base, "w.data", max_workers=4, alignment=4096, align_threshold=50
        )
        want = bytearray()
        for t, r in zip([new[0], old[1], new[0], old[4], old[1], new[5], new[0]], result):
            want.extend(b"\0" * (r.offset - len(want)))
            want.extend(t.tobytes())
        check(open(dest, "rb").read() == bytes(want), "complete new bytes expected")
        check(os.listdir(base) == ["w.data"], "temporary left after successful overwrite")
        check(open_fds() == fds0, "descriptor leaked after successful overwrite")
        check(os.stat(dest).st_mode & 0o777 == 0o640, "mode not carried over")
        check(not ext_old[1].valid() and not ext_old[4].valid(), "replaced tensors still valid")
        check(ext_old[0].valid() and ext_old[2].valid(), "tensors not in the save invalidated")
        check(result[3].tobytes() == old[4].tobytes(), "new external tensor content")

        # 6. Empty input with workers requested: an empty file replaces the destination.
        external_data.convert_tensors_to_external([], base, "w.data", max_workers=4)
        check(open(dest, "rb").read() == b"", "empty save")
        check(os.listdir(base) == ["w.data"], "temporary left after empty save")

        # 7. Sharded concurrent save through unload_from_model never changes an existing file.
        os.chmod(dest, 0o644)
        with open(os.path.join(base, "m-00001-of-00003.data"), "wb") as f:
            f.write(b"precious")
        values = [ir.Value(name=t.name, const_value=t) for t in make_tensors(3)]
        graph = ir.Graph([], [], nodes=[], initializers=values, name="g")
        model = ir.Model(graph, ir_version=10)
        before = sorted(os.listdir(base))
        try:
            external_data.unload_from_model(
                model, base, "m.data", max_shard_size_bytes=160, max_workers=4
            )
            check(False, "existing shard accepted")
        except FileExistsError:
            pass
        check(sorted(os.listdir(base)) == before, "sharded save created files")
        check(
            open(os.path.join(base, "m-00001-of-00003.data"), "rb").read() == b"precious",
            "pre-existing shard changed",
        )
        check(all(isinstance(v.const_value, ir.Tensor) for v in values), "model changed")

    print("OK")


if __name__ == "__main__":
    main()
