"""Demo for C14 on CommonSubexpressionEliminationPass (public API only)."""
import struct
import sys

import numpy as np

import onnx_ir as ir
from onnx_ir.passes.common import CommonSubexpressionEliminationPass

F = ir.TensorType(ir.DataType.FLOAT)


def val(name, shape=(2,)):
    return ir.Value(name=name, type=F, shape=ir.Shape(shape))


def model_of(inputs, outputs, nodes):
    g = ir.Graph(inputs, outputs, nodes=nodes, opset_imports={"": 20}, name="g")
    return ir.Model(g, ir_version=10)


def text(model):
    return ir.to_proto(model).SerializeToString(deterministic=True)


def check_links(model):
    g = model.graph
    seen = set(map(id, g.inputs)) | {id(v) for v in g.initializers.values()}
    for node in g:
        assert node.graph is g
        for i, inp in enumerate(node.inputs):
            if inp is None:
                continue
            assert (node, i) in inp.uses(), "use-def link lost"
            assert id(inp) in seen, f"not topologically sorted at {node.name}"
        for out in node.outputs:
            assert out.producer() is node
            seen.add(id(out))
    for out in g.outputs:
        assert id(out) in seen, "graph output without a producer in the graph"
        assert out.name


def run_to_fixpoint(model, size_limit=10):
    p = CommonSubexpressionEliminationPass(size_limit=size_limit)
    bound = len(model.graph) + 2
    rounds = 0
    while True:
        before = text(model)
        result = p(model)
        assert result.model is model, "in-place pass must return its input"
        after = text(model)
        if not result.modified:
            assert before == after, "modified=False but the model changed"
        check_links(model)
        rounds += 1
        if not result.modified:
            break
        assert rounds <= bound, "no fixpoint"
    # One more round: nothing changes.
    before = text(model)
    result = p(model)
    assert not result.modified and text(model) == before
    return rounds


def ops(model):
    return [n.op_type for n in model.graph]


def main():
    # 1. Plain duplicates, chained (second pair becomes equal only after the first is merged).
    x = val("x")
    a1 = ir.node("Relu", [x], name="a1")
    a2 = ir.node("Relu", [x], name="a2")
    b1 = ir.node("Neg", [a1.outputs[0]], name="b1")
    b2 = ir.node("Neg", [a2.outputs[0]], name="b2")
    s = ir.node("Add", [b1.outputs[0], b2.outputs[0]], name="s")
    s.outputs[0].name = "y"; s.outputs[0].type = F; s.outputs[0].shape = ir.Shape((2,))
    m = model_of([x], [s.outputs[0]], [a1, a2, b1, b2, s])
    run_to_fixpoint(m)
    assert ops(m) == ["Relu", "Neg", "Add"], ops(m)
    assert m.graph.node(-1).inputs[0] is m.graph.node(-1).inputs[1]

    # 2. Float attributes compared by bits (0.0 vs -0.0 differ), FLOATS / INTS / STRINGS duplicates merge.
    x = val("x")
    n = [
        ir.node("LeakyRelu", [x], attributes={"alpha": 0.0}, name="l0"),
        ir.node("LeakyRelu", [x], attributes={"alpha": -0.0}, name="l1"),
        ir.node("LeakyRelu", [x], attributes={"alpha": 0.0}, name="l2"),
        ir.node("Custom", [x], attributes={"f": [1.0, -0.0], "i": [1, 2], "s": ["a", "b"]}, domain="d", name="c0"),
        ir.node("Custom", [x], attributes={"s": ["a", "b"], "i": [1, 2], "f": [1.0, -0.0]}, domain="d", name="c1"),
        ir.node("Custom", [x], attributes={"f": [1.0, 0.0], "i": [1, 2], "s": ["a", "b"]}, domain="d", name="c2"),
    ]
    sink = ir.node("Sink", [o for k in n for o in k.outputs], domain="d", name="sink")
    sink.outputs[0].name = "y"
    m = model_of([x], [sink.outputs[0]], n + [sink])
    run_to_fixpoint(m)
    assert [k.name for k in m.graph] == ["l0", "l1", "c0", "c2", "sink"], [k.name for k in m.graph]

    # 3. Tensor attributes: small ones merge, large ones (over size_limit) are skipped, also when
    #    the large tensor comes after other attributes; non-deterministic ops are never merged.
    def const(name, arr):
        return ir.node("Constant", [], attributes={"value": ir.tensor(arr)}, name=name)
    small = np.arange(3, dtype=np.float32)
    large = np.arange(20, dtype=np.float32)
    n = [
        const("s0", small), const("s1", small.copy()), const("s2", small.astype(np.float64)),
        const("g0", large), const("g1", large.copy()),
        ir.node("Custom", [], attributes={"a": 1, "t": ir.tensor(large)}, domain="d", name="m0"),
        ir.node("Custom", [], attributes={"a": 1, "t": ir.tensor(large)}, domain="d", name="m1"),
        ir.node("RandomUniform", [], attributes={"shape": [2]}, name="r0"),
        ir.node("RandomUniform", [], attributes={"shape": [2]}, name="r1"),
        ir.node("RandomUniform", [], attributes={"shape": [2]}, domain="d", name="q0"),
        ir.node("RandomUniform", [], attributes={"shape": [2]}, domain="d", name="q1"),
    ]
    sink = ir.node("Sink", [o for k in n for o in k.outputs], domain="d", name="sink")
    sink.outputs[0].name = "y"
    m = model_of([], [sink.outputs[0]], n + [sink])
    run_to_fixpoint(m)
    assert [k.name for k in m.graph] == ["s0", "s2", "g0", "g1", "m0", "m1", "r0", "r1", "q0", "sink"], [k.name for k in m.graph]
    # With a larger limit the big constants merge too.
    run_to_fixpoint(m, size_limit=100)
    assert [k.name for k in m.graph] == ["s0", "s2", "g0", "m0", "r0", "r1", "q0", "sink"], [k.name for k in m.graph]

    # 4. Control flow ops (graph attributes) are skipped, even when identical and even when the
    #    graph attribute follows a hashable one.
    def branch(tag):
        c = ir.node("Constant", [], attributes={"value": ir.tensor(np.float32(1))}, name=f"c{tag}")
        c.outputs[0].name = f"bo{tag}"
        return ir.Graph([], [c.outputs[0]], nodes=[c], name=f"b{tag}")
    cond = ir.Value(name="cond", type=ir.TensorType(ir.DataType.BOOL), shape=ir.Shape(()))
    if0 = ir.node("If", [cond], attributes={"k": 1, "then_branch": branch(0), "else_branch": branch(1)}, name="if0")
    if1 = ir.node("If", [cond], attributes={"k": 1, "then_branch": branch(2), "else_branch": branch(3)}, name="if1")
    add = ir.node("Add", [if0.outputs[0], if1.outputs[0]], name="add")
    add.outputs[0].name = "y"
    m = model_of([cond], [add.outputs[0]], [if0, if1, add])
    before = text(m)
    assert run_to_fixpoint(m) == 1
    assert text(m) == before and ops(m) == ["If", "If", "Add"]

    # 5. Duplicates that are graph outputs: both names survive (Identity inserted), duplicates of
    #    the same output listed twice, and an output merged into a non-output value takes the name.
    x = val("x")
    a = ir.node("Relu", [x], name="a"); a.outputs[0].name = "out_a"
    b = ir.node("Relu", [x], name="b"); b.outputs[0].name = "out_b"
    c = ir.node("Abs", [x], name="c"); c.outputs[0].name = "tmp_c"
    d = ir.node("Abs", [x], name="d"); d.outputs[0].name = "out_d"
    e = ir.node("Neg", [c.outputs[0]], name="e"); e.outputs[0].name = "out_e"
    for k in (a, b, c, d, e):
        k.outputs[0].type = F; k.outputs[0].shape = ir.Shape((2,))
    m = model_of([x], [a.outputs[0], b.outputs[0], b.outputs[0], d.outputs[0], e.outputs[0]], [a, b, c, d, e])
    run_to_fixpoint(m)
    assert [o.name for o in m.graph.outputs] == ["out_a", "out_b", "out_b", "out_d", "out_e"]
    assert ops(m).count("Relu") == 1 and ops(m).count("Abs") == 1, ops(m)

    # 6. Empty graph; a PassResult is accepted as input; a rejected call (a graph, not a model)
    #    fails the same way before and after.
    m = model_of([], [], [])
    assert run_to_fixpoint(m) == 1
    again = CommonSubexpressionEliminationPass()(ir.passes.PassResult(m, modified=True))
    assert again.model is m and again.modified is False
    try:
        CommonSubexpressionEliminationPass()(m.graph)  # type: ignore[arg-type]
    except AttributeError:
        pass
    else:
        raise AssertionError("a non-model input must be rejected")

    # 7. A FLOAT reference attribute has no value to pack: the error leaves the pass unwrapped and
    #    the merges done before the failing node stay, links stay consistent.
    x = val("x")
    bad = ir.node("Custom", [x], attributes={"ok": 1}, domain="d", name="bad")
    bad.attributes["f"] = ir.RefAttr("f", "outer_f", ir.AttributeType.FLOAT)
    dup1 = ir.node("Relu", [x], name="r1"); dup2 = ir.node("Relu", [x], name="r2")
    bad.outputs[0].name = "y"
    m = model_of([x], [bad.outputs[0]], [dup1, dup2, bad])
    try:
        CommonSubexpressionEliminationPass()(m)
    except struct.error:
        pass
    else:
        raise AssertionError("expected a failure")
    assert [k.name for k in m.graph] == ["r1", "bad"], [k.name for k in m.graph]
    check_links(m)

    print("OK")
    return 0


if __name__ == "__main__":
    sys.exit(main())
