"""Demo for property C09: concurrent external-data writing is schedule-independent,
bounded and live.  Exercises the public API (ir.external_data.unload_from_model and
convert_tensors_to_external) around _ExternalDataWriter._write_parallel and _ByteBudget.
Exits 0 when every check holds.
"""

from __future__ import annotations

import logging
import os
import sys
import tempfile
import threading
import time

import numpy as np

import onnx_ir as ir
from onnx_ir import external_data


class Probe:
    """Shared bookkeeping for the instrumented tensors and the callback."""

    def __init__(self) -> None:
        self.lock = threading.Lock()
        self.live_bytes = 0
        self.peak_bytes = 0
        self.active_by_id: dict[int, int] = {}
        self.max_same_object = 0
        self.active_writers = 0
        self.cb_active = 0
        self.cb_overlap = False
        self.cb_calls: list[tuple[int, int, str]] = []
        self.cb_threads: set[int] = set()

    def callback(self, tensor, info) -> None:
        with self.lock:
            self.cb_active += 1
            if self.cb_active > 1:
                self.cb_overlap = True
        time.sleep(0.001)
        with self.lock:
            self.cb_calls.append((info.index, info.total, info.filename))
            self.cb_threads.add(threading.get_ident())
            self.cb_active -= 1


class TrackedTensor(ir.Tensor):
    """An in-memory tensor that records how many bytes are being written."""

    probe: Probe
    fail = False

    def tofile(self, file) -> None:
        probe = self.probe
        with probe.lock:
            probe.live_bytes += self.nbytes
            probe.peak_bytes = max(probe.peak_bytes, probe.live_bytes)
            n = probe.active_by_id.get(id(self), 0) + 1
            probe.active_by_id[id(self)] = n
            probe.max_same_object = max(probe.max_same_object, n)
            probe.active_writers += 1
        try:
            time.sleep(0.002)
            if self.fail:
                raise RuntimeError("boom while materialising " + str(self.name))
            super().tofile(file)
        finally:
            with probe.lock:
                probe.live_bytes -= self.nbytes
                probe.active_by_id[id(self)] -= 1
                probe.active_writers -= 1


SIZES = [40, 4000, 12, 9000, 256, 7000, 0, 3000, 64, 5000, 128, 2048]  # float32 elements


def make_tensors(probe: Probe, fail_index: int | None = None) -> list[TrackedTensor]:
    rng = np.random.default_rng(7)
    tensors = []
    for i, n in enumerate(SIZES):
        t = TrackedTensor(rng.standard_normal(n).astype(np.float32), name=f"w{i}")
        t.probe = probe
        if i == fail_index:
            t.fail = True
        tensors.append(t)
    return tensors


def make_model(tensors, shared_extra: bool = True) -> ir.Model:
    values = []
    for i, t in enumerate(tensors):
        values.append(ir.Value(name=f"init{i}", const_value=t, shape=t.shape, type=ir.TensorType(t.dtype)))
    if shared_extra:
        # The very same tensor object used by several initializers.
        for k, src in enumerate((1, 1, 3)):
            t = tensors[src]
            values.append(
                ir.Value(name=f"alias{k}", const_value=t, shape=t.shape, type=ir.TensorType(t.dtype))
            )
    graph = ir.Graph(inputs=[], outputs=[], nodes=[], initializers=values, name="g", opset_imports={"": 20})
    return ir.Model(graph, ir_version=10)


def read_files(directory: str) -> dict[str, bytes]:
    out = {}
    for name in sorted(os.listdir(directory)):
        with open(os.path.join(directory, name), "rb") as f:
            out[name] = f.read()
    return out


def layout(model: ir.Model) -> list[tuple[str, str, int, int]]:
    rows = []
    for name, value in model.graph.initializers.items():
        t = value.const_value
        if t.nbytes == 0:
            # Empty tensors are not above the size threshold and stay in memory.
            assert not isinstance(t, ir.ExternalTensor), name
            continue
        assert isinstance(t, ir.ExternalTensor), name
        rows.append((name, os.fspath(t.location), t.offset, t.length))
    return rows


def save(directory, *, fail_index=None, **options):
    probe = Probe()
    tensors = make_tensors(probe, fail_index)
    model = make_model(tensors)
    external_data.unload_from_model(
        model, directory, "weights.data", callback=probe.callback, **options
    )
    return probe, model, tensors


def check(cond: bool, message: str) -> None:
    if not cond:
        print("FAIL:", message)
        sys.exit(1)


def main() -> None:
    logging.getLogger("onnx_ir").setLevel(logging.ERROR)  # silence oversized-shard warnings
    largest = max(SIZES) * 4
    n_tensors = sum(1 for n in SIZES if n) + 3  # the empty tensor stays in memory

    for shard in (None, 30000):
        with tempfile.TemporaryDirectory() as ref_dir:
            ref_probe, ref_model, _ = save(ref_dir, max_shard_size_bytes=shard)
            ref_files = read_files(ref_dir)
            ref_layout = layout(ref_model)
            check(len(ref_probe.cb_calls) == n_tensors, "serial callback count")
            check(
                [c[0] for c in ref_probe.cb_calls] == list(range(n_tensors)),
                "serial callbacks arrive in index order",
            )
            if shard is not None:
                check(len(ref_files) > 1, "sharded reference uses several files")

            for workers in (2, 3, 8):
                # 1 byte: every non-empty tensor is oversized; 10000: several oversized
                # tensors (w1, w3, w5, w9 ...) mixed with small ones; big: nothing blocks.
                for budget in (1, 10000, 1 << 30):
                    for _repeat in range(3):
                        with tempfile.TemporaryDirectory() as d:
                            probe, model, _ = save(
                                d,
                                max_shard_size_bytes=shard,
                                max_workers=workers,
                                max_in_flight_bytes=budget,
                            )
                            tag = f"shard={shard} workers={workers} budget={budget}"
                            check(read_files(d) == ref_files, f"bytes differ from serial ({tag})")
                            check(layout(model) == ref_layout, f"layout differs ({tag})")
                            check(len(probe.cb_calls) == n_tensors, f"callback count ({tag})")
                            check(
                                sorted(c[0] for c in probe.cb_calls) == list(range(n_tensors)),
                                f"callback indices not a permutation ({tag})",
                            )
                            check(
                                all(c[1] == n_tensors for c in probe.cb_calls),
                                f"callback total ({tag})",
                            )
                            check(not probe.cb_overlap, f"callback ran on two threads at once ({tag})")
                            check(probe.max_same_object == 1, f"shared tensor evaluated twice at once ({tag})")
                            check(
                                probe.peak_bytes <= budget + largest,
                                f"peak {probe.peak_bytes} > budget+largest ({tag})",
                            )
                            check(probe.live_bytes == 0 and probe.active_writers == 0, f"leftover ({tag})")

    # A failing tensor: the exception reaches the caller only after all workers stopped,
    # the budget is free again (a second save with the same options completes), and
    # nothing is left in the destination directory for the single-file save.
    for shard in (None, 30000):
        for fail_index in (0, 3, len(SIZES) - 1):
            with tempfile.TemporaryDirectory() as d:
                probe = Probe()
                tensors = make_tensors(probe, fail_index)
                model = make_model(tensors)
                before = threading.active_count()
                try:
                    external_data.unload_from_model(
                        model,
                        d,
                        "weights.data",
                        callback=probe.callback,
                        max_shard_size_bytes=shard,
                        max_workers=4,
                        max_in_flight_bytes=10000,
                    )
                except RuntimeError as exc:
                    check("boom" in str(exc), "unexpected error text")
                else:
                    check(False, "failing tensor did not raise")
                with probe.lock:
                    check(probe.active_writers == 0, "a worker is still writing after the exception")
                    check(probe.live_bytes == 0, "bytes still materialised after the exception")
                    check(probe.cb_active == 0, "callback still running after the exception")
                    n_calls = len(probe.cb_calls)
                time.sleep(0.05)
                check(len(probe.cb_calls) == n_calls, "callback invoked after the exception reached the caller")
                check(threading.active_count() <= before, "worker threads survived the failed save")
                check(len(probe.cb_calls) <= n_tensors, "too many callbacks on failure")
                check(not probe.cb_overlap, "callback overlap on failure")
                if shard is None:
                    check(os.listdir(d) == [], f"leftovers after failed save: {os.listdir(d)}")
                # Model untouched: initializers are still the in-memory tensors.
                check(
                    all(v.const_value is t for v, t in zip(model.graph.initializers.values(), tensors)),
                    "model modified by a failed save",
                )

    # Unusual inputs through convert_tensors_to_external.
    with tempfile.TemporaryDirectory() as d:
        # rejected calls: nothing may be created
        for bad in (dict(max_workers=0), dict(max_workers=-2), dict(max_in_flight_bytes=0)):
            try:
                external_data.convert_tensors_to_external(make_tensors(Probe()), d, "x.data", **bad)
            except ValueError:
                pass
            else:
                check(False, f"{bad} accepted")
        check(os.listdir(d) == [], "rejected call created files")

        # empty input with workers requested
        out = external_data.convert_tensors_to_external([], d, "empty.data", max_workers=4)
        check(out == [], "empty input result")
        check(os.path.getsize(os.path.join(d, "empty.data")) == 0, "empty input file size")

        # duplicates: the same object many times, only empty tensors, and alignment holes
        probe = Probe()
        ts = make_tensors(probe)
        dup = [ts[3]] * 5 + [ts[6], ts[6]] + [ts[1], ts[3], ts[1]]
        cb_probe = Probe()
        serial = external_data.convert_tensors_to_external(
            dup, d, "dup_serial.data", alignment=4096, align_threshold=1000
        )
        parallel = external_data.convert_tensors_to_external(
            dup,
            d,
            "dup_parallel.data",
            callback=cb_probe.callback,
            max_workers=5,
            max_in_flight_bytes=1,
            alignment=4096,
            align_threshold=1000,
        )
        files = read_files(d)
        check(files["dup_serial.data"] == files["dup_parallel.data"], "duplicate tensors: bytes differ")
        check(
            [(t.offset, t.length) for t in serial] == [(t.offset, t.length) for t in parallel],
            "duplicate tensors: layout differs",
        )
        check(probe.max_same_object == 1, "duplicate tensor object written concurrently")
        check(len(cb_probe.cb_calls) == len(dup) and not cb_probe.cb_overlap, "duplicate callbacks")
        check(probe.peak_bytes <= 1 + largest, "duplicates: more than one oversized tensor at once")
        for t, src in zip(parallel, dup):
            np.testing.assert_array_equal(t.numpy(), src.numpy())

    print("OK")


if __name__ == "__main__":
    main()
