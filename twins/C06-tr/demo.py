"""Demo for property C06: a rejected edit leaves every IR object exactly as it was.

Area exercised: Node construction with supplied outputs (Node._create_outputs) and the
single-item / multi-item mutators of Graph.initializers (GraphInitializers).
Exits 0 when every expectation holds.
"""

from __future__ import annotations

import numpy as np

import onnx_ir as ir


def snapshot(graphs, values, nodes):
    """Everything observable about the given graphs, values and nodes."""
    snap = {}
    for g in graphs:
        snap["g", id(g)] = (
            g.name,
            [id(v) for v in g.inputs],
            [id(v) for v in g.outputs],
            [(k, id(v)) for k, v in g.initializers.items()],
            [id(n) for n in g],
            len(g),
        )
    for v in values:
        snap["v", id(v)] = (
            v.name,
            id(v.graph) if v.graph is not None else None,
            v.is_graph_input(),
            v.is_graph_output(),
            v.is_initializer(),
            id(v.producer()) if v.producer() is not None else None,
            v.index(),
            [(id(u.node), u.idx) for u in v.uses()],
            v.const_value.name if v.const_value is not None else None,
        )
    for n in nodes:
        snap["n", id(n)] = (
            n.name,
            id(n.graph) if n.graph is not None else None,
            [id(v) if v is not None else None for v in n.inputs],
            [id(v) for v in n.outputs],
            [(v.producer() is n, v.index()) for v in n.outputs],
        )
    return snap


def tensor(name):
    return ir.tensor(np.array([1.0, 2.0], dtype=np.float32), name=name)


def build():
    x = ir.Value(name="x")
    w = ir.Value(name="w", const_value=tensor("w"))
    b = ir.Value(name="b", const_value=tensor("b"))
    n1 = ir.Node("", "Add", [x, w], name="n1")
    n2 = ir.Node("", "Mul", [n1.outputs[0], b], name="n2")
    g1 = ir.Graph([x, w], [n2.outputs[0]], nodes=[n1, n2], initializers=[w, b], name="g1")
    y = ir.Value(name="y")
    c = ir.Value(name="c", const_value=tensor("c"))
    m1 = ir.Node("", "Relu", [y], name="m1")
    g2 = ir.Graph([y], [m1.outputs[0]], nodes=[m1], initializers=[c], name="g2")
    return g1, g2, (x, w, b, y, c), (n1, n2, m1)


class World:
    def __init__(self):
        self.g1, self.g2, vals, self.nodes = build()
        self.x, self.w, self.b, self.y, self.c = vals
        self.extra: list[ir.Value] = []

    def values(self):
        out = [self.x, self.w, self.b, self.y, self.c, *self.extra]
        for n in self.nodes:
            out.extend(n.outputs)
        return out

    def snap(self):
        return snapshot([self.g1, self.g2], self.values(), self.nodes)


def expect_rejected(world, exc_type, call, fragment=None):
    before = world.snap()
    try:
        call()
    except exc_type as e:
        if type(e) is not exc_type:
            raise AssertionError(f"expected exactly {exc_type}, got {type(e)}") from e
        if fragment is not None:
            assert fragment in str(e), (fragment, str(e))
    else:
        raise AssertionError("the call was not rejected")
    after = world.snap()
    assert before == after, "a rejected call changed the IR"


def test_node_outputs():
    wd = World()
    n1, n2, m1 = wd.nodes
    produced = n1.outputs[0]
    fresh = [ir.Value(name=f"f{i}") for i in range(3)]
    wd.extra.extend(fresh)

    # a produced value at every position of the supplied outputs
    for pos in range(3):
        outs = list(fresh)
        outs[pos] = produced
        expect_rejected(
            wd,
            ValueError,
            lambda outs=outs: ir.Node("", "Split", [wd.x], outputs=outs),
            "cannot have a producer",
        )
    # None at every position
    for pos in range(3):
        outs = list(fresh)
        outs[pos] = None
        expect_rejected(
            wd, ValueError, lambda outs=outs: ir.Node("", "Split", [wd.x], outputs=outs),
            "cannot be None",
        )
    # None is reported before a produced value that comes later, and the reverse
    expect_rejected(
        wd, ValueError, lambda: ir.Node("", "Split", [wd.x], outputs=[fresh[0], None, produced]),
        "cannot be None",
    )
    expect_rejected(
        wd, ValueError, lambda: ir.Node("", "Split", [wd.x], outputs=[fresh[0], produced, None]),
        "cannot have a producer",
    )
    # duplicates (adjacent and far apart)
    expect_rejected(
        wd, ValueError, lambda: ir.Node("", "Split", [wd.x], outputs=[fresh[0], fresh[0]]),
        "more than once",
    )
    expect_rejected(
        wd, ValueError,
        lambda: ir.Node("", "Split", [wd.x], outputs=[fresh[0], fresh[1], fresh[0]]),
        "more than once",
    )
    # num_outputs that does not match comes first, also for an empty list
    expect_rejected(
        wd, ValueError,
        lambda: ir.Node("", "Split", [wd.x], outputs=[fresh[0], produced], num_outputs=3),
        "num_outputs must be the same",
    )
    expect_rejected(
        wd, ValueError, lambda: ir.Node("", "Split", [wd.x], outputs=[], num_outputs=1),
        "num_outputs must be the same",
    )
    # x got no new use from any of the rejected constructions
    assert [(u.node.name, u.idx) for u in wd.x.uses()] == [("n1", 0)]
    for f in fresh:
        assert f.producer() is None and f.index() is None and f.graph is None

    # accepted: supplied outputs (tuple and list), empty outputs, default and explicit counts
    node = ir.Node("", "Split", [wd.x], outputs=tuple(fresh), num_outputs=3)
    assert node.outputs == tuple(fresh)
    assert [(f.producer() is node, f.index()) for f in fresh] == [(True, 0), (True, 1), (True, 2)]
    assert ir.Node("", "Sink", [wd.x], outputs=[]).outputs == ()
    assert ir.Node("", "Sink", [wd.x], num_outputs=0).outputs == ()
    d = ir.Node("", "Relu", [wd.x])
    assert len(d.outputs) == 1 and d.outputs[0].producer() is d and d.outputs[0].index() == 0
    e = ir.Node("", "Split", [wd.x], num_outputs=2)
    assert [(v.producer() is e, v.index()) for v in e.outputs] == [(True, 0), (True, 1)]
    # the now-produced values are rejected for a second node
    expect_rejected(
        wd, ValueError, lambda: ir.Node("", "Split", [wd.x], outputs=[fresh[2]]),
        "cannot have a producer",
    )


def test_initializer_setitem():
    wd = World()
    g1, g2 = wd.g1, wd.g2
    n1 = wd.nodes[0]
    new = ir.Value(name="new", const_value=tensor("new"))
    unnamed = ir.Value(const_value=tensor(None))
    wd.extra.extend([new, unnamed])
    inits = g1.initializers

    expect_rejected(wd, TypeError, lambda: inits.__setitem__("k", "not a value"), "must be a Value")
    expect_rejected(wd, TypeError, lambda: inits.__setitem__("k", None), "must be a Value")
    # both wrong: the value is reported, not the key
    expect_rejected(wd, TypeError, lambda: inits.__setitem__(3, object()), "must be a Value")
    expect_rejected(wd, TypeError, lambda: inits.__setitem__(3, new), "must be a string")
    expect_rejected(wd, TypeError, lambda: inits.__setitem__(None, unnamed), "must be a string")
    expect_rejected(wd, ValueError, lambda: inits.__setitem__("", unnamed), "empty string")
    expect_rejected(wd, ValueError, lambda: inits.__setitem__("other", new), "does not match")
    # key of an existing entry, value with another name: old entry must stay owned
    expect_rejected(wd, ValueError, lambda: inits.__setitem__("w", new), "does not match")
    expect_rejected(
        wd, ValueError,
        lambda: inits.__setitem__(n1.outputs[0].name, n1.outputs[0]),
        "produced by a node",
    )
    # wrong key and produced: the key is reported
    expect_rejected(wd, ValueError, lambda: inits.__setitem__("zz", n1.outputs[0]), "does not match")
    # owned by the other graph (as initializer, as input, as output)
    expect_rejected(wd, ValueError, lambda: inits.__setitem__("c", wd.c), "different graph")
    expect_rejected(wd, ValueError, lambda: inits.add(wd.y), "different graph")
    expect_rejected(wd, TypeError, lambda: inits.add(unnamed), "must be a string")  # key None
    expect_rejected(wd, KeyError, lambda: inits.__delitem__("nope"))
    expect_rejected(wd, KeyError, lambda: inits.pop("nope"))
    expect_rejected(wd, ValueError, lambda: g1.register_initializer(unnamed), "must have a name")
    assert unnamed.name is None and unnamed.const_value.name is None

    # accepted calls
    inits["u"] = unnamed
    assert unnamed.name == "u" and unnamed.is_initializer() and unnamed.graph is g1
    inits.add(new)
    assert list(inits) == ["w", "b", "u", "new"]
    # replacing an entry by a value of the same name releases the old one
    b2 = ir.Value(name="b", const_value=tensor("b"))
    wd.extra.append(b2)
    inits["b"] = b2
    assert not wd.b.is_initializer() and wd.b.graph is None
    assert b2.is_initializer() and b2.graph is g1 and inits["b"] is b2
    # storing the same value again is a no-op in effect
    before = wd.snap()
    inits["b"] = b2
    assert wd.snap() == before
    # w is also a graph input: deleting the initializer keeps the graph reference
    del inits["w"]
    assert not wd.w.is_initializer() and wd.w.is_graph_input() and wd.w.graph is g1
    # u is nothing else: deleting releases it, and then the other graph may take it
    del inits["u"]
    assert unnamed.graph is None and not unnamed.is_initializer()
    g2.initializers.add(unnamed)
    assert unnamed.graph is g2
    expect_rejected(wd, ValueError, lambda: inits.add(unnamed), "different graph")
    # a rejected rename of an initializer (name collision, None, empty)
    expect_rejected(wd, ValueError, lambda: setattr(new, "name", "b"), "already exists")
    expect_rejected(wd, ValueError, lambda: setattr(new, "name", None))
    expect_rejected(wd, ValueError, lambda: setattr(new, "name", ""))


def test_initializer_update():
    wd = World()
    g1 = wd.g1
    n1 = wd.nodes[0]
    good = [ir.Value(name=f"i{k}", const_value=tensor(f"i{k}")) for k in range(3)]
    unnamed = ir.Value(const_value=tensor(None))
    wd.extra.extend([*good, unnamed])
    bad_items = [
        ("c", wd.c, ValueError),  # other graph
        (n1.outputs[0].name, n1.outputs[0], ValueError),  # produced
        ("wrong", ir.Value(name="right"), ValueError),  # key mismatch
        ("", unnamed, ValueError),  # empty key
        ("t", 5, TypeError),  # not a value
    ]
    for bad_key, bad_value, exc in bad_items:
        for pos in range(4):
            items = [(v.name, v) for v in good]
            items.insert(pos, (bad_key, bad_value))
            expect_rejected(wd, exc, lambda items=items: g1.initializers.update(items))
            expect_rejected(wd, exc, lambda items=items: g1.initializers.update(dict(items)))
    # one unnamed value under two keys
    expect_rejected(
        wd, ValueError, lambda: g1.initializers.update([("p", unnamed), ("q", unnamed)]),
        "two keys",
    )
    # a rejected constructor leaves the values free
    fresh_graph_values = [ir.Value(name="k0"), wd.c]
    wd.extra.append(fresh_graph_values[0])
    expect_rejected(
        wd, ValueError,
        lambda: ir.Graph([], [], nodes=[], initializers=fresh_graph_values),
        "different graph",
    )
    # empty update, then an accepted one
    before = wd.snap()
    g1.initializers.update({})
    g1.initializers.update([])
    assert wd.snap() == before
    g1.initializers.update([(v.name, v) for v in good], p=unnamed)
    assert list(g1.initializers) == ["w", "b", "i0", "i1", "i2", "p"]
    assert unnamed.name == "p" and all(v.graph is g1 and v.is_initializer() for v in good)


def main():
    test_node_outputs()
    test_initializer_setitem()
    test_initializer_update()
    print("C06 demo OK")


if __name__ == "__main__":
    main()
