"""Demo for C07: external-data save/load keeps every initializer; layout well formed.

Exercises ir.save / ir.load and external_data.unload_from_model / load_to_model
(classification of initializers by threshold, assignment of the new tensors),
with initializers in the main graph and in subgraphs, a duplicated tensor object,
a zero-size tensor, a lazy tensor, an already-external tensor, an initializer whose
const_value was cleared, and rejected calls.
"""

from __future__ import annotations

import itertools
import os
import sys
import tempfile

import numpy as np

import onnx_ir as ir
from onnx_ir import external_data

failures: list[str] = []


def check(cond: bool, msg: str) -> None:
    if not cond:
        failures.append(msg)
        print("FAIL:", msg)


def _init(name: str, tensor) -> ir.Value:
    return ir.Value(
        name=name,
        shape=tensor.shape,
        type=ir.TensorType(tensor.dtype),
        const_value=tensor,
    )


def make_model(with_cleared: bool = False):
    rng = np.random.default_rng(7)
    big = ir.tensor(rng.standard_normal((40, 10)).astype(np.float32), name="big")  # 1600 B
    mid = ir.tensor(rng.integers(0, 100, size=(75,), dtype=np.int64), name="mid")  # 600 B
    small = ir.tensor(np.array([1, 2, 3], dtype=np.int32), name="small")  # 12 B
    empty = ir.tensor(np.zeros((0, 4), dtype=np.float32), name="empty")  # 0 B
    lazy_arr = rng.standard_normal((128,)).astype(np.float16)  # 256 B
    lazy = ir.LazyTensor(
        lambda: ir.tensor(lazy_arr), dtype=ir.DataType.FLOAT16, shape=ir.Shape([128]), name="lazy"
    )
    shared = ir.tensor(rng.standard_normal((100,)).astype(np.float32), name="shared")  # 400 B
    sub_w = ir.tensor(rng.standard_normal((9, 9)).astype(np.float64), name="sub_w")  # 648 B
    sub_small = ir.tensor(np.array([5], dtype=np.uint8), name="sub_small")  # 1 B

    # Subgraphs of an If node, each with its own initializers
    v_sub_w = _init("sub_w", sub_w)
    v_sub_small = _init("sub_small", sub_small)
    then_node = ir.Node("", "Identity", inputs=[v_sub_w])
    then_graph = ir.Graph(
        inputs=[], outputs=then_node.outputs, nodes=[then_node],
        initializers=[v_sub_w, v_sub_small], name="then",
    )
    v_shared_else = _init("shared_else", shared)  # the very same tensor object as "shared_a"
    else_node = ir.Node("", "Identity", inputs=[v_shared_else])
    else_graph = ir.Graph(
        inputs=[], outputs=else_node.outputs, nodes=[else_node],
        initializers=[v_shared_else], name="else",
    )

    cond = ir.Value(name="cond", shape=ir.Shape([]), type=ir.TensorType(ir.DataType.BOOL))
    values = [
        _init("big", big),
        _init("small", small),
        _init("mid", mid),
        _init("empty", empty),
        _init("lazy", lazy),
        _init("shared_a", shared),
    ]
    if_node = ir.Node(
        "", "If", inputs=[cond],
        attributes=[ir.AttrGraph("then_branch", then_graph), ir.AttrGraph("else_branch", else_graph)],
    )
    add = ir.Node("", "Add", inputs=[values[0], values[0]])
    graph = ir.Graph(
        inputs=[cond], outputs=[add.outputs[0], if_node.outputs[0]], nodes=[add, if_node],
        initializers=values, name="main", opset_imports={"": 20},
    )
    if with_cleared:
        cleared = _init("cleared", ir.tensor(np.ones((500,), dtype=np.float32), name="cleared"))
        graph.register_initializer(cleared)
        cleared.const_value = None  # an initializer value without a tensor
    return ir.Model(graph, ir_version=10)


def snapshot(model):
    """(graph name, initializer name) -> (Value, tensor object, name, dtype, shape, bytes)."""
    snap = {}
    for graph in model.graphs():
        for name, value in graph.initializers.items():
            t = value.const_value
            if t is None:
                snap[(graph.name, name)] = (value, None, None, None, None, None)
            else:
                snap[(graph.name, name)] = (
                    value, t, name, t.dtype, tuple(t.shape.numpy()), t.tobytes()
                )
    return snap


def check_same_objects(model, snap, label):
    now = {(g.name, n): v for g in model.graphs() for n, v in g.initializers.items()}
    check(list(now) == list(snap), f"{label}: initializer keys/order changed")
    for key, (value, tensor, *_rest) in snap.items():
        check(now[key] is value, f"{label}: Value object replaced for {key}")
        check(now[key].const_value is tensor, f"{label}: tensor object changed for {key}")


def check_loaded(path, snap, threshold, alignment, align_threshold, max_shard, label):
    loaded = ir.load(path)
    got = {}
    for graph in loaded.graphs():
        for name, value in graph.initializers.items():
            got[(graph.name, name)] = value.const_value
    expected_keys = [k for k, s in snap.items() if s[1] is not None]
    check(sorted(got) == sorted(expected_keys), f"{label}: initializer set differs {sorted(got)}")
    per_file: dict[str, list] = {}
    for key in expected_keys:
        _, _, name, dtype, shape, data = snap[key]
        t = got.get(key)
        if t is None:
            continue
        check(t.name == name, f"{label}: name {key}")
        check(t.dtype == dtype, f"{label}: dtype {key}")
        check(tuple(t.shape.numpy()) == shape, f"{label}: shape {key}")
        check(t.tobytes() == data, f"{label}: bytes {key}")
        is_ext = isinstance(t, ir.ExternalTensor)
        check(is_ext == (len(data) > threshold), f"{label}: {key} external={is_ext} nbytes={len(data)}")
        if is_ext:
            per_file.setdefault(t.location, []).append((t.offset, t.length, key))
    base = os.path.dirname(path)
    for location, ranges in per_file.items():
        size = os.path.getsize(os.path.join(base, location))
        end = 0
        for offset, length, key in ranges:  # declaration order
            check(offset >= end, f"{label}: {key} overlaps / out of order in {location}")
            check(offset + length <= size, f"{label}: {key} beyond end of {location}")
            if alignment is not None and length > align_threshold:
                check(offset % max(4096, alignment) == 0, f"{label}: {key} not aligned")
            if alignment is None:
                check(offset == end, f"{label}: {key} not densely packed")
            end = offset + length
        if max_shard is not None:
            check(end <= max_shard or len(ranges) == 1, f"{label}: shard {location} over limit")
    if max_shard is None:
        check(len(per_file) <= 1, f"{label}: more than one data file")
    return loaded


def main() -> int:
    combos = itertools.product(
        [0, 256, 600, 10_000],  # threshold
        [(None, 0), (4096, 500), (8192, 0)],  # alignment, align_threshold
        [None, 1000, 5000],  # max shard size
        [None, 3],  # max workers
    )
    for threshold, (alignment, align_threshold), max_shard, workers in combos:
        label = f"thr={threshold} al={alignment}/{align_threshold} shard={max_shard} w={workers}"
        with tempfile.TemporaryDirectory() as tmp:
            os.makedirs(os.path.join(tmp, "out", "weights"))
            # dotted stem, and a sub-directory for the parallel runs
            data_name = os.path.join("weights", "m.v1.data") if workers else "m.v1.data"
            model = make_model(with_cleared=(threshold == 256))
            snap = snapshot(model)
            seen = []
            path = os.path.join(tmp, "out", "m.v1.onnx")
            ir.save(
                model, path, external_data=data_name,
                size_threshold_bytes=threshold, max_shard_size_bytes=max_shard,
                max_workers=workers, alignment=alignment, align_threshold=align_threshold,
                callback=lambda t, info: seen.append((info.index, info.total)),
            )
            check_same_objects(model, snap, label + " after save")
            n_ext = sum(1 for s in snap.values() if s[1] is not None and len(s[5]) > threshold)
            check(sorted(i for i, _ in seen) == list(range(n_ext)), f"{label}: callback indices {seen}")
            check(all(total == n_ext for _, total in seen), f"{label}: callback totals")
            loaded = check_loaded(path, snap, threshold, alignment, align_threshold, max_shard, label)

            # Second generation: the loaded model has already-external initializers.
            # Re-save with a different threshold so some become inline and others stay external.
            snap2 = snapshot(loaded)
            path2 = os.path.join(tmp, "out", "again.onnx")
            ir.save(loaded, path2, external_data="again.data", size_threshold_bytes=500,
                    max_workers=workers, alignment=alignment, align_threshold=align_threshold)
            check_same_objects(loaded, snap2, label + " after re-save")
            check_loaded(path2, snap2, 500, alignment, align_threshold, None, label + " re-save")

            # load_to_model: every external initializer becomes an in-memory tensor, in place.
            reloaded = ir.load(path2)
            before = snapshot(reloaded)
            ret = external_data.load_to_model(reloaded)
            check(ret is reloaded, f"{label}: load_to_model must return the model")
            for key, (value, tensor, name, dtype, shape, data) in before.items():
                t = value.const_value
                check(not isinstance(t, ir.ExternalTensor), f"{label}: {key} still external")
                check(isinstance(tensor, ir.ExternalTensor) or t is tensor,
                      f"{label}: in-memory tensor {key} was replaced by load_to_model")
                check((t.name, t.dtype, tuple(t.shape.numpy()), t.tobytes()) == (name, dtype, shape, data),
                      f"{label}: load_to_model changed {key}")

    # unload_from_model works in place: mixture of external (above) and loaded-to-memory (below).
    with tempfile.TemporaryDirectory() as tmp:
        model = make_model(with_cleared=True)
        snap = snapshot(model)
        ir.save(model, os.path.join(tmp, "a.onnx"), external_data="a.data", size_threshold_bytes=0)
        loaded = ir.load(os.path.join(tmp, "a.onnx"))
        snap_l = snapshot(loaded)
        ret = external_data.unload_from_model(loaded, tmp, "b.data", size_threshold_bytes=600)
        check(ret is loaded, "unload_from_model must return the model")
        for key, (value, tensor, name, dtype, shape, data) in snap_l.items():
            t = value.const_value
            if len(data) > 600:
                check(isinstance(t, ir.ExternalTensor) and t.location == "b.data", f"unload: {key} not in b.data")
            elif isinstance(tensor, ir.ExternalTensor):
                check(type(t) is ir.Tensor, f"unload: {key} should have been loaded to memory")
            else:
                check(t is tensor, f"unload: in-memory small tensor {key} must be untouched")
            check((t.name, t.dtype, tuple(t.shape.numpy()), t.tobytes()) == (name, dtype, shape, data),
                  f"unload: {key} content changed")
        # the initializer whose tensor was cleared is neither written nor given a tensor
        check(model.graph.initializers["cleared"].const_value is None, "cleared initializer got a tensor")
        check(("main", "cleared") not in snap_l, "cleared initializer was serialized")

    # Rejected calls: the model keeps the same tensor objects and nothing is written.
    with tempfile.TemporaryDirectory() as tmp:
        model = make_model(with_cleared=True)
        snap = snapshot(model)
        path = os.path.join(tmp, "r.onnx")
        for kwargs, exc in [
            (dict(external_data="r.data", alignment=0), ValueError),
            (dict(external_data="r.data", max_workers=0), ValueError),
            (dict(external_data="r.data", max_shard_size_bytes=0), ValueError),
            (dict(external_data="r.data", align_threshold=-1), ValueError),
            (dict(external_data=os.path.join(tmp, "abs.data")), ValueError),
            (dict(max_shard_size_bytes=100), ValueError),
        ]:
            try:
                ir.save(model, path, **kwargs)
            except exc:
                pass
            else:
                check(False, f"save({kwargs}) was not rejected")
            check_same_objects(model, snap, f"rejected {kwargs}")
            check(os.listdir(tmp) == [], f"rejected {kwargs}: files left {os.listdir(tmp)}")

        # Sharded save refuses to overwrite an existing shard: FileExistsError, model untouched.
        ir.save(model, path, external_data="r.data", size_threshold_bytes=0, max_shard_size_bytes=1000)
        check_same_objects(model, snap, "first sharded save")
        files = sorted(os.listdir(tmp))
        try:
            ir.save(model, path, external_data="r.data", size_threshold_bytes=0, max_shard_size_bytes=1000)
        except FileExistsError:
            pass
        else:
            check(False, "second sharded save must raise FileExistsError")
        check_same_objects(model, snap, "after FileExistsError")
        check(sorted(os.listdir(tmp)) == files, "FileExistsError path changed the directory")

        # A callback that raises half-way: save raises, the model still holds its tensors.
        def boom(tensor, info):
            if info.index == 2:
                raise RuntimeError("boom")

        try:
            ir.save(model, os.path.join(tmp, "x.onnx"), external_data="x.data",
                    size_threshold_bytes=0, callback=boom)
        except RuntimeError:
            pass
        else:
            check(False, "raising callback must propagate")
        check_same_objects(model, snap, "after raising callback")
        check(not os.path.exists(os.path.join(tmp, "x.data")), "x.data left behind after failure")

    # Empty model (no initializers at all)
    with tempfile.TemporaryDirectory() as tmp:
        x = ir.Value(name="x", shape=ir.Shape([1]), type=ir.TensorType(ir.DataType.FLOAT))
        node = ir.Node("", "Identity", inputs=[x])
        model = ir.Model(
            ir.Graph(inputs=[x], outputs=node.outputs, nodes=[node], name="g", opset_imports={"": 20}),
            ir_version=10,
        )
        ir.save(model, os.path.join(tmp, "e.onnx"), external_data="e.data", max_workers=4)
        loaded = ir.load(os.path.join(tmp, "e.onnx"))
        check(len(loaded.graph.initializers) == 0, "empty model grew initializers")
        check(external_data.load_to_model(loaded) is loaded, "load_to_model on empty model")

    if failures:
        print(f"{len(failures)} failure(s)")
        return 1
    print("OK")
    return 0


if __name__ == "__main__":
    sys.exit(main())
