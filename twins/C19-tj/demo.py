"""Demo for C19: device annotations follow object identity and never dangle."""
import onnx_ir as ir
from onnx_ir import _multi_device
from onnx_ir import serde


def check(model):
    errs = _multi_device._check_device_configurations(model)
    assert errs == [], errs
    for node in model.graph.all_nodes():
        io = [v for v in (*node.inputs, *node.outputs) if v is not None]
        for cfg in node.device_configurations:
            assert any(cfg.configuration is c for c in model.device_configurations)
            for spec in cfg.sharding_specs:
                assert any(spec.value is v for v in io), spec


def expect_rejected(node, fn):
    before = node.device_configurations
    try:
        fn()
    except ValueError:
        pass
    else:
        raise AssertionError("expected ValueError")
    assert node.device_configurations is before, "rejected call had an effect"


def build():
    x = ir.Value(name="x", shape=ir.Shape([4, 8]), type=ir.TensorType(ir.DataType.FLOAT))
    w = ir.Value(name="w", shape=ir.Shape([8, 8]), type=ir.TensorType(ir.DataType.FLOAT))
    u = ir.Value(name="u", type=ir.TensorType(ir.DataType.FLOAT))  # unknown rank
    # x is used twice on purpose (duplicate input)
    n = ir.Node("", "Sum", [x, x, w, u], num_outputs=2, name="n")
    n.outputs[0].name = "y0"
    n.outputs[1].name = "y1"
    n.outputs[0].shape = ir.Shape([4, 8])
    n.outputs[0].type = ir.TensorType(ir.DataType.FLOAT)
    n.outputs[1].type = ir.TensorType(ir.DataType.FLOAT)
    g = ir.Graph([x, w, u], [n.outputs[0]], nodes=[n], name="g", opset_imports={"": 21})
    return ir.Model(g, ir_version=11), n, x, w, u


model, n, x, w, u = build()
a = model.add_device_configuration("A", device_names=("d0", "d1"))
b = model.add_device_configuration("B", num_devices=4)

# --- annotate ------------------------------------------------------------
n.shard(x, configuration=a, axis=-1, num_shards=2, device_indices=(0, 1))
n.shard(x, configuration=a, axis=0, num_shards=2, device_indices=(1, 0), pipeline_stage=1)
n.shard(w, configuration=a, axis=1, num_shards=2)
n.shard(u, configuration=b, axis=-3, num_shards=4)  # unknown rank: any axis accepted
n.shard(n.outputs[1], configuration=b, axis=0, num_shards=2)
n.shard(n.outputs[1], configuration=a, axis=0, num_shards=2)
n.set_pipeline_stage(b, 3)
check(model)
(spec_x,) = n.sharding_of(x)
assert spec_x.device == (0, 1) and [d.axis for d in spec_x.sharded_dims] == [-1, 0]
assert n.sharding_of(ir.Value(name="stranger")) == ()
assert len(n.sharding_of(n.outputs[1])) == 2

# --- rejected requests have no effect -----------------------------------
expect_rejected(n, lambda: n.shard(x, configuration=a, axis=1, num_shards=2))   # -1 == 1, repeated
expect_rejected(n, lambda: n.shard(x, configuration=a, axis=2, num_shards=2))   # out of range
expect_rejected(n, lambda: n.shard(x, configuration=a, axis=-3, num_shards=2))  # out of range
expect_rejected(n, lambda: n.shard(w, configuration=a, axis=0, num_shards=0))   # < 1 shard
expect_rejected(n, lambda: n.shard(w, configuration=a, axis=0, num_shards=2, pipeline_stage=2))
expect_rejected(n, lambda: n.shard(u, configuration=b, axis=-3, num_shards=2))  # repeated, unknown rank
expect_rejected(n, lambda: n.shard(ir.Value(name="stranger"), configuration=a, axis=0, num_shards=2))
expect_rejected(n, lambda: n.shard(None, configuration=a, axis=0, num_shards=2))
expect_rejected(n, lambda: n.set_pipeline_stage(a, -1))
check(model)

# --- replacing one of two duplicate uses keeps the annotation ------------
z = ir.Value(name="z", shape=ir.Shape([4, 8]), type=ir.TensorType(ir.DataType.FLOAT))
model.graph.inputs.append(z)
before = n.device_configurations
n.replace_input_with(0, z)
assert n.device_configurations is before and n.sharding_of(x) == (spec_x,)
n.replace_input_with(1, x)  # same value: no-op for annotations
assert n.device_configurations is before
n.replace_input_with(1, z)  # x is gone now
assert n.sharding_of(x) == ()
assert n.sharding_of(w) != () and n.device_configurations[0].pipeline_stage == 1
check(model)
# replacing with None, for a value that has no annotation
n.replace_input_with(0, None)
check(model)

# --- resizing outputs drops annotations in *every* configuration ---------
y1 = n.outputs[1]
n.resize_outputs(1)
assert n.sharding_of(y1) == ()
assert [c.configuration.name for c in n.device_configurations] == ["A", "B"]  # configs stay
assert n.device_configurations[1].pipeline_stage == 3
n.resize_outputs(3)
n.outputs[1].name, n.outputs[2].name = "y1b", "y2"
check(model)

# --- rename, round trip, clone ------------------------------------------
w.name = "w_renamed"
u.name = "u_renamed"
proto = serde.serialize_model(model)
names = sorted(
    s.tensor_name for nd in proto.graph.node for c in nd.device_configurations for s in c.sharding_spec
)
assert names == ["u_renamed", "w_renamed"], names
model2 = serde.deserialize_model(proto)
check(model2)
n2 = model2.graph.node(0) if hasattr(model2.graph, "node") else list(model2.graph)[0]
assert [s.value.name for c in n2.device_configurations for s in c.sharding_specs] == [
    "w_renamed",
    "u_renamed",
]
model3 = model.clone()
check(model3)
n3 = list(model3.graph)[0]
assert all(s.value is not w and s.value is not u for c in n3.device_configurations for s in c.sharding_specs)
n3.replace_input_with(2, None)  # drops w's clone on the clone only
assert n.sharding_of(w) != ()
check(model3)
check(model)

# --- cascade removal -----------------------------------------------------
removed = model.remove_device_configuration("A", cascade=True)
assert removed is a
assert [c.configuration for c in n.device_configurations] == [b]
check(model)
try:
    model.remove_device_configuration(a)
except ValueError:
    pass
else:
    raise AssertionError
# node without any annotation: drop is a no-op
bare = ir.Node("", "Relu", [x], name="bare")
bare.replace_input_with(0, None)
assert bare.device_configurations == ()
print("OK")
