"""Shared fact extraction over function bodies: field writes, mutating calls, raises."""

from __future__ import annotations

import ast
from typing import Iterator

from .index import FuncInfo, dotted_of, own_nodes

# builtin list/dict/set/deque/Counter methods that change the receiver
CONTAINER_MUTATORS = {
    "append", "extend", "insert", "pop", "remove", "clear", "update", "popitem", "setdefault",
    "add", "discard", "sort", "reverse", "appendleft", "popleft", "subtract", "move_to_end",
    "__setitem__", "__delitem__", "__iadd__", "__imul__", "__ior__",
}  # fmt: skip
# ... of which these keep the multiset of elements (permutations only)
MULTISET_PRESERVING = {"sort", "reverse"}


class Write:
    """A write through an attribute: ``recv.field = …``, ``recv.field[k] = …``,
    ``del recv.field[k]``, ``recv.field += …``, ``recv.field.append(…)``."""

    __slots__ = ("kind", "attr", "stmt", "method", "call")

    def __init__(self, kind, attr: ast.Attribute, stmt, method=None, call=None):
        self.kind = kind  # 'store' | 'aug' | 'del' | 'substore' | 'subdel' | 'subaug' | 'mutcall'
        self.attr = attr  # the Attribute node naming the field (attr.value is the receiver)
        self.stmt = stmt
        self.method = method
        self.call = call

    @property
    def field(self) -> str:
        return self.attr.attr

    @property
    def recv(self) -> ast.expr:
        return self.attr.value


def _targets(n: ast.AST):
    if isinstance(n, ast.Assign):
        return [(t, "store") for t in n.targets]
    if isinstance(n, ast.AnnAssign):
        return [(n.target, "store")] if n.value is not None else []
    if isinstance(n, ast.AugAssign):
        return [(n.target, "aug")]
    if isinstance(n, ast.Delete):
        return [(t, "del") for t in n.targets]
    if isinstance(n, (ast.For, ast.AsyncFor)):
        return [(n.target, "store")]
    if isinstance(n, (ast.With, ast.AsyncWith)):
        return [(i.optional_vars, "store") for i in n.items if i.optional_vars is not None]
    if isinstance(n, ast.NamedExpr):
        return [(n.target, "store")]
    return []


def _flatten(t):
    if isinstance(t, (ast.Tuple, ast.List)):
        for e in t.elts:
            yield from _flatten(e)
    elif isinstance(t, ast.Starred):
        yield from _flatten(t.value)
    else:
        yield t


def field_writes(f: FuncInfo) -> Iterator[Write]:
    """All attribute-mediated writes in the function's own body."""
    for n in own_nodes(f.node):
        for tgt, kind in _targets(n):
            for t in _flatten(tgt):
                if isinstance(t, ast.Attribute):
                    yield Write(kind, t, n)
                elif isinstance(t, ast.Subscript):
                    base = t.value
                    while isinstance(base, ast.Subscript):
                        base = base.value
                    if isinstance(base, ast.Attribute):
                        yield Write("sub" + kind, base, n)
        if isinstance(n, ast.Call) and isinstance(n.func, ast.Attribute):
            if n.func.attr in CONTAINER_MUTATORS and isinstance(n.func.value, ast.Attribute):
                yield Write("mutcall", n.func.value, n, method=n.func.attr, call=n)


def name_writes(f: FuncInfo) -> Iterator[tuple[str, ast.Name, ast.AST, str | None]]:
    """Writes through a bare local name: ``x[k] = …``, ``del x[k]``, ``x.append(…)``."""
    for n in own_nodes(f.node):
        for tgt, kind in _targets(n):
            for t in _flatten(tgt):
                if isinstance(t, ast.Subscript):
                    base = t.value
                    while isinstance(base, ast.Subscript):
                        base = base.value
                    if isinstance(base, ast.Name):
                        yield "sub" + kind, base, n, None
        if isinstance(n, ast.Call) and isinstance(n.func, ast.Attribute):
            if n.func.attr in CONTAINER_MUTATORS and isinstance(n.func.value, ast.Name):
                yield "mutcall", n.func.value, n, n.func.attr


def calls_in(f_or_node) -> Iterator[ast.Call]:
    node = f_or_node.node if isinstance(f_or_node, FuncInfo) else f_or_node
    for n in own_nodes(node):
        if isinstance(n, ast.Call):
            yield n


def is_self_call(call: ast.Call, name: str, selfname: str = "self") -> bool:
    fn = call.func
    return (
        isinstance(fn, ast.Attribute)
        and fn.attr == name
        and isinstance(fn.value, ast.Name)
        and fn.value.id == selfname
    )


def is_super_call(call: ast.Call, name: str | None = None) -> bool:
    fn = call.func
    return (
        isinstance(fn, ast.Attribute)
        and isinstance(fn.value, ast.Call)
        and dotted_of(fn.value.func) == "super"
        and (name is None or fn.attr == name)
    )


def stmt_of(node: ast.AST) -> ast.stmt:
    """Innermost enclosing statement of an AST node."""
    n = node
    while n is not None and not isinstance(n, ast.stmt):
        n = getattr(n, "_parent", None)
    return n


def enclosing(node: ast.AST, kinds) -> ast.AST | None:
    n = getattr(node, "_parent", None)
    while n is not None:
        if isinstance(n, kinds):
            return n
        if isinstance(n, (ast.FunctionDef, ast.AsyncFunctionDef, ast.Lambda, ast.ClassDef)):
            return None
        n = getattr(n, "_parent", None)
    return None


def ancestors(node: ast.AST):
    n = getattr(node, "_parent", None)
    while n is not None and not isinstance(n, (ast.FunctionDef, ast.AsyncFunctionDef, ast.ClassDef)):
        yield n
        n = getattr(n, "_parent", None)


def in_debug_guard(node: ast.AST) -> bool:
    """Control-dependent on ``onnx_ir.DEBUG`` being true (debug-only assertions)."""
    child = node
    for a in ancestors(node):
        if isinstance(a, ast.If) and _mentions_debug(a.test) and child in a.body:
            neg = isinstance(a.test, ast.UnaryOp) and isinstance(a.test.op, ast.Not)
            if not neg:
                return True
        child = a
    return False


def _mentions_debug(e: ast.AST) -> bool:
    return any((dotted_of(x) or "").endswith("DEBUG") for x in ast.walk(e) if isinstance(x, (ast.Attribute, ast.Name)))


def after_debug_return(f: FuncInfo, node: ast.AST) -> bool:
    """Statement follows an ``if not onnx_ir.DEBUG: return`` at function top level."""
    if isinstance(f.node, ast.Lambda):
        return False
    st = stmt_of(node)
    top = st
    while getattr(top, "_parent", None) is not f.node and getattr(top, "_parent", None) is not None:
        top = top._parent
    for s in f.node.body:
        if s is top:
            return False
        if (
            isinstance(s, ast.If)
            and isinstance(s.test, ast.UnaryOp)
            and isinstance(s.test.op, ast.Not)
            and _mentions_debug(s.test.operand)
            and len(s.body) == 1
            and isinstance(s.body[0], ast.Return)
        ):
            return True
    return False
