"""Anchors located by role instead of by name.

A handful of private functions of the package are anchors of rules (a rule says something *about* them, so they cannot be
expanded away by the normal form of sa/inline.py).  Most are found by their name, which the rule sources mention; a private
name is free to change, though, so the anchors listed here are recognised by what they do.  A function that plays a role is
opaque to the expansion (it stays a function, its callers keep calling it) and the rules ask `find(repo, role)` for it.

The predicates are syntactic and monotone under expansion: expanding a transparent helper into a role function only adds
statements, and since the role function itself is never expanded into its callers no other function acquires the role.
"""
from __future__ import annotations

import ast

from .index import FuncInfo, own_nodes


def _graph_adoption_hook(f: FuncInfo) -> bool:
    """Private method of onnx_ir._core:Graph that takes ownership of a node handed to it: `<param>.graph = self`."""
    if f.cls is None or f.cls.name != "Graph" or f.module.name != "onnx_ir._core" or not f.name.startswith("_") or f.name.startswith("__"):
        return False
    if not isinstance(f.node, ast.FunctionDef) or f.parent is not None:
        return False
    params = set(f.params[1:])
    for n in own_nodes(f.node):
        if isinstance(n, ast.Assign) and len(n.targets) == 1 and isinstance(n.targets[0], ast.Attribute) and n.targets[0].attr == "graph" \
                and isinstance(n.targets[0].value, ast.Name) and n.targets[0].value.id in params \
                and isinstance(n.value, ast.Name) and n.value.id == "self":
            return True
    return False


ROLES = {
    "graph-adoption-hook": _graph_adoption_hook,
}


def role_of(f: FuncInfo) -> str | None:
    for name, pred in ROLES.items():
        try:
            if pred(f):
                return name
        except AttributeError:
            continue
    return None


def find(repo, role: str) -> list[FuncInfo]:
    cache = repo.__dict__.setdefault("_roles", {})
    if role not in cache:
        pred = ROLES[role]
        out = []
        for m in repo.pkg_modules():
            for f in m.all_funcs:
                try:
                    if pred(f):
                        out.append(f)
                except AttributeError:
                    continue
        cache[role] = sorted(out, key=lambda f: f.key)
    return cache[role]
