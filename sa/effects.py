"""E5 — effect summaries (mods / rejections / file-system effects) and per-function event streams.

Events, in evaluation order inside each CFG node:
  M  a write to state that is not fresh in the function (attribute/subscript store, mutating
     container call, or a call whose callee summary has such writes on objects the caller passes)
  C  a point that can reject: an explicit ``raise`` (not debug-only, not caught locally), or a call
     whose callee summary can reject
A callee that checks and then mutates contributes ``C`` then ``M`` at its call site.
"""

from __future__ import annotations

import ast

from .cfg import CFG
from .facts import CONTAINER_MUTATORS, MULTISET_PRESERVING, after_debug_return, in_debug_guard
from .index import ClassInfo, FuncInfo, Repo, dotted_of, norm
from .types import Typer

# fields that are caches / lazily created and not observable through the public API
CACHE_FIELDS = {
    "_metadata": "lazily created MetadataStore (meta getter)",
    "_metadata_props": "lazily created dict (metadata_props getter returns {} either way)",
    "_expr_cache": "SymbolicDim parse cache",
    "_array": "ExternalTensor mmap-backed array cache",
    "raw": "ExternalTensor mmap handle cache",
    "_tensor": "LazyTensor evaluation cache",
}

FS_PRIMS = {
    # name -> kind
    "open": "content", "io.open": "content", "os.open": "content", "mmap.mmap": "content",
    "np.fromfile": "content", "np.memmap": "content", "np.load": "content", "np.save": "write",
    "numpy.fromfile": "content", "numpy.memmap": "content",
    "os.stat": "stat", "os.lstat": "stat", "os.fstat": "stat", "os.path.exists": "stat", "os.path.isfile": "stat",
    "os.path.isdir": "stat", "os.path.islink": "stat", "os.path.realpath": "stat", "os.path.samefile": "stat",
    "os.path.getsize": "stat", "os.listdir": "stat", "os.scandir": "stat", "os.access": "stat", "os.getcwd": "stat",
    "os.path.abspath": "stat",
    "os.remove": "write", "os.unlink": "write", "os.replace": "write", "os.rename": "write", "os.rmdir": "write",
    "os.makedirs": "write", "os.mkdir": "write", "os.truncate": "write",
    "tempfile.mkdtemp": "write", "tempfile.mkstemp": "write", "tempfile.NamedTemporaryFile": "write",
    "tempfile.TemporaryDirectory": "write",
    "shutil.copy": "write", "shutil.copyfile": "write", "shutil.copymode": "write", "shutil.move": "write",
    "shutil.rmtree": "write", "shutil.copy2": "write",
    "onnx.load": "content", "onnx.load_model": "content", "onnx.save": "write", "onnx.save_model": "write",
    "onnx.load_external_data_for_model": "content",
    "safetensors.safe_open": "content", "safetensors.numpy.load_file": "content", "safetensors.numpy.save_file": "write",
    "safetensors.serialize_file": "write", "safetensors.torch.load_file": "content",
}  # fmt: skip

BUILTIN_REJECTING_METHODS = {"remove": "value not present", "index": "value not present"}


class Rej:
    """A rejection point: the function whose ``raise`` it is and its path condition."""

    __slots__ = ("origin", "cond", "exc", "node", "via")

    def __init__(self, origin: str, cond: str, exc: str, node=None, via=()):
        self.origin = origin
        self.cond = cond
        self.exc = exc
        self.node = node
        self.via = tuple(via)

    @property
    def key(self) -> str:
        return f"{self.origin.split(':', 1)[1]}: {self.cond}"

    def __repr__(self):
        return f"Rej({self.key})"


class Event:
    __slots__ = ("kind", "node", "desc", "rejs", "loop", "callee", "tags", "fields", "qfields", "late")

    def __init__(self, kind, node, desc, rejs=(), loop=False, callee=None, tags=(), fields=(), qfields=()):
        self.kind = kind  # 'M' | 'C'
        self.node = node
        self.desc = desc
        self.rejs = tuple(rejs)
        self.loop = loop
        self.callee = callee
        self.tags = frozenset(tags)  # root tags of the objects written (M events)
        self.fields = frozenset(fields)
        self.qfields = frozenset(qfields)  # "Class.field" where the receiver's class is known
        self.late = False  # synthetic: the callee of an M event can itself reject after writing

    def __repr__(self):
        return f"{self.kind}<{self.desc}>"


class Summary:
    def __init__(self):
        self.mods: set[tuple[str, str]] = set()  # (root tag, field)
        self.qmods: set[tuple[str, str]] = set()  # (root tag, "Class.field")
        self.rejs: dict[str, Rej] = {}
        self.fs: dict[str, str] = {}  # primitive -> kind
        self.fs_via: dict[str, str] = {}
        self.dirty: list = []  # [(M event, C event)] inside this function

    def sig(self):
        return (len(self.mods), len(self.rejs), len(self.fs), len(self.qmods))


_LOCALS_CACHE: dict[int, dict[str, str]] = {}


def _local_map(fn_node) -> dict[str, str]:
    """{local name: $rank} for the locals of a function (parameters and globals excluded) - see sa/canon.py."""
    m = getattr(fn_node, "_sa_local_map", None)  # cached on the node itself: ids are reused once a tree is freed
    if m is not None:
        return m
    params: set[str] = set()
    a = getattr(fn_node, "args", None)
    if a is not None:
        params = {x.arg for x in a.posonlyargs + a.args + a.kwonlyargs}
        if a.vararg:
            params.add(a.vararg.arg)
        if a.kwarg:
            params.add(a.kwarg.arg)
    order: list[str] = []
    skip: set[str] = set()

    def visit(n):
        for c in ast.iter_child_nodes(n):
            if isinstance(c, (ast.FunctionDef, ast.AsyncFunctionDef, ast.Lambda, ast.ClassDef)):
                continue
            if isinstance(c, (ast.Global, ast.Nonlocal)):
                skip.update(c.names)
            if isinstance(c, ast.Name) and isinstance(c.ctx, (ast.Store, ast.Del)) and c.id not in order:
                order.append(c.id)
            visit(c)

    visit(fn_node)
    m = {n: f"${k}" for k, n in enumerate(x for x in order if x not in params and x not in skip)}
    # parameters of a private function (underscore name, not a dunder) are free to be renamed as well: $p<i> by position
    fname = getattr(fn_node, "name", "")
    if a is not None and fname.startswith("_") and not (fname.startswith("__") and fname.endswith("__")):
        for i, x in enumerate(a.posonlyargs + a.args + a.kwonlyargs):
            if x.arg not in ("self", "cls"):
                m[x.arg] = f"$p{i}"
    try:
        fn_node._sa_local_map = m
    except AttributeError:
        pass
    return m


def _conditionally_evaluated(x: ast.AST, stmt: ast.AST) -> bool:
    """x sits in a part of stmt that is not evaluated every time stmt is (later operand of and/or, conditional
    expression branch, lambda or comprehension body)."""
    child, p = x, getattr(x, "_parent", None)
    while p is not None and child is not stmt:
        if isinstance(p, ast.BoolOp) and p.values and p.values[0] is not child:
            return True
        if isinstance(p, ast.IfExp) and child is not p.test:
            return True
        if isinstance(p, (ast.Lambda, ast.ListComp, ast.SetComp, ast.DictComp, ast.GeneratorExp)):
            return True
        child, p = p, getattr(p, "_parent", None)
    return False


def cnorm(node: ast.AST, fn_node) -> str:
    """norm() with the function's local variable names replaced by their binding rank ($0, $1 …): the text does not
    change when locals are renamed."""
    m = _local_map(fn_node)
    if not m or not any(isinstance(x, ast.Name) and x.id in m for x in ast.walk(node)):
        return norm(node)
    # rename in place, print, restore (a deepcopy would follow the _parent links and copy the whole module)
    touched = [(x, x.id) for x in ast.walk(node) if isinstance(x, ast.Name) and x.id in m]
    try:
        for x, old in touched:
            x.id = m[old]
        return norm(node)
    finally:
        for x, old in touched:
            x.id = old


def _lookup_bindings(fn_node) -> dict:
    """Locals of the function bound exactly once, by `<D>.get(<K>)`: name -> (D, K)."""
    cached = getattr(fn_node, "_lookup_binds", None)
    if cached is not None:
        return cached
    counts: dict[str, list] = {}
    for n in ast.walk(fn_node):
        if isinstance(n, ast.Assign):
            for t in n.targets:
                for x in ast.walk(t):
                    if isinstance(x, ast.Name):
                        counts.setdefault(x.id, []).append(n.value if t is x else None)
        elif isinstance(n, (ast.AugAssign, ast.AnnAssign)) and isinstance(n.target, ast.Name):
            counts.setdefault(n.target.id, []).append(n.value if isinstance(n, ast.AnnAssign) else None)
        elif isinstance(n, ast.NamedExpr):
            counts.setdefault(n.target.id, []).append(n.value)
        elif isinstance(n, (ast.For, ast.comprehension)):
            for x in ast.walk(n.target):
                if isinstance(x, ast.Name):
                    counts.setdefault(x.id, []).append(None)
    out = {}
    for k, v in counts.items():
        if len(v) == 1 and isinstance(v[0], ast.Call) and isinstance(v[0].func, ast.Attribute) and v[0].func.attr == "get" \
                and len(v[0].args) == 1 and not v[0].keywords:
            out[k] = (v[0].func.value, v[0].args[0])
    try:
        fn_node._lookup_binds = out
    except Exception:  # noqa: BLE001
        pass
    return out


def _canon_test(test: ast.AST, stop) -> str:
    """Alpha-stable text of an if-test; `x is None` / `x is not None` for a local bound once to `D.get(K)` is printed as the
    membership test it stands for (`K not in D` / `K in D`), so a lookup written with one dictionary access reads like the
    two-step form."""
    if isinstance(test, ast.Compare) and len(test.ops) == 1 and isinstance(test.ops[0], (ast.Is, ast.IsNot)) and isinstance(test.left, ast.Name) \
            and isinstance(test.comparators[0], ast.Constant) and test.comparators[0].value is None:
        b = _lookup_bindings(stop).get(test.left.id)
        if b is not None:
            return f"{cnorm(b[1], stop)} {'not in' if isinstance(test.ops[0], ast.Is) else 'in'} {cnorm(b[0], stop)}"
    return cnorm(test, stop)


def path_condition(node: ast.AST, stop) -> str:
    """Conjunction of the if-tests controlling ``node`` inside function ``stop`` (alpha-stable text)."""
    parts = []
    child = node
    p = getattr(node, "_parent", None)
    while p is not None and p is not stop:
        if isinstance(p, ast.If):
            if child in p.body:
                parts.append(_canon_test(p.test, stop))
            elif child in p.orelse:
                parts.append(f"not ({_canon_test(p.test, stop)})")
        elif isinstance(p, (ast.For, ast.AsyncFor)) and child in p.orelse:
            parts.append("loop-else")
        elif isinstance(p, ast.ExceptHandler):
            parts.append(f"except {norm(p.type) if p.type is not None else ''}".strip())
        child = p
        p = getattr(p, "_parent", None)
    if not parts:
        # no test controls the statement itself: what lets a path reach it is that the guard clauses before it (`if T: return`)
        # did not fire - `if ok: return` followed by a raise is the raise under `not ok`
        parts = list(reversed(_guard_clause_negations(node, stop)))
    return " and ".join(reversed(parts)) if parts else "always"


_FLIP = {ast.Is: ast.IsNot, ast.IsNot: ast.Is, ast.In: ast.NotIn, ast.NotIn: ast.In, ast.Eq: ast.NotEq, ast.NotEq: ast.Eq}


def _neg_text(t: ast.AST, stop) -> list[str]:
    """Conjuncts of `not t` with the negation pushed inwards (De Morgan over `or`, identity / membership / equality comparisons
    flipped); anything else is printed as `not (…)`."""
    if isinstance(t, ast.UnaryOp) and isinstance(t.op, ast.Not):
        return [_canon_test(t.operand, stop)]
    if isinstance(t, ast.BoolOp) and isinstance(t.op, ast.Or):
        return [x for v in t.values for x in _neg_text(v, stop)]
    if isinstance(t, ast.Compare) and len(t.ops) == 1 and type(t.ops[0]) in _FLIP:
        if isinstance(t.left, ast.Name) and isinstance(t.comparators[0], ast.Constant) and t.comparators[0].value is None \
                and t.left.id in _lookup_bindings(stop):
            b = _lookup_bindings(stop)[t.left.id]
            return [f"{cnorm(b[1], stop)} {'in' if isinstance(t.ops[0], ast.Is) else 'not in'} {cnorm(b[0], stop)}"]
        flipped = ast.Compare(left=t.left, ops=[_FLIP[type(t.ops[0])]()], comparators=t.comparators)
        return [cnorm(flipped, stop)]
    return [f"not ({_canon_test(t, stop)})"]


def _guard_clause_negations(node: ast.AST, stop) -> list[str]:
    out: list[str] = []
    child = node
    p = getattr(node, "_parent", None)
    while p is not None:
        for fld in ("body", "orelse", "finalbody"):
            blk = getattr(p, fld, None)
            if isinstance(blk, list) and child in blk:
                for s in blk[: blk.index(child)]:
                    if isinstance(s, ast.If) and not s.orelse and s.body and isinstance(s.body[-1], (ast.Return, ast.Raise, ast.Continue, ast.Break)):
                        out.extend(_neg_text(s.test, stop))
        if p is stop:
            break
        child = p
        p = getattr(p, "_parent", None)
    return out


def _caught_locally(node: ast.AST, stop, exc_name: str | None) -> bool:
    """Is an exception raised at ``node`` caught by an enclosing try in the same function?"""
    child = node
    p = getattr(node, "_parent", None)
    while p is not None and p is not stop:
        if isinstance(p, ast.Try) and child in p.body:
            for h in p.handlers:
                t = h.type
                names = []
                if t is None:
                    names = ["BaseException"]
                elif isinstance(t, ast.Tuple):
                    names = [dotted_of(x) or "" for x in t.elts]
                else:
                    names = [dotted_of(t) or ""]
                broad = any(n in ("BaseException", "Exception") for n in names)
                same = exc_name is not None and any(n.split(".")[-1] == exc_name for n in names)
                if broad or same:
                    reraises = any(isinstance(x, ast.Raise) for s in h.body for x in ast.walk(s))
                    if not reraises:
                        return True
        elif isinstance(p, (ast.With, ast.AsyncWith)) and child in p.body:
            for it in p.items:
                if (dotted_of(getattr(it.context_expr, "func", None)) or "").endswith("suppress"):
                    return True
        child = p
        p = getattr(p, "_parent", None)
    return False


class Effects:
    def __init__(self, repo: Repo, typer: Typer, tier4: bool = False):
        self.repo = repo
        self.ty = typer
        self.tier4 = tier4
        self._sum: dict[str, Summary] = {}
        self._events: dict[str, dict] = {}
        self._fresh_cache: dict[str, set[str]] = {}
        self._computed = False
        self.n_iter = 0
        self._cfg_cache: dict[str, CFG] = {}
        self._tg_cache: dict[int, tuple] = {}
        self._lazy: dict[str, dict] = {}  # function key -> {local name: (defining statement, events of the generator body)}
        self._prop_cache: dict[tuple, list] = {}
        self._late: dict[int, Event] = {}

    # ------------------------------------------------------------------ freshness
    def deep_containers(self, f: FuncInfo) -> set[str]:
        """Local containers of f all of whose elements were created in this call: bound to an empty / fresh-element display or
        constructor, and only ever given fresh objects (`L.append(set())`, `D[k] = Record(…)`, a dict comprehension of constructor
        calls) - also by nested functions, which share the variable; any other mutator leaves the name out."""
        cache = getattr(self, "_deep_cache", None)
        if cache is None:
            cache = self._deep_cache = {}
        if f.key in cache:
            return cache[f.key]
        cache[f.key] = set()
        if isinstance(f.node, ast.Lambda):
            return cache[f.key]
        params = set(f.params)

        def fresh_elem(x) -> bool:
            return isinstance(x, ast.Call) and (dotted_of(x.func) in ("set", "list", "dict", "frozenset") or self.fresh_call(f, x))

        cand: dict[str, bool] = {}
        for n in ast.walk(f.node):
            tgt = val = None
            if isinstance(n, ast.Assign) and len(n.targets) == 1 and isinstance(n.targets[0], ast.Name):
                tgt, val = n.targets[0].id, n.value
            elif isinstance(n, ast.AnnAssign) and isinstance(n.target, ast.Name) and n.value is not None:
                tgt, val = n.target.id, n.value
            if tgt is None or tgt in params:
                continue
            okv = (isinstance(val, (ast.List, ast.Tuple, ast.Set)) and all(fresh_elem(x) for x in val.elts)) or (
                isinstance(val, ast.Dict) and all(fresh_elem(x) for x in val.values)) or (
                isinstance(val, ast.Call) and dotted_of(val.func) in ("list", "set", "dict") and not val.args and not val.keywords) or (
                isinstance(val, ast.DictComp) and fresh_elem(val.value)) or (
                isinstance(val, (ast.ListComp, ast.SetComp)) and fresh_elem(val.elt))
            cand[tgt] = cand.get(tgt, True) and okv
        for n in ast.walk(f.node):
            if isinstance(n, ast.Call) and isinstance(n.func, ast.Attribute) and isinstance(n.func.value, ast.Name) and n.func.value.id in cand:
                nm = n.func.value.id
                if n.func.attr in ("append", "add", "appendleft"):
                    if not (n.args and fresh_elem(n.args[0])):
                        cand[nm] = False
                elif n.func.attr in ("extend", "update", "insert", "__setitem__", "setdefault"):
                    cand[nm] = False
            elif isinstance(n, (ast.Assign, ast.AugAssign)):
                for t in (n.targets if isinstance(n, ast.Assign) else [n.target]):
                    if isinstance(t, ast.Subscript) and isinstance(t.value, ast.Name) and t.value.id in cand:
                        if not (isinstance(n, ast.Assign) and fresh_elem(n.value)):
                            cand[t.value.id] = False
        cache[f.key] = {k for k, v in cand.items() if v}
        return cache[f.key]

    def _deep_in_scope(self, f: FuncInfo, name: str) -> bool:
        """name is a deep-fresh container of f or - as a closure variable - of an enclosing function."""
        g = f
        while g is not None:
            if name in g.params:
                return False
            if name in self.deep_containers(g):
                return True
            if name in self.ty.env(g) and g is not f:
                return False
            g = g.parent
        return False

    def fresh_locals(self, f: FuncInfo) -> set[str]:
        """Locals bound only to objects created in this call (constructors, literals, copies)."""
        if f.key in self._fresh_cache:
            return self._fresh_cache[f.key]
        fresh: dict[str, bool] = {}
        if isinstance(f.node, ast.Lambda):
            self._fresh_cache[f.key] = set()
            return set()
        params = set(f.params)

        def is_fresh_expr(e) -> bool:
            if isinstance(e, (ast.List, ast.Dict, ast.Set, ast.Tuple, ast.ListComp, ast.DictComp, ast.SetComp, ast.GeneratorExp, ast.Constant, ast.JoinedStr)):
                return True
            if isinstance(e, ast.Call):
                if isinstance(e.func, ast.Attribute) and e.func.attr in ("get", "pop", "setdefault") and isinstance(e.func.value, ast.Name) \
                        and self._deep_in_scope(f, e.func.value.id) and len(e.args) <= 1:
                    return True  # an element of a container that only holds objects built in this call (or None)
                return self.fresh_call(f, e)
            if isinstance(e, ast.Subscript) and isinstance(e.value, ast.Name) and not isinstance(e.slice, ast.Slice) and self._deep_in_scope(f, e.value.id):
                return True
            if isinstance(e, ast.BinOp):
                return True
            if isinstance(e, ast.IfExp):
                return is_fresh_expr(e.body) and is_fresh_expr(e.orelse)
            if isinstance(e, ast.Name):
                return fresh.get(e.id, False)
            if isinstance(e, ast.Subscript) and isinstance(e.value, ast.Name) and isinstance(e.slice, ast.Slice):
                return fresh.get(e.value.id, False)  # a slice of a fresh array/list
            return False

        from .index import own_nodes

        _deep: list = []

        def deep(is_fresh) -> set[str]:
            """Local containers all of whose elements were created in this call: every binding is a literal of fresh elements (or an
            empty constructor) and everything put in later - also by nested functions, which share the variable - is a fresh
            expression; any other mutator or an escape into a call leaves the name out."""
            if _deep:
                return _deep[0]
            cand: dict[str, bool] = {}
            for n in ast.walk(f.node):
                tgt = val = None
                if isinstance(n, ast.Assign) and len(n.targets) == 1 and isinstance(n.targets[0], ast.Name):
                    tgt, val = n.targets[0].id, n.value
                elif isinstance(n, ast.AnnAssign) and isinstance(n.target, ast.Name) and n.value is not None:
                    tgt, val = n.target.id, n.value
                if tgt is None or tgt in params:
                    continue
                okv = (isinstance(val, (ast.List, ast.Tuple, ast.Set)) and all(isinstance(x, ast.Call) and dotted_of(x.func) in ("set", "list", "dict", "frozenset") for x in val.elts)) or (
                    isinstance(val, ast.Call) and dotted_of(val.func) in ("list", "set", "dict") and not val.args)
                cand[tgt] = cand.get(tgt, True) and okv
            for n in ast.walk(f.node):
                if isinstance(n, ast.Call) and isinstance(n.func, ast.Attribute) and isinstance(n.func.value, ast.Name) and n.func.value.id in cand:
                    nm = n.func.value.id
                    if n.func.attr in ("append", "add"):
                        a = n.args[0] if n.args else None
                        if not (isinstance(a, ast.Call) and dotted_of(a.func) in ("set", "list", "dict", "frozenset")):
                            cand[nm] = False
                    elif n.func.attr in ("extend", "update", "insert", "__setitem__", "setdefault"):
                        cand[nm] = False
                elif isinstance(n, (ast.Assign, ast.AugAssign)):
                    for t in (n.targets if isinstance(n, ast.Assign) else [n.target]):
                        if isinstance(t, ast.Subscript) and isinstance(t.value, ast.Name) and t.value.id in cand:
                            cand[t.value.id] = False
            _deep.append({k for k, v in cand.items() if v})
            return _deep[0]

        assumed: set[str] = set()
        for _ in range(3):
            # every round starts afresh and may rely on what the previous round established (a local is fresh when all its
            # bindings are; a binding may mention locals found fresh in the round before)
            fresh.clear()
            fresh.update({k: True for k in assumed})
            self._fresh_cache[f.key + "#partial"] = set(assumed)
            for n in own_nodes(f.node):
                if isinstance(n, ast.Assign):
                    v = is_fresh_expr(n.value)
                    for t in n.targets:
                        if isinstance(t, ast.Name) and t.id not in params:
                            fresh[t.id] = fresh.get(t.id, True) and v
                elif isinstance(n, ast.AnnAssign) and isinstance(n.target, ast.Name) and n.value is not None:
                    if n.target.id not in params:
                        fresh[n.target.id] = fresh.get(n.target.id, True) and is_fresh_expr(n.value)
                elif isinstance(n, (ast.For, ast.comprehension)):
                    it = n.iter
                    if isinstance(it, ast.Subscript) and isinstance(it.slice, ast.Slice):
                        it = it.value
                    if isinstance(n.target, ast.Name) and isinstance(it, ast.Name) and fresh.get(it.id, False) and (
                            it.id in deep(is_fresh_expr) or it.id in self.deep_containers(f)):
                        # the elements of a container built in this call that only ever received objects built in this call
                        fresh[n.target.id] = fresh.get(n.target.id, True)
                        continue
                    for t in ast.walk(n.target):
                        if isinstance(t, ast.Name):
                            fresh[t.id] = False
                elif isinstance(n, ast.NamedExpr):
                    fresh[n.target.id] = fresh.get(n.target.id, True) and is_fresh_expr(n.value)
                elif isinstance(n, ast.withitem) and n.optional_vars is not None and isinstance(n.optional_vars, ast.Name):
                    fresh[n.optional_vars.id] = True
            now = {k for k, v in fresh.items() if v}
            if now == assumed:
                break
            assumed = now
        out = {k for k, v in fresh.items() if v}
        self._fresh_cache[f.key] = out
        return out

    def fresh_call(self, f: FuncInfo, e: ast.Call) -> bool:
        """The call returns an object created by the call (constructor, copy, external factory)."""
        d = dotted_of(e.func) or ""
        if d in ("list", "dict", "set", "tuple", "frozenset", "sorted", "collections.Counter", "collections.OrderedDict",
                 "collections.defaultdict", "collections.deque", "dict.fromkeys", "bytearray", "threading.Lock", "threading.local",
                 "defaultdict", "Counter", "OrderedDict", "deque", "copy.copy", "copy.deepcopy", "dataclasses.replace"):  # fmt: skip
            return True
        if isinstance(e.func, ast.Attribute) and e.func.attr in ("copy", "clone", "tolist", "tobytes", "astype", "ravel", "flatten", "reshape", "view"):
            return True
        if isinstance(e.func, ast.Attribute) and e.func.attr in ("union", "intersection", "difference", "symmetric_difference") and isinstance(e.func.value, ast.Name) \
                and e.func.value.id in self._fresh_cache.get(f.key + "#partial", ()):
            # the set algebra of a set built in this call returns a new set (the receiver is known to be a builtin set then)
            return True
        ct = self.ty.type_of(f, e.func)
        if any(a[0] == "type" for a in ct):
            return True
        if any(a[0] == "ext" for a in ct) and not any(a[0] in ("func", "bound") for a in ct):
            full = next(a[1] for a in ct if a[0] == "ext")
            if full.startswith(("numpy.", "onnx.", "sympy.", "tempfile.", "concurrent.futures", "threading.", "weakref.", "hashlib.", "collections.", "ml_dtypes.")):
                return True
        if d.startswith(("np.", "numpy.", "onnx.", "sympy.", "tempfile.", "concurrent.futures", "threading.", "weakref.", "hashlib.")):
            return True
        return False

    def is_proto(self, f: FuncInfo, e: ast.expr) -> bool:
        """Receiver is a protobuf message / repeated field (serializer output, never IR state)."""
        t = self.ty.type_of(f, e)
        return bool(t) and all(a[0].startswith("proto") for a in t)

    def _is_list(self, f: FuncInfo, base: ast.expr) -> bool:
        try:
            ts = self.ty.type_of(f, base)
        except Exception:
            return False
        return any(a[0] == "seq" or (a[0] == "ext" and str(a[1]).split(".")[-1].split("[")[0] in ("list", "List", "MutableSequence")) for a in ts)

    def _may_be_slice(self, f: FuncInfo, idx: ast.expr) -> bool:
        """The subscript index can be a slice object with a step: a literal extended slice, or a parameter that is not
        annotated as an integer (e.g. the `i` of UserList.__setitem__)."""
        if isinstance(idx, ast.Slice):
            return idx.step is not None and not (isinstance(idx.step, ast.Constant) and idx.step.value in (None, 1))
        if isinstance(idx, ast.Name) and idx.id in f.params and not isinstance(f.node, ast.Lambda):
            a = f.node.args
            for p_ in a.posonlyargs + a.args + a.kwonlyargs:
                if p_.arg == idx.id:
                    ann = norm(p_.annotation) if p_.annotation is not None else ""
                    return ann == "" or "slice" in ann
        return False

    def root_tag(self, f: FuncInfo, e: ast.expr) -> str | None:
        """'self' / 'p<i>' / '*' for non-fresh roots, None if the receiver is fresh."""
        while isinstance(e, (ast.Attribute, ast.Subscript)):
            e = e.value
        if isinstance(e, ast.Call):
            # result of a call: fresh if constructor/copy, else unknown-shared
            d = dotted_of(e.func) or ""
            if isinstance(e.func, ast.Attribute) and e.func.attr in ("values", "items", "keys", "get", "setdefault", "pop"):
                return self.root_tag(f, e.func.value)
            if self.fresh_call(f, e):
                return None
            return "*"
        if not isinstance(e, ast.Name):
            return "*"
        name = e.id
        params = f.params
        if name in params:
            i = params.index(name)
            if i == 0 and f.cls is not None and f.kind != "staticmethod":
                if f.name in ("__init__", "__new__", "__post_init__"):
                    return None  # fresh self
                return "self"
            return f"p{i}"
        if name in self.fresh_locals(f):
            return None
        g = f.parent
        while g is not None:
            if name in g.params or name in self.ty.env(g):
                # closure variable of the enclosing function
                if name in self.fresh_locals(g):
                    return None
                return "*"
            g = g.parent
        return "*"

    # --------------------------------------------------------------- summaries
    def compute(self) -> None:
        if self._computed:
            return
        self._funcs: dict[str, FuncInfo] = {f.key: f for f in self.repo.all_funcs(include_external=True)}
        for k in self._funcs:
            self._sum[k] = Summary()
        for it in range(15):
            self.n_iter = it + 1
            changed = False
            for k in list(self._funcs):
                f = self._funcs[k]
                before = self._sum[k].sig()
                self._analyse(f)
                if self._sum[k].sig() != before:
                    changed = True
            if not changed and len(self._funcs) == len(self._sum):
                break
        # phase 2: non-atomicity propagates to callers (a call of a function that can reject after writing is
        # itself a write followed by a possible rejection); only the `dirty` sets change here
        for _ in range(10):
            changed = False
            for k, f in self._funcs.items():
                before = len(self._sum[k].dirty)
                self._sum[k].dirty = self.m_before_c(f)
                if len(self._sum[k].dirty) != before:
                    changed = True
            if not changed:
                break
        self._computed = True

    def _specialised(self, g: FuncInfo, recv_cls) -> FuncInfo:
        """Stdlib mixin method analysed for a concrete package receiver class (context sensitivity
        for self-dispatch such as MutableMapping.pop -> del self[key])."""
        key = f"{g.key}@{recv_cls.name}"
        if key not in self._funcs:
            sp = g.specialise(recv_cls)
            self._funcs[key] = sp
            self._sum[key] = Summary()
        return self._funcs[key]

    def summary(self, f: FuncInfo) -> Summary:
        self.compute()
        return self._sum[f.key]

    def events(self, f: FuncInfo):
        """(cfg, {node id: [Event]})"""
        self.compute()
        return self._events[f.key]

    # ------------------------------------------------------------ one function
    def _call_targets(self, f, call: ast.Call):
        k = (f.key, id(call))  # specialised copies of a stdlib method share AST nodes
        if k not in self._tg_cache:
            self._tg_cache[k] = self.ty.callees(f, call, tier4=self.tier4)
        return self._tg_cache[k]

    def _props(self, f, attr: ast.Attribute, which: str):
        k = (f.key, id(attr), which)
        if k not in self._prop_cache:
            self._prop_cache[k] = self.ty.prop_targets(f, attr, which)
        return self._prop_cache[k]

    def _analyse(self, f: FuncInfo) -> None:
        s = self._sum[f.key]
        cfg = self._cfg_cache.get(f.key)
        if cfg is None:
            cfg = self._cfg_cache[f.key] = CFG(f.node)
        per_node: dict[int, list[Event]] = {}
        for n in cfg.nodes:
            evs: list[Event] = []
            if n.kind == "stmt" and isinstance(n.ast, ast.Raise):
                self._raise_event(f, n.ast, evs)
                # the message of the exception is built before it is raised: formatting of IR objects in it
                if n.ast.exc is not None:
                    for x in ast.walk(n.ast.exc):
                        if isinstance(x, ast.FormattedValue):
                            self._format_effects(f, x.value, "repr" if x.conversion == 114 else "str")
                        elif isinstance(x, ast.Call) and dotted_of(x.func) in ("str", "repr", "format") and x.args:
                            self._format_effects(f, x.args[0], "repr" if dotted_of(x.func) == "repr" else "str")
            elif n.kind == "stmt" and isinstance(n.ast, ast.Assert):
                pass  # asserts do not reject (bug guards, stripped under -O)
            elif n.kind == "stmt" and isinstance(n.ast, (ast.FunctionDef, ast.AsyncFunctionDef, ast.ClassDef)):
                pass
            else:
                for e in n.exprs():
                    self._emit(f, e, evs, loop=False)
            per_node[n.id] = evs
        # lazily evaluated generators: their element events happen at every node that reads the generator
        for name, (defn, inner) in self._lazy.get(f.key, {}).items():
            if not inner:
                continue
            for n in cfg.nodes:
                if n.ast is defn:
                    continue
                if any(isinstance(x, ast.Name) and x.id == name and isinstance(x.ctx, ast.Load) for e_ in n.exprs() for x in ast.walk(e_)
                       if not isinstance(e_, (ast.FunctionDef, ast.AsyncFunctionDef, ast.ClassDef))):
                    per_node[n.id] = per_node.get(n.id, []) + list(inner) + [
                        Event(x.kind, x.node, x.desc, x.rejs, True, x.callee, x.tags, x.fields, x.qfields) for x in inner]
        for evs in per_node.values():
            for ev in evs:
                if ev.kind == "C":
                    for r in ev.rejs:
                        s.rejs.setdefault(r.key, r)
        self._events[f.key] = (cfg, per_node)
        # dirty: a path with M before C
        s.dirty = self.m_before_c(f)

    def _raise_event(self, f, st: ast.Raise, evs) -> None:
        if in_debug_guard(st) or after_debug_return(f, st):
            return
        exc = st.exc
        name = None
        if exc is not None:
            e2 = exc.func if isinstance(exc, ast.Call) else exc
            name = (dotted_of(e2) or "").split(".")[-1] or None
        if name == "NotImplementedError" and f.is_abstract_stub():
            return
        if _caught_locally(st, f.node, name):
            return
        if exc is None and any(isinstance(a, ast.ExceptHandler) for a in _anc(st, f.node)):
            # bare re-raise inside a handler: the rejection is the try body's, already counted
            return
        cond = path_condition(st, f.node)
        evs.append(Event("C", st, f"raise {name or ''} when {cond}", [Rej(f.key, cond, name or "?", st)]))

    def _emit(self, f, e: ast.AST, evs: list, loop: bool) -> None:
        """Append the events of evaluating ``e`` (statement or expression) in order."""
        if e is None:
            return
        if isinstance(e, ast.Assign):
            if isinstance(e.value, ast.GeneratorExp) and len(e.targets) == 1 and isinstance(e.targets[0], ast.Name):
                # a generator expression bound to a local is lazy: only its first iterable is evaluated here; the element
                # expression (and with it every rejection it can raise) runs where the generator is consumed, one element at a
                # time - in the loop that may already have written something for the elements before
                g = e.value
                self._emit(f, g.generators[0].iter, evs, loop)
                inner: list[Event] = []
                for gi, gen in enumerate(g.generators):
                    if gi:
                        self._emit(f, gen.iter, inner, True)
                    for c in gen.ifs:
                        self._emit(f, c, inner, True)
                self._emit(f, g.elt, inner, True)
                for ev in inner:
                    ev.loop = True
                self._lazy.setdefault(f.key, {})[e.targets[0].id] = (e, inner)
                return
            self._emit(f, e.value, evs, loop)
            for t in e.targets:
                self._store(f, t, e, evs, loop)
            return
        if isinstance(e, ast.AnnAssign):
            if e.value is not None:
                self._emit(f, e.value, evs, loop)
                self._store(f, e.target, e, evs, loop)
            return
        if isinstance(e, ast.AugAssign):
            self._emit(f, e.value, evs, loop)
            self._store(f, e.target, e, evs, loop, aug=True)
            return
        if isinstance(e, ast.Delete):
            for t in e.targets:
                self._store(f, t, e, evs, loop, delete=True)
            return
        if isinstance(e, ast.Expr):
            self._emit(f, e.value, evs, loop)
            return
        if isinstance(e, ast.Return):
            self._emit(f, e.value, evs, loop)
            return
        if isinstance(e, (ast.ListComp, ast.SetComp, ast.GeneratorExp, ast.DictComp)):
            inner: list[Event] = []
            for g in e.generators:
                self._emit(f, g.iter, evs if g is e.generators[0] else inner, loop)
                for c in g.ifs:
                    self._emit(f, c, inner, True)
            if isinstance(e, ast.DictComp):
                self._emit(f, e.key, inner, True)
                self._emit(f, e.value, inner, True)
            else:
                self._emit(f, e.elt, inner, True)
            for ev in inner:
                ev.loop = True
            # a loop body runs repeatedly: its events twice, so loop-carried orderings are visible
            evs.extend(inner)
            evs.extend(Event(x.kind, x.node, x.desc, x.rejs, True, x.callee, x.tags, x.fields, x.qfields) for x in inner)
            return
        if isinstance(e, ast.Lambda):
            return  # body runs when called
        if isinstance(e, ast.Call):
            self._emit(f, e.func.value if isinstance(e.func, ast.Attribute) else None, evs, loop)
            for a in e.args:
                self._emit(f, a.value if isinstance(a, ast.Starred) else a, evs, loop)
            for k in e.keywords:
                self._emit(f, k.value, evs, loop)
            self._call(f, e, evs, loop)
            return
        if isinstance(e, ast.Attribute):
            self._emit(f, e.value, evs, loop)
            if isinstance(e.ctx, ast.Load):
                gs = self._props(f, e, "get")
                if gs:
                    self._apply_alternatives(f, e, gs, evs, loop, recv=e.value, args=[])
            return
        if isinstance(e, ast.NamedExpr):
            self._emit(f, e.value, evs, loop)
            return
        if isinstance(e, ast.JoinedStr):
            # f-string formatting dispatches to __format__ / __str__ / __repr__ of the formatted object: follow it for
            # file-system effects (C17: nothing reachable from deserialization or from the cheap accessors may touch
            # a file - error messages that format an IR object count)
            for part in e.values:
                if isinstance(part, ast.FormattedValue):
                    self._emit(f, part.value, evs, loop)
                    self._format_effects(f, part.value, "repr" if part.conversion == 114 else "str")
            return
        for c in ast.iter_child_nodes(e):
            if isinstance(c, (ast.expr, ast.keyword, ast.comprehension, ast.Starred)):
                self._emit(f, c.value if isinstance(c, ast.keyword) else c, evs, loop)

    def _format_effects(self, f, value: ast.expr, how: str) -> None:
        """str()/repr()/format() of `value`: propagate the file-system effects of the dunder the object's class defines."""
        try:
            classes = self.ty.recv_classes(f, value)
        except Exception:
            classes = []
        s = self._sum[f.key]
        for c in classes:
            if c.external:
                continue
            names = ("__repr__",) if how == "repr" else ("__format__", "__str__", "__repr__")
            for nm in names:
                g = self.repo.lookup(c, nm)
                if isinstance(g, FuncInfo) and g.cls is not None and not g.cls.external:
                    gs = self._sum.get(g.key)
                    if gs is not None:
                        for k, v in list(gs.fs.items()):
                            if k not in s.fs:
                                s.fs[k] = v
                                s.fs_via[k] = g.key
                    break

    def _store(self, f, t, stmt, evs, loop, aug=False, delete=False) -> None:
        if isinstance(t, (ast.Tuple, ast.List)):
            for x in t.elts:
                self._store(f, x, stmt, evs, loop, aug, delete)
            return
        if isinstance(t, ast.Starred):
            return self._store(f, t.value, stmt, evs, loop, aug, delete)
        if isinstance(t, ast.Name):
            return
        if isinstance(t, ast.Attribute):
            self._emit(f, t.value, evs, loop)
            setters = self._props(f, t, "set") if not delete else []
            if setters:
                self._apply_alternatives(f, stmt, setters, evs, loop, recv=t.value, args=[getattr(stmt, "value", None)])
                return
            if t.attr in CACHE_FIELDS or self.is_proto(f, t.value):
                return
            tag = self.root_tag(f, t.value)
            if tag is not None:
                self._sum[f.key].mods.add((tag, t.attr))
                q = self._qual(f, t.value, t.attr)
                self._sum[f.key].qmods.add((tag, q))
                evs.append(Event("M", stmt, f"{norm(t)} {'deleted' if delete else 'written'}", loop=loop, tags=[tag], fields=[t.attr], qfields=[q]))
            return
        if isinstance(t, ast.Subscript):
            self._emit(f, t.value, evs, loop)
            self._emit(f, t.slice, evs, loop)
            base = t.value
            # user-defined __setitem__/__delitem__
            dunder = "__delitem__" if delete else "__setitem__"
            tg = []
            for a in self.ty.type_of(f, base):
                if a[0] == "cls":
                    for hit in self.ty._lookup_dyn(a[1], dunder):
                        if isinstance(hit, FuncInfo):
                            tg.append(hit)
            if tg:
                concrete = [g for g in tg if not g.module.external]
                tg = concrete or self._specialise_targets(f, base, tg)
                self._apply_alternatives(f, stmt, tg, evs, loop, recv=base, args=[t.slice, getattr(stmt, "value", None)])
                return
            fld = base.attr if isinstance(base, ast.Attribute) else (base.id if isinstance(base, ast.Name) else "?")
            if fld in CACHE_FIELDS or self.is_proto(f, base):
                return
            tag = self.root_tag(f, base)
            if tag is not None:
                self._sum[f.key].mods.add((tag, f"{fld}[]"))
                q = self._qual(f, base.value, fld) if isinstance(base, ast.Attribute) else fld
                self._sum[f.key].qmods.add((tag, q))
                if delete and not self._key_witnessed(f, stmt, base, t.slice):
                    rej = Rej(f.key, f"key of `{cnorm(stmt, f.node)}` absent", "KeyError", stmt)
                    evs.append(Event("C", stmt, f"{norm(stmt)} may raise", [rej], loop=loop))
                elif self._may_be_slice(f, t.slice) and self._is_list(f, base):
                    # builtin rejection: a list refuses `l[a:b:k] = seq` (k != 1) when the sizes differ
                    rej = Rej(f.key, f"`{norm(t.slice)}` is an extended slice and the assigned sequence has another size", "ValueError", stmt)
                    evs.append(Event("C", stmt, f"{norm(stmt)} may raise", [rej], loop=loop))
                evs.append(Event("M", stmt, f"{norm(t)} {'deleted' if delete else 'stored'}", loop=loop, tags=[tag], fields=[f"{fld}[]"], qfields=[q]))

    # ------------------------------------------------------ key presence witnessed before a delete
    def _pure_value_of(self, f: FuncInfo, e: ast.AST, depth: int = 0) -> str:
        """Text of e with walrus bindings and single-assignment locals replaced by the expressions they stand for
        (`value_id` bound once by `(value_id := id(value))` reads as `id(value)`)."""
        from .index import own_nodes

        binds = getattr(f, "_single_binds", None)
        if binds is None:
            counts: dict[str, list] = {}
            for n in own_nodes(f.node):
                if isinstance(n, ast.NamedExpr):
                    counts.setdefault(n.target.id, []).append(n.value)
                elif isinstance(n, ast.Assign):
                    for t in n.targets:
                        for x in ast.walk(t):
                            if isinstance(x, ast.Name):
                                counts.setdefault(x.id, []).append(n.value if t is x else None)
                elif isinstance(n, (ast.AugAssign, ast.AnnAssign)) and isinstance(n.target, ast.Name):
                    counts.setdefault(n.target.id, []).append(None)
                elif isinstance(n, (ast.For, ast.comprehension)):
                    for x in ast.walk(n.target):
                        if isinstance(x, ast.Name):
                            counts.setdefault(x.id, []).append(None)
            binds = {k: v[0] for k, v in counts.items() if len(v) == 1 and v[0] is not None and k not in f.params}
            f._single_binds = binds

        def rec(x, d):
            if isinstance(x, ast.NamedExpr):
                return rec(x.value, d)
            if isinstance(x, ast.Name) and x.id in binds and d < 3:
                v = binds[x.id]
                if isinstance(v, (ast.Call, ast.Name, ast.Attribute, ast.Constant)) and not any(isinstance(y, ast.NamedExpr) and y.target.id == x.id for y in ast.walk(v)):
                    return rec(v, d + 1)
            if isinstance(x, ast.Call) and isinstance(x.func, ast.Name) and len(x.args) == 1 and not x.keywords:
                return f"{x.func.id}({rec(x.args[0], d)})"
            if isinstance(x, ast.Attribute):
                return f"{rec(x.value, d)}.{x.attr}"
            return norm(x)

        return rec(e, depth)

    def _key_witnessed(self, f: FuncInfo, stmt, base, key) -> bool:
        """`del D[K]` cannot raise KeyError when the presence of the same key in the same container was established
        earlier on every path to it: by a guard `if K not in D: raise/return`, or by an unconditional read `D[K]`, in a
        statement that precedes the delete in its own block or in an enclosing block - with no removal from D in between."""
        want_d, want_k = norm(base), self._pure_value_of(f, key)
        chain = []
        n = stmt
        while n is not None and n is not f.node:
            chain.append(n)
            n = getattr(n, "_parent", None)
        for anc in chain:
            blk_owner = getattr(anc, "_parent", None)
            if blk_owner is None:
                continue
            for fld in ("body", "orelse", "finalbody"):
                blk = getattr(blk_owner, fld, None)
                if not (isinstance(blk, list) and anc in blk):
                    continue
                before = blk[: blk.index(anc)]
                for j in range(len(before) - 1, -1, -1):
                    s = before[j]
                    # anything that may remove keys from D between the witness and the delete spoils it
                    spoil = False
                    for x in ast.walk(s):
                        if isinstance(x, ast.Delete) and any(isinstance(t, ast.Subscript) and norm(t.value) == want_d for t in x.targets):
                            spoil = True
                        if isinstance(x, ast.Call) and isinstance(x.func, ast.Attribute) and norm(x.func.value) == want_d \
                                and x.func.attr in ("pop", "popitem", "clear"):
                            spoil = True
                    if spoil:
                        return False
                    if isinstance(s, ast.If) and s.body and isinstance(s.body[-1], (ast.Raise, ast.Return)) and not s.orelse:
                        t = s.test
                        if isinstance(t, ast.Compare) and len(t.ops) == 1 and isinstance(t.ops[0], ast.NotIn) \
                                and norm(t.comparators[0]) == want_d and self._pure_value_of(f, t.left) == want_k:
                            return True
                        if isinstance(t, ast.Compare) and len(t.ops) == 1 and isinstance(t.ops[0], ast.Is) and isinstance(t.left, ast.Name) \
                                and isinstance(t.comparators[0], ast.Constant) and t.comparators[0].value is None:
                            # `x = D.get(K)` … `if x is None: raise` (a dictionary that holds no None)
                            b = _lookup_bindings(f.node).get(t.left.id)
                            if b is not None and norm(b[0]) == want_d and self._pure_value_of(f, b[1]) == want_k:
                                return True
                    if isinstance(s, (ast.Assign, ast.Expr, ast.AnnAssign, ast.AugAssign)):
                        for x in ast.walk(s):
                            if isinstance(x, ast.Subscript) and isinstance(x.ctx, ast.Load) and norm(x.value) == want_d \
                                    and self._pure_value_of(f, x.slice) == want_k and not _conditionally_evaluated(x, s):
                                return True
        return False

    def _call(self, f, call: ast.Call, evs, loop) -> None:
        d = dotted_of(call.func) or ""
        s = self._sum[f.key]
        if d in FS_PRIMS:
            s.fs.setdefault(d, FS_PRIMS[d])
        # explicit and implicit string conversion of IR objects: str(x), repr(x), format(x), "%s" logging arguments
        if d in ("str", "repr", "format") and len(call.args) >= 1:
            self._format_effects(f, call.args[0], "repr" if d == "repr" else "str")
        elif d.startswith(("logger.", "logging.")) and d.rsplit(".", 1)[-1] in ("warning", "error", "critical", "exception", "warn"):
            for a in call.args[1:]:
                self._format_effects(f, a, "str")
        if isinstance(call.func, ast.Attribute) and call.func.attr == "tofile" and not self.ty.recv_classes(f, call.func.value):
            rt = self.ty.type_of(f, call.func.value)
            if any(a[0] == "ext" and "ndarray" in a[1] for a in rt):
                s.fs.setdefault("ndarray.tofile", "write")
        tg, status = self._call_targets(f, call)
        if tg:
            recv = call.func.value if isinstance(call.func, ast.Attribute) else None
            tg = self._specialise_targets(f, recv, tg)
            self._apply_alternatives(f, call, tg, evs, loop, recv=recv, args=list(call.args), keywords=call.keywords)
            return
        # builtin container mutators on non-fresh state
        if isinstance(call.func, ast.Attribute):
            m = call.func.attr
            recv = call.func.value
            rt = self.ty.type_of(f, recv)
            is_container = not rt or any(a[0] in ("seq", "dict", "tuple") for a in rt) or any(
                a[0] == "ext" and a[1].split(".")[-1].rstrip("()") in ("Counter", "OrderedDict", "defaultdict", "deque") for a in rt)
            if m in CONTAINER_MUTATORS and is_container and not self.is_proto(f, recv) and not (
                    isinstance(recv, ast.Attribute) and self.is_proto(f, recv.value)):
                fld = recv.attr if isinstance(recv, ast.Attribute) else (recv.id if isinstance(recv, ast.Name) else "?")
                tag = self.root_tag(f, recv)
                if tag is not None and fld not in CACHE_FIELDS:
                    if m in BUILTIN_REJECTING_METHODS or (m == "pop" and len(call.args) == 1 and any(a[0] == "dict" for a in rt)):
                        rej = Rej(f.key, f"`{cnorm(call, f.node)}`: {BUILTIN_REJECTING_METHODS.get(m, 'key absent')}", "LookupError", call)
                        evs.append(Event("C", call, f"{norm(call)} may raise", [rej], loop=loop))
                    if m not in MULTISET_PRESERVING or True:
                        s.mods.add((tag, f"{fld}.{m}()"))
                        q = self._qual(f, recv.value, fld) if isinstance(recv, ast.Attribute) else fld
                        s.qmods.add((tag, q))
                        evs.append(Event("M", call, f"{norm(call)}", loop=loop, tags=[tag], fields=[f"{fld}.{m}()"], qfields=[q]))

    def _apply_alternatives(self, f, site, tg, evs, loop, recv=None, args=(), keywords=()) -> None:
        """Several possible callees at one site (dynamic dispatch) are alternatives, not a sequence:
        one combined C (all their rejections) followed by one combined M."""
        if len(tg) == 1:
            return self._apply_callee(f, site, tg[0], evs, loop, recv=recv, args=args, keywords=keywords)
        tmp: list[Event] = []
        for g in tg:
            self._apply_callee(f, site, g, tmp, loop, recv=recv, args=args, keywords=keywords)
        cs = [e for e in tmp if e.kind == "C"]
        ms = [e for e in tmp if e.kind == "M"]
        if cs:
            rejs = {}
            for e in cs:
                for r in e.rejs:
                    rejs.setdefault((r.key, r.via), r)
            evs.append(Event("C", site, " | ".join(sorted({e.desc for e in cs}))[:200], list(rejs.values()), loop=loop, callee=cs[0].callee))
        if ms:
            tags, fields, qfields = set(), set(), set()
            for e in ms:
                tags |= e.tags
                fields |= e.fields
                qfields |= e.qfields
            evs.append(Event("M", site, " | ".join(sorted({e.desc for e in ms}))[:200], loop=loop, callee=ms[0].callee, tags=tags, fields=fields, qfields=qfields))

    def _specialise_targets(self, f, recv, tg):
        if recv is None or not any(g.module.external for g in tg):
            return tg
        if isinstance(recv, ast.Call) and dotted_of(recv.func) == "super":
            rc = [getattr(f, "self_cls", None) or f.owner_class] if f.owner_class is not None else []
        else:
            rc = self.ty.recv_classes(f, recv)
        rc = [c for c in rc if c is not None and not c.external]
        if len(rc) != 1:
            return tg
        return [self._specialised(g, rc[0]) if g.module.external and g.cls is not None and g.kind != "staticmethod" else g for g in tg]

    def _apply_callee(self, f, site, g: FuncInfo, evs, loop, recv=None, args=(), keywords=()) -> None:
        """Translate callee g's summary into events at a call site in f."""
        if g is f:
            gs = self._sum[f.key]
        else:
            gs = self._sum.get(g.key)
        if gs is None:
            return
        s = self._sum[f.key]
        for k, v in list(gs.fs.items()):
            if k not in s.fs:
                s.fs[k] = v
                s.fs_via[k] = g.key
        # rejections
        rejs = list(gs.rejs.values())
        if rejs and not (_caught_locally(site, f.node, None)):
            rejs2 = [Rej(r.origin, r.cond, r.exc, r.node, (g.key, *r.via)) for r in rejs]
            evs.append(Event("C", site, f"call {g.local} may reject", rejs2, loop=loop, callee=g))
        elif rejs:
            pass
        # mods, translated to this frame
        is_ctor = g.name in ("__init__", "__new__", "__post_init__") and not (
            isinstance(site, ast.Call) and isinstance(site.func, ast.Attribute) and isinstance(site.func.value, ast.Call)
            and dotted_of(site.func.value.func) == "super")
        hit = False
        new_tags, new_fields = set(), set()
        for tag, fld in list(gs.mods):
            if tag == "self":
                if recv is None:
                    # constructor call or function call: self is the fresh object / not applicable
                    if is_ctor or g.cls is None:
                        continue
                    new = "*"
                else:
                    if isinstance(recv, ast.Call) and dotted_of(recv.func) == "super":
                        new = self.root_tag(f, ast.Name(id=f.params[0], ctx=ast.Load())) if f.params else "*"
                    else:
                        new = self.root_tag(f, recv)
            elif tag.startswith("p"):
                i = int(tag[1:])
                # map positional index (callee counts self as 0 for methods)
                off = 1 if (g.cls is not None and g.kind not in ("staticmethod",)) else 0
                if g.kind in ("getter", "setter"):
                    off = 1
                ai = i - off
                arg = None
                if 0 <= ai < len(args):
                    arg = args[ai]
                else:
                    pname = g.params[i] if i < len(g.params) else None
                    for k in keywords or ():
                        if k.arg == pname:
                            arg = k.value
                if arg is None:
                    new = "*" if i >= len(g.params) else None
                    if new is None:
                        continue
                else:
                    new = self.root_tag(f, arg.value if isinstance(arg, ast.Starred) else arg) if isinstance(arg, (ast.Name, ast.Attribute, ast.Subscript, ast.Call)) else None
            else:
                new = "*"
            if new is None:
                continue
            s.mods.add((new, fld))
            new_tags.add(new)
            new_fields.add(fld)
            hit = True
        new_q = set()
        if hit:
            for tag, q in list(gs.qmods):
                nt = self._translate_tag(f, site, g, tag, recv, args, keywords, is_ctor)
                if nt is not None:
                    s.qmods.add((nt, q))
                    new_q.add(q)
            evs.append(Event("M", site, f"call {g.local} mutates", loop=loop, callee=g, tags=new_tags, fields=new_fields, qfields=new_q))

    def _translate_tag(self, f, site, g, tag, recv, args, keywords, is_ctor):
        if tag == "self":
            if recv is None:
                if is_ctor or g.cls is None:
                    return None
                return "*"
            if isinstance(recv, ast.Call) and dotted_of(recv.func) == "super":
                return self.root_tag(f, ast.Name(id=f.params[0], ctx=ast.Load())) if f.params else "*"
            return self.root_tag(f, recv)
        if tag.startswith("p"):
            i = int(tag[1:])
            off = 1 if (g.cls is not None and g.kind not in ("staticmethod",)) else 0
            ai = i - off
            arg = None
            if 0 <= ai < len(args):
                arg = args[ai]
            else:
                pname = g.params[i] if i < len(g.params) else None
                for k in keywords or ():
                    if k.arg == pname:
                        arg = k.value
            if arg is None:
                return "*" if i >= len(g.params) else None
            if isinstance(arg, ast.Starred):
                arg = arg.value
            return self.root_tag(f, arg) if isinstance(arg, (ast.Name, ast.Attribute, ast.Subscript, ast.Call)) else None
        return "*"

    def _qual(self, f, recv_expr, field: str) -> str:
        cs = sorted({c.name for c in self.ty.recv_classes(f, recv_expr)})
        if isinstance(recv_expr, ast.Name) and f.params and recv_expr.id == f.params[0] and f.cls is not None:
            cs = [(getattr(f, "self_cls", None) or f.cls).name]
        return f"{'|'.join(cs)}.{field}" if cs else field

    # --------------------------------------------------------------- M before C
    def m_before_c(self, f: FuncInfo):
        """[(M event, C event)] pairs such that some path runs M and later C."""
        cfg, per_node = self._events[f.key]
        first_m: dict[int, Event | None] = {}

        IN: dict[int, Event | None] = {n.id: None for n in cfg.nodes}
        OUT: dict[int, Event | None] = {n.id: None for n in cfg.nodes}
        found: dict[tuple, tuple] = {}
        order = list(cfg.g.nodes)
        changed = True
        rounds = 0
        while changed and rounds < 50:
            changed = False
            rounds += 1
            for i in order:
                st = None
                for p in cfg.g.predecessors(i):
                    if OUT[p] is not None:
                        st = OUT[p]
                        break
                if i == cfg.entry.id:
                    st = None
                IN[i] = st
                cur = st
                for ev in per_node.get(i, ()):
                    if ev.kind == "C" and cur is not None:
                        key = (id(cur.node), id(ev.node), ev.desc)
                        found.setdefault(key, (cur, ev))
                    elif ev.kind == "M":
                        if cur is None:
                            cur = ev
                        g = ev.callee
                        if g is not None and g is not f and self._sum.get(g.key) is not None and self._sum[g.key].dirty:
                            lk = (f.key, id(ev.node), g.key)  # AST nodes are stable; Event objects are rebuilt each round
                            late = self._late.get(lk)
                            if late is None:
                                late = self._late[lk] = Event("C", ev.node, f"call {g.local} may reject after writing", (), ev.loop, g)
                                late.late = True
                            found.setdefault((id(ev.node), id(ev.node), late.desc), (ev, late))
                if (cur is None) != (OUT[i] is None) or (cur is not None and OUT[i] is None):
                    changed = True
                if OUT[i] is None and cur is not None:
                    OUT[i] = cur
                    changed = True
        return list(found.values())


def _anc(node, stop):
    p = getattr(node, "_parent", None)
    while p is not None and p is not stop:
        yield p
        p = getattr(p, "_parent", None)
