"""E4 — statement-level control-flow graph, dominators, path queries.

One CFG node per simple statement and per compound-statement header (``if``/``while`` test,
``for`` iterable, ``with`` items, ``match`` subject, ``except`` clause).  Every statement inside a
``try`` body has an exceptional edge to each handler and to the ``finally`` copy used for abrupt
completion; an explicit ``raise`` outside a ``try`` goes to the exceptional exit.  ``finally``
bodies are built twice (normal completion / abrupt completion).
"""

from __future__ import annotations

import ast

import networkx as nx


class CNode:
    __slots__ = ("id", "kind", "ast", "part", "label")

    def __init__(self, id_, kind, ast_node=None, part=None, label=""):
        self.id = id_
        self.kind = kind  # entry | exit | rexit | stmt | test | iter | with | handler | match | join
        self.ast = ast_node
        self.part = part
        self.label = label

    @property
    def lineno(self):
        return getattr(self.ast, "lineno", 0)

    def exprs(self) -> list[ast.AST]:
        """The expressions/statements evaluated *at* this node (not the nested bodies)."""
        a = self.ast
        if a is None:
            return []
        if self.kind == "stmt":
            return [a]
        if self.kind == "test":
            return [a.test]
        if self.kind == "iter":
            return [a.iter]
        if self.kind == "with":
            out = []
            for it in a.items:
                out.append(it.context_expr)
            return out
        if self.kind == "match":
            return [a.subject]
        if self.kind == "handler":
            return [a.type] if a.type is not None else []
        return []

    def __repr__(self):
        return f"<{self.kind}#{self.id} L{self.lineno} {self.label}>"


class _Ctx:
    def __init__(self):
        self.loops: list[tuple[list, CNode]] = []  # (break collectors, continue target)
        self.tries: list[dict] = []  # {'handlers': [CNode], 'finally_abrupt': CNode|None, ...}


class CFG:
    def __init__(self, fn_node: ast.AST, calls_may_raise: bool = False):
        self.fn = fn_node
        self.calls_may_raise = calls_may_raise
        self.nodes: list[CNode] = []
        self.g = nx.DiGraph()
        self.entry = self._new("entry")
        self.exit = self._new("exit")
        self.rexit = self._new("rexit")
        self.stmt_nodes: dict[int, list[CNode]] = {}  # id(ast stmt) -> nodes
        body = (
            [ast.Return(value=fn_node.body, lineno=fn_node.lineno)]
            if isinstance(fn_node, ast.Lambda)
            else fn_node.body
        )
        self._abrupt_targets: list = []
        ctx = _Ctx()
        outs = self._seq(body, [self.entry], ctx)
        for o in outs:
            self._edge(o, self.exit)
        self._idom = None
        self._ipdom = None

    # ------------------------------------------------------------ construction
    def _new(self, kind, ast_node=None, part=None, label="") -> CNode:
        n = CNode(len(self.nodes), kind, ast_node, part, label)
        self.nodes.append(n)
        self.g.add_node(n.id)
        if ast_node is not None:
            self.stmt_nodes.setdefault(id(ast_node), []).append(n)
        return n

    def _edge(self, a: CNode, b: CNode, exc=False) -> None:
        if self.g.has_edge(a.id, b.id):
            if not exc:
                self.g[a.id][b.id]["exc"] = False
            return
        self.g.add_edge(a.id, b.id, exc=exc)

    def _exc_targets(self, ctx: _Ctx) -> list[CNode]:
        """Where an exception raised at the current point goes."""
        if ctx.tries:
            t = ctx.tries[-1]
            if t["phase"] == "body":
                tg = list(t["handlers"])
                if not t["catch_all"]:
                    tg.append(t["abrupt"])
                return tg
            # in handler / else: to finally-abrupt (or outward)
            return [t["abrupt"]]
        return [self.rexit]

    def _raise_from(self, n: CNode, ctx: _Ctx) -> None:
        for t in self._exc_targets(ctx):
            self._edge(n, t, exc=True)

    def _maybe_exc(self, n: CNode, ctx: _Ctx) -> None:
        in_try = bool(ctx.tries)
        if in_try or self.calls_may_raise:
            if any(isinstance(x, (ast.Call, ast.Subscript, ast.Attribute, ast.Raise, ast.Await,
                                  ast.BinOp, ast.Yield, ast.YieldFrom))
                   for e in n.exprs() for x in ast.walk(e)):  # fmt: skip
                self._raise_from(n, ctx)

    def _seq(self, stmts, preds: list[CNode], ctx: _Ctx) -> list[CNode]:
        for s in stmts:
            preds = self._stmt(s, preds, ctx)
        return preds

    def _link(self, preds, n: CNode) -> None:
        for p in preds:
            self._edge(p, n)

    def _stmt(self, s: ast.stmt, preds: list[CNode], ctx: _Ctx) -> list[CNode]:
        if isinstance(s, (ast.FunctionDef, ast.AsyncFunctionDef, ast.ClassDef)):
            n = self._new("stmt", s, label="def")
            self._link(preds, n)
            return [n]
        if isinstance(s, ast.If):
            t = self._new("test", s, "test", "if")
            self._link(preds, t)
            self._maybe_exc(t, ctx)
            a = self._seq(s.body, [t], ctx)
            b = self._seq(s.orelse, [t], ctx) if s.orelse else [t]
            return a + b
        if isinstance(s, (ast.For, ast.AsyncFor)):
            it = self._new("iter", s, "iter", "for")
            self._link(preds, it)
            self._maybe_exc(it, ctx)
            breaks: list[CNode] = []
            ctx.loops.append((breaks, it))
            body_out = self._seq(s.body, [it], ctx)
            ctx.loops.pop()
            self._link(body_out, it)
            out = self._seq(s.orelse, [it], ctx) if s.orelse else [it]
            return out + breaks
        if isinstance(s, ast.While):
            t = self._new("test", s, "test", "while")
            self._link(preds, t)
            self._maybe_exc(t, ctx)
            breaks = []
            ctx.loops.append((breaks, t))
            body_out = self._seq(s.body, [t], ctx)
            ctx.loops.pop()
            self._link(body_out, t)
            const_true = isinstance(s.test, ast.Constant) and bool(s.test.value)
            out = [] if const_true else (self._seq(s.orelse, [t], ctx) if s.orelse else [t])
            return out + breaks
        if isinstance(s, (ast.With, ast.AsyncWith)):
            w = self._new("with", s, "items", "with")
            self._link(preds, w)
            self._maybe_exc(w, ctx)
            return self._seq(s.body, [w], ctx)
        if isinstance(s, ast.Try) or s.__class__.__name__ == "TryStar":
            return self._try(s, preds, ctx)
        if isinstance(s, ast.Match):
            mnode = self._new("match", s, "subject", "match")
            self._link(preds, mnode)
            outs = []
            exhaustive = False
            for case in s.cases:
                outs += self._seq(case.body, [mnode], ctx)
                if isinstance(case.pattern, ast.MatchAs) and case.pattern.pattern is None and case.guard is None:
                    exhaustive = True
            if not exhaustive:
                outs.append(mnode)
            return outs
        n = self._new("stmt", s)
        self._link(preds, n)
        if isinstance(s, ast.Return):
            self._maybe_exc(n, ctx)
            self._abrupt(n, ctx, "return")
            return []
        if isinstance(s, ast.Raise):
            self._raise_from(n, ctx)
            return []
        if isinstance(s, ast.Break):
            self._abrupt(n, ctx, "break")
            return []
        if isinstance(s, ast.Continue):
            self._abrupt(n, ctx, "continue")
            return []
        self._maybe_exc(n, ctx)
        return [n]

    def _abrupt(self, n: CNode, ctx: _Ctx, kind: str) -> None:
        """return/break/continue: route through enclosing finally blocks."""
        # find enclosing tries that have a finally, innermost first, stopping at the loop for
        # break/continue
        loop_depth = len(ctx.loops)
        for t in reversed(ctx.tries):
            if kind in ("break", "continue") and t["loop_depth"] < loop_depth:
                break  # try encloses the loop: not crossed
            if t["has_finally"]:
                self._edge(n, t["abrupt"])
                t["pending"].add((kind, loop_depth))
                return
        self._abrupt_final(n, ctx, kind)

    def _abrupt_final(self, n: CNode, ctx: _Ctx, kind: str) -> None:
        if kind == "return":
            self._edge(n, self.exit)
        elif kind == "break":
            ctx.loops[-1][0].append(n)
        elif kind == "continue":
            self._edge(n, ctx.loops[-1][1])

    def _try(self, s, preds, ctx: _Ctx) -> list[CNode]:
        has_finally = bool(s.finalbody)
        handlers = [self._new("handler", h, "type", "except") for h in s.handlers]
        catch_all = any(
            h.type is None or (isinstance(h.type, ast.Name) and h.type.id == "BaseException")
            for h in s.handlers
        )
        abrupt_entry = self._new("join", s, "finally-abrupt", "finally(abrupt)") if has_finally else None
        info = {
            "handlers": handlers,
            "catch_all": catch_all,
            "abrupt": abrupt_entry,
            "has_finally": has_finally,
            "phase": "body",
            "pending": set(),
            "loop_depth": len(ctx.loops),
        }
        if not has_finally:
            # exceptions not caught here continue outward
            outer = self._exc_targets(ctx)
            prop = self._new("join", s, "propagate", "propagate")
            for t in outer:
                self._edge(prop, t, exc=True)
            info["abrupt"] = prop
        ctx.tries.append(info)
        body_out = self._seq(s.body, preds, ctx)
        info["phase"] = "else"
        else_out = self._seq(s.orelse, body_out, ctx) if s.orelse else body_out
        info["phase"] = "handler"
        h_outs = []
        for hn, h in zip(handlers, s.handlers):
            h_outs += self._seq(h.body, [hn], ctx)
        ctx.tries.pop()
        normal_out = else_out + h_outs
        if not has_finally:
            return normal_out
        # normal-completion copy
        fin_norm = self._seq(s.finalbody, normal_out, ctx) if normal_out else []
        # abrupt-completion copy
        fin_abr = self._seq(s.finalbody, [abrupt_entry], ctx)
        for o in fin_abr:
            for t in self._exc_targets(ctx):
                self._edge(o, t, exc=True)
            for kind, depth in info["pending"]:
                # continue outward through enclosing finallys
                self._abrupt_from_finally(o, ctx, kind)
        return fin_norm

    def _abrupt_from_finally(self, n: CNode, ctx: _Ctx, kind: str) -> None:
        self._abrupt(n, ctx, kind)

    # ------------------------------------------------------------------ queries
    def node_of(self, stmt: ast.AST) -> list[CNode]:
        return self.stmt_nodes.get(id(stmt), [])

    def nodes_containing(self, sub: ast.AST) -> list[CNode]:
        """CFG nodes at which ``sub`` (any AST node of this function) is evaluated."""
        out = []
        for n in self.nodes:
            for e in n.exprs():
                if e is sub or any(x is sub for x in _walk_shallow(e)):
                    out.append(n)
                    break
        return out

    def succ(self, n: CNode, exc=True) -> list[CNode]:
        return [
            self.nodes[j]
            for j in self.g.successors(n.id)
            if exc or not self.g[n.id][j].get("exc")
        ]

    def pred(self, n: CNode) -> list[CNode]:
        return [self.nodes[j] for j in self.g.predecessors(n.id)]

    def reachable_from(self, n: CNode, exc=True) -> set[int]:
        seen, stack = set(), [n.id]
        while stack:
            i = stack.pop()
            for j in self.g.successors(i):
                if not exc and self.g[i][j].get("exc"):
                    continue
                if j not in seen:
                    seen.add(j)
                    stack.append(j)
        return seen

    def dominators(self) -> dict[int, int]:
        if self._idom is None:
            self._idom = nx.immediate_dominators(self.g, self.entry.id)
        return self._idom

    def dominates(self, a: CNode, b: CNode) -> bool:
        """Every path entry→b passes through a."""
        idom = self.dominators()
        if b.id not in idom:
            return True  # unreachable
        x = b.id
        while True:
            if x == a.id:
                return True
            p = idom.get(x)
            if p is None or p == x:
                return x == a.id
            x = p

    def all_paths_through(self, src: CNode, via: set[int], targets: set[int], exc=True) -> bool:
        """Every path from src to any node in ``targets`` passes through a node in ``via``."""
        seen, stack = set(), [src.id]
        while stack:
            i = stack.pop()
            if i in via and i != src.id:
                continue
            if i in targets and i != src.id:
                return False
            for j in self.g.successors(i):
                if not exc and self.g[i][j].get("exc"):
                    continue
                if j not in seen:
                    seen.add(j)
                    stack.append(j)
        return True

    def path_exists_avoiding(self, src: CNode, dst: set[int], avoid: set[int], exc=True) -> bool:
        return not self.all_paths_through(src, avoid, dst, exc=exc)

    def forward_may(self, transfer, init=False):
        """Boolean forward may-analysis. ``transfer(node, in_state) -> out_state``."""
        IN = {n.id: False for n in self.nodes}
        OUT = {n.id: False for n in self.nodes}
        IN[self.entry.id] = init
        work = list(nx.dfs_preorder_nodes(self.g, self.entry.id))
        changed = True
        while changed:
            changed = False
            for i in work:
                n = self.nodes[i]
                if i != self.entry.id:
                    IN[i] = any(OUT[p] for p in self.g.predecessors(i))
                o = transfer(n, IN[i])
                if o != OUT[i]:
                    OUT[i] = o
                    changed = True
        return IN, OUT


def _walk_shallow(e: ast.AST):
    """Walk an expression/statement without entering nested function/class bodies, and for
    compound statements without entering their bodies."""
    stack = [e]
    while stack:
        n = stack.pop()
        yield n
        for c in ast.iter_child_nodes(n):
            if isinstance(c, (ast.FunctionDef, ast.AsyncFunctionDef, ast.ClassDef, ast.Lambda)):
                continue
            stack.append(c)


def walk_shallow(e: ast.AST):
    return _walk_shallow(e)
