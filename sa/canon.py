"""Alpha-stable text of expressions: local variable names are replaced by what they stand for.

`Canon(typer, f).cn(expr)` is `norm(expr)` with every *local* name of f (bound by assignment, loop, with, walrus or
comprehension - not parameters, not globals) replaced by
  * `<Cls>`  when the typer infers exactly one package class for it (e.g. the loop variable over a graph → `<Node>`),
  * `$k`     otherwise, k being the rank of the name's first binding in the function (stable under renaming).
Rules that have to recognise "the node's attributes" or "the tensor's dtype" compare these texts instead of spellings
of local variables, so a behaviour-preserving renaming of locals cannot change a verdict.
"""

from __future__ import annotations

import ast

from .index import FuncInfo, norm


def local_names(f: FuncInfo) -> list[str]:
    """Local names of f in order of first binding (nested function bodies excluded, comprehensions included)."""
    params = set(f.params)
    order: list[str] = []
    globals_: set[str] = set()

    def visit(n):
        for c in ast.iter_child_nodes(n):
            if isinstance(c, (ast.FunctionDef, ast.AsyncFunctionDef, ast.Lambda, ast.ClassDef)):
                continue
            if isinstance(c, (ast.Global, ast.Nonlocal)):
                globals_.update(c.names)
            # evaluation order: value before targets does not matter for ranking purposes
            if isinstance(c, ast.Name) and isinstance(c.ctx, (ast.Store, ast.Del)):
                if c.id not in order:
                    order.append(c.id)
            visit(c)

    visit(f.node)
    return [n for n in order if n not in params and n not in globals_]


class Canon:
    def __init__(self, typer, f: FuncInfo):
        self.typer, self.f = typer, f
        self.locals = local_names(f)
        self._map: dict[str, str] = {}
        for k, name in enumerate(self.locals):
            self._map[name] = f"${k}"
        self._typed: dict[str, str] = {}

    def _class_of(self, name_node: ast.Name) -> str | None:
        try:
            ts = self.typer.type_of(self.f, name_node)
        except Exception:
            return None
        cls = sorted({a[1].name for a in ts if a[0] == "cls"})
        others = [a for a in ts if a[0] not in ("cls",) and a != ("ext", "None")]
        if len(cls) == 1 and not [o for o in others if o[0] != "ext"]:
            return cls[0]
        return None

    def sym(self, name_node: ast.Name) -> str:
        """Canonical symbol of a Name node (locals only; other names unchanged)."""
        if name_node.id not in self._map:
            return name_node.id
        c = self._class_of(name_node)
        return f"<{c}>" if c else self._map[name_node.id]

    def cn(self, expr: ast.AST) -> str:
        if expr is None:
            return ""
        touched = [(x, x.id) for x in ast.walk(expr) if isinstance(x, ast.Name) and x.id in self._map]
        syms = [self.sym(x) for x, _ in touched]  # typed before any renaming
        try:
            for (x, _), s_ in zip(touched, syms):
                x.id = s_
            return norm(expr)
        finally:
            for x, old in touched:
                x.id = old

    def is_local(self, name: str) -> bool:
        return name in self._map
