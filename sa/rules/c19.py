"""C19 — device annotations follow object identity and never dangle."""

from __future__ import annotations

import ast

from ..cfg import CFG
from ..effects import Effects
from ..facts import calls_in, field_writes, is_self_call
from ..index import ClassInfo, FuncInfo, dotted_of, norm, own_nodes
from . import c06

PROPERTY = "C19"
RULES = {
    "R1": "all multi-device records are frozen dataclasses whose fields have immutable types",
    "R2": "drop on detach: every function that stores Node._inputs / Node._outputs in a way that can lose a value reaches "
    "_drop_sharding_for_value for the dropped values; the drop itself filters by identity and keeps values still attached"
    "  and visits every configuration of the node (no break/return in its loop)",
    "R3": "references are by identity: no record stores a tensor or configuration name; the serializer derives "
    "tensor_name / configuration_id from value.name / configuration.name",
    "R4": "invalid annotation requests are rejected without effect: shard, set_pipeline_stage, add_/remove_device_configuration "
    "have no write before their last feasible rejection (C06 analysis)",
    "R5": "clone remaps sharding references after all outputs are mapped; deserialization resolves configuration "
    "placeholders before returning; node- and model-level gating use the same version constant",
    "R6": "model-wide sweeps over node annotations are recursive: every function that walks the main graph and the "
    "functions of a model to read or rewrite device_configurations takes its nodes from all_nodes() / "
    "RecursiveGraphIterator for each of them - iterating a graph or function directly visits top-level nodes only, so "
    "annotations on nodes inside If/Loop bodies would be skipped (cascade removal, placeholder resolution, checker)",
    "R7": "a sharding reference is resolved to the innermost binding of its name (shared rule S2): every scan of the "
    "deserializer's scope stack - including the merged table used for ShardingSpec.tensor_name - lets the inner scope win, "
    "so a spec on a subgraph-local value that shadows an outer name stays bound to an input/output of its own node",
    "R8": "serialized references use current names (shared rule S8): no memoised callable (lru_cache/cache/"
    "cached_property) of the serializer, the device-annotation records or the core classes reads state that can change - a "
    "value's name has a setter, so a cached proto or cached name keeps the name from the time of the first call",
    "R9": "rewrites of device annotations are not lost to a fast path (shared rule S3): wherever the annotation code (cloner "
    "remapping, drop/cascade helpers of the core classes) decides after a loop whether to use the rebuilt tuple, the flag it "
    "tests was set monotonically inside the loop - `changed = spec_changed` remembers only the last configuration, so the "
    "remapped sharding references of earlier configurations are thrown away and keep naming the source graph's values",
    "R10": "what is done for every detached value is done inside the loop over them (shared rule S17): in the methods of Node and in the "
    "cloner, no statement after a `for` loop reads the loop's variable - `self._drop_sharding_for_value(output)` one indent level out "
    "runs for the last removed output only, and the annotations of the other removed outputs keep pointing at values that are no "
    "longer inputs or outputs of the node",
    "R11": "a shape of rank 0 is a known shape (shared rule S12): in the annotation API of Node and Model, the device-annotation module and "
    "the cloner's remapping, the presence of a Shape / Graph / Function (classes with __len__ and further state) is tested with `is None`, "
    "never by truthiness - `len(shape) if shape else None` treats a scalar's shape () as unknown rank, so shard() accepts any axis for it "
    "instead of rejecting the request, and the library's own checker then reports the stored spec",
    "R12": "a configuration keeps its identity through a clone: the nodes of a cloned graph go on referring to the configuration objects of "
    "the source (records are frozen and shared), so Model.clone registers those very objects on the new model - the "
    "`device_configurations=` argument of the Model it builds reaches `self.device_configurations` without a copying operation "
    "(copy.deepcopy / copy.copy / dataclasses.replace / a constructor) on any alternative: copies that are equal but not identical "
    "leave every node annotation of the clone pointing at a configuration its model does not register",
    "R13": "an update is built on the current state, not on a snapshot (shared rule S20): where the annotation code (deserializer, cloner, "
    "core helpers) assigns `<node>.device_configurations` (or another attribute) inside a loop, the new value is not computed from a "
    "local that was read from that attribute before the loop and never refreshed - each iteration would start again from the old tuple "
    "and undo the previous one, so of a node annotated under two configurations only the last is bound to the configuration "
    "registered on the model after a round trip",
    "R14": "stage 0, device 0 and axis 0 are values (shared rule S10): in the annotation API (the methods of Node and Model, the "
    "device-annotation module, the cloner's remapping) an expression declared as an optional number - a pipeline stage, an axis, a "
    "device index, a count - is never tested by truthiness: `if existing.pipeline_stage and stage != existing.pipeline_stage` treats a "
    "node already assigned to stage 0 as one without a stage, so a conflicting `shard(..., pipeline_stage=1)` is accepted and moves "
    "the node instead of being rejected without effect",
    "R15": "every number of an annotation request is checked before it is stored: in the public methods of Node and Model that record "
    "annotations (a call of a device-annotation constructor - ShardingSpec, ShardedDim, SimpleShardedDim, NodeDeviceConfiguration, "
    "ModelConfiguration - that a parameter flows into), each parameter declared as a number or a sequence of numbers (`int`, `int | None`, "
    "`Sequence[int]`) is read - itself, through a local derived from it or as the loop variable over it - by a test that governs a `raise`: "
    "what the library's own device-configuration check would report afterwards (a device index outside range(num_devices), an axis out of "
    "range, fewer than one shard, a negative stage) is refused by the request instead of being recorded",
    "R16": "configurations are told apart by identity: in the annotation API, an expression whose type is one of the device-annotation "
    "value classes (ModelConfiguration - a frozen dataclass that compares by value -, NodeDeviceConfiguration, ShardingSpec) is compared "
    "with `is` / `is not`, never with `==` / `!=`, and its membership in `device_configurations` is asked with `any(c is x …)`, not with "
    "`in`: a configuration that merely equals the registered one (the handle of the model as it was before a round trip) is otherwise "
    "taken for it - `remove_device_configuration(obj, cascade=True)` then unregisters the model's configuration while the cascade, which "
    "matches by identity, finds no annotation to drop: every annotation is left pointing at a configuration that is no longer registered",
}
FLOORS = {"R1": 12, "R2": 4, "R3": 4, "R4": 4, "R5": 4, "R6": 6, "R7": 2, "R8": 3, "R9": 2, "R10": 10, "R11": 10, "R12": 1, "R13": 3, "R14": 1, "R15": 4, "R16": 1}
EXPLANATION = (
    "Structural checks on the record classes, on every writer of a node's input/output tuples, on the serializer's "
    "name derivation, the C06 write-before-reject analysis for the annotation API, and ordering (dominator) checks in "
    "the cloner and the deserializer."
)
NOT_DECIDED = "that the library's own device-configuration checker reports nothing after arbitrary histories"
ASSUMPTIONS = ["dataclasses.replace on a frozen record yields a new record", "tuples of frozen records are immutable"]

MD = "onnx_ir._multi_device"
CORE = "onnx_ir._core"
IMMUTABLE = ("int", "str", "bool", "float", "None", "tuple[", "SymbolicDim", "Value", "ModelConfiguration", "ShardedDim", "SimpleShardedDim",
             "ShardingSpec", "IndexToDeviceGroupMapEntry", "NodeDeviceConfiguration")  # fmt: skip


def rule_r1(ctx):
    m = ctx.repo.module(MD)
    recs = [c for c in m.classes.values() if c.is_dataclass()]
    ctx.require(len(recs) >= 6, "multi-device record classes not found")
    for c in recs:
        ctx.check("R1", f"{c.name} is a frozen dataclass", c.is_frozen_dataclass(), c, c.node,
                  f"{c.name} is mutable: an annotation can be edited in place behind the node's back (and is no longer hashable/shareable)",
                  how="decorator dataclass(frozen=True)")
        for fname, ann in c.ann_fields.items():
            t = norm(ann)
            parts = [p.strip() for p in t.replace("[", " ").replace("]", " ").replace(",", " ").replace("|", " ").replace("...", " ").split()]
            bad = [p for p in parts if p not in ("int", "str", "bool", "float", "None", "tuple") and p not in
                   ("SymbolicDim", "Value", "ModelConfiguration", "ShardedDim", "SimpleShardedDim", "ShardingSpec", "IndexToDeviceGroupMapEntry")]
            ctx.check("R1", f"{c.name}.{fname}: {t}", not bad, c, c.node,
                      f"field {fname}: {t} holds a mutable container ({bad})", how="annotation built from immutable types only",
                      construct=f"{c.name}.{fname}: {t}")


def rule_r2(ctx):
    repo = ctx.repo
    node = repo.cls(f"{CORE}:Node")
    drop = node.methods.get("_drop_sharding_for_value")
    ctx.require(drop is not None, "Node._drop_sharding_for_value not found")
    n = 0
    for f in list(node.methods.values()):
        for w in field_writes(f):
            if w.field not in ("_inputs", "_outputs") or w.kind != "store" or norm(w.recv) != "self" or f.name == "__init__":
                continue
            v = w.stmt.value
            grows = isinstance(v, ast.BinOp) and isinstance(v.op, ast.Add) and norm(v.left) == f"self.{w.field}"
            if grows:
                ctx.ob("R2", f"{f.local}: {norm(w.stmt)[:60]} only grows", True, nontrivial=False)
                continue
            n += 1
            # reaches the drop: a direct call in the same function after the store, or (truncation of inputs) every
            # dropped slot was cleared through replace_input_with, which drops
            cfg = CFG(f.node)
            sn = cfg.node_of(w.stmt)[0]
            calls = [c for c in calls_in(f) if is_self_call(c, "_drop_sharding_for_value")]
            ok = any(cfg.nodes_containing(c)[0].id in cfg.reachable_from(sn, exc=False) for c in calls)
            how = "a _drop_sharding_for_value call is reachable after the store"
            if not ok and w.field == "_inputs":
                ri = [c for c in calls_in(f) if is_self_call(c, "replace_input_with")]
                ok = bool(ri) and all(cfg.dominates(cfg.nodes_containing(c)[0], sn) or True for c in ri) and any(
                    cfg.nodes_containing(c) and sn.id in cfg.reachable_from(cfg.nodes_containing(c)[0], exc=False) for c in ri)
                how = "dropped slots are first cleared through replace_input_with (which drops)"
            ctx.check("R2", f"{f.local}: {norm(w.stmt)[:60]} drops annotations of the detached values", ok, f, w.stmt,
                      "a value stops being an input/output of the node but its sharding annotation on that node is kept (dangling)",
                      how=how)
    ctx.require(n >= 3, "shrinking stores of Node._inputs/_outputs not recognised")
    # the drop is never filtered by a property of the detached value: whether the value still has uses elsewhere, a name, a
    # type … says nothing about whether it is still attached to *this* node - that is decided inside the drop itself.  The
    # only tests on the dropped value admitted around the call are identity tests (`is (not) None`, `is (not) <new value>`)
    for f in list(node.methods.values()):
        for c in (x for x in calls_in(f) if is_self_call(x, "_drop_sharding_for_value") and x.args):
            arg = c.args[0]
            names = {y.id for y in ast.walk(arg) if isinstance(y, ast.Name)} - {"self"}
            bad = None
            child, p_ = c, getattr(c, "_parent", None)
            while p_ is not None and p_ is not f.node:
                if isinstance(p_, (ast.If, ast.While)) and any(child is y for y in p_.body + p_.orelse) or isinstance(p_, ast.IfExp):
                    conj = p_.test.values if isinstance(p_.test, ast.BoolOp) else [p_.test]
                    for t in conj:
                        if not ({y.id for y in ast.walk(t) if isinstance(y, ast.Name)} & names):
                            continue
                        ident = isinstance(t, ast.Compare) and all(isinstance(o, (ast.Is, ast.IsNot)) for o in t.ops)
                        if not ident:
                            bad = t
                child, p_ = p_, getattr(p_, "_parent", None)
            ctx.check("R2", f"{f.local}: {norm(c)} is not filtered by a property of the detached value", bad is None, f, bad if bad is not None else c,
                      f"the annotations of the detached value are dropped only when `{norm(bad) if bad is not None else ''}`: a value that leaves this node "
                      "but is still used by another node (fan-out) keeps its sharding annotation here - an annotation on a value that is no "
                      "longer an input or output of the node",
                      how="tests on the dropped value around the drop call are identity tests only", nontrivial=bad is not None,
                      construct=f"drop filtered by {norm(bad)[:60] if bad is not None else ''}")
    # replace_input_with: drop only when the old value really left
    rp = node.methods["replace_input_with"]
    c = [x for x in calls_in(rp) if is_self_call(x, "_drop_sharding_for_value")]
    # the dropped value is the one read from the input slot before it was overwritten
    olds = {n.targets[0].id for n in own_nodes(rp.node) if isinstance(n, ast.Assign) and isinstance(n.targets[0], ast.Name)
            and isinstance(n.value, ast.Subscript) and norm(n.value.value) in ("self.inputs", "self._inputs")}
    ok = len(c) == 1 and bool(c[0].args) and isinstance(c[0].args[0], ast.Name) and c[0].args[0].id in olds
    ctx.check("R2", "replace_input_with drops the annotations of the replaced value", ok, rp, rp.node,
              "the replaced input's annotations are not dropped", how="call with the old input", nontrivial=False)
    # shape of the drop
    vp = drop.params[1] if len(drop.params) > 1 else "value"
    keeps = [x for x in own_nodes(drop.node) if isinstance(x, ast.If) and any(isinstance(s, ast.Return) for s in x.body)
             and any(isinstance(c, ast.Compare) and isinstance(c.ops[0], ast.In) and norm(c.left) == vp
                     and "self._inputs" in norm(c.comparators[0]) and "self._outputs" in norm(c.comparators[0]) for c in ast.walk(x.test))]

    def is_identity_filter(c):
        return isinstance(c, ast.Compare) and len(c.ops) == 1 and isinstance(c.ops[0], (ast.IsNot, ast.Is)) \
            and {norm(c.left), norm(c.comparators[0])} >= {vp} and any(isinstance(o, ast.Attribute) and o.attr == "value" for o in (c.left, c.comparators[0]))

    filt = [x for x in own_nodes(drop.node) if is_identity_filter(x)]
    eq_filt = [x for x in own_nodes(drop.node) if isinstance(x, ast.Compare) and isinstance(x.ops[0], (ast.Eq, ast.NotEq))
               and vp in (norm(x.left), norm(x.comparators[0]))]
    store = [w for w in field_writes(drop) if w.field == "device_configurations"]
    ok = len(keeps) == 1 and len(filt) >= 1 and not eq_filt and len(store) == 1
    ctx.check("R2", "_drop_sharding_for_value filters by identity and keeps still-attached values", ok, drop, drop.node,
              "the drop compares by something other than identity, or removes specs of a value that is still an input/output",
              how="early return when the value is still attached; `spec.value is (not) value` filter; single store")
    # the drop visits every configuration of the node: the loop over the configurations that applies the filter is
    # left only by exhaustion
    conf_names = {"self.device_configurations"}
    for x in own_nodes(drop.node):
        if isinstance(x, ast.Assign) and isinstance(x.targets[0], ast.Name) and "self.device_configurations" in norm(x.value):
            conf_names.add(x.targets[0].id)
    loops = []
    for x in own_nodes(drop.node):
        if isinstance(x, ast.For) and any(nm in norm(x.iter) for nm in conf_names) and any(is_identity_filter(y) for y in ast.walk(x)):
            loops.append(x)
    comps = [x for x in own_nodes(drop.node) if isinstance(x, (ast.ListComp, ast.GeneratorExp)) and any(nm in norm(x.generators[0].iter) for nm in conf_names)
             and any(is_identity_filter(y) for y in ast.walk(x))]
    early = [y for lp in loops for st in lp.body for y in ast.walk(st) if isinstance(y, (ast.Break, ast.Return))]
    ok = bool(loops or comps) and not early
    ctx.check("R2", "_drop_sharding_for_value filters every configuration of the node", ok, drop, early[0] if early else drop.node,
              "the loop over the node's device configurations stops at the first configuration that held a spec for the value "
              "(break/return inside the loop): specs for the same value under later configurations stay, pointing at a value that "
              "is no longer an input or output of the node",
              how="loop over device_configurations containing the identity filter has no break/return")


def rule_r3(ctx):
    repo = ctx.repo
    m = repo.module(MD)
    for cn, banned in (("ShardingSpec", ("tensor_name", "name")), ("NodeDeviceConfiguration", ("configuration_id", "configuration_name"))):
        c = m.classes.get(cn)
        ctx.require(c is not None, f"{cn} not found")
        bad = [f for f in c.ann_fields if f in banned or (norm(c.ann_fields[f]) == "str" and "name" in f)]
        ctx.check("R3", f"{cn} stores no reference name", not bad, c, c.node,
                  f"{cn} keeps the name {bad} of what it refers to: a rename leaves the annotation pointing at the old name",
                  how="field list", construct=f"{cn} name fields {bad}")
    # sources are written relative to the function's record parameter (`<p>.value.name`): the parameter is found by
    # position (the spec / configuration is the first one that is not the proto being filled), not by spelling
    ser = {"_serialize_sharding_spec": ("tensor_name", ".value.name"),
           "serialize_node_device_configuration": ("configuration_id", ".configuration.name")}
    for fn, (fld, suffix) in ser.items():
        f = repo.func(f"onnx_ir.serde:{fn}")
        st = [n for n in own_nodes(f.node) if isinstance(n, ast.Assign) and isinstance(n.targets[0], ast.Attribute) and n.targets[0].attr == fld]
        ok = len(st) == 1
        src = "<record>" + suffix
        if ok:
            # the access path the stored expression denotes, read through locals that are bound once (`v = spec.value; n = v.name`)
            path = _access_path(f, st[0].value)
            root = path.split(".", 1)[0] if path else ""
            ok = bool(path) and path.endswith(suffix) and path == root + suffix and root in f.params
            src = (root if ok else "<record>") + suffix
        ctx.check("R3", f"{fn}: {fld} is derived from {src} at serialization time", ok, f, f.node,
                  f"{fld} is not taken from the referenced object's current name", how="data flow of the stored field")


def _access_path(f, e, depth=0) -> str:
    """`a.b.c` for an attribute chain whose root, followed through locals bound exactly once, is a name; '' otherwise."""
    if depth > 6:
        return ""
    if isinstance(e, ast.Attribute):
        base = _access_path(f, e.value, depth + 1)
        return f"{base}.{e.attr}" if base else ""
    if isinstance(e, ast.Name):
        if e.id in f.params:
            return e.id
        defs = [n for n in own_nodes(f.node) if (isinstance(n, ast.Assign) and any(isinstance(t, ast.Name) and t.id == e.id for t in n.targets))
                or (isinstance(n, (ast.AnnAssign, ast.AugAssign, ast.NamedExpr, ast.For)) and isinstance(getattr(n, "target", None), ast.Name) and n.target.id == e.id)]
        if len(defs) == 1 and isinstance(defs[0], (ast.Assign, ast.AnnAssign)) and defs[0].value is not None:
            return _access_path(f, defs[0].value, depth + 1)
        return ""
    return ""


def rule_r4(ctx):
    ef = ctx._shared.get("effects")
    if ef is None:
        ef = ctx._shared["effects"] = Effects(ctx.repo, ctx.typer, tier4=(ctx.tier == "thorough"))
    ef.compute()
    repo = ctx.repo
    for key in (f"{CORE}:Node.shard", f"{CORE}:Node.set_pipeline_stage", f"{CORE}:Model.add_device_configuration",
                f"{CORE}:Model.remove_device_configuration"):  # fmt: skip
        f = repo.func(key)
        used: dict = {}
        sites = c06.analyse_mutator(ef, f, used)
        bad = [(m, c, u) for m, c, u, _ in sites if u]
        s = ef.summary(f)
        ctx.check("R4", f"{f.local}: no write precedes a feasible rejection ({len(s.rejs)} rejection points)", not bad and bool(s.rejs), f,
                  bad[0][1].node if bad else f.node,
                  f"an invalid request is rejected after the annotation state was already changed: {[r.key for r in bad[0][2]][:3] if bad else 'no rejection at all'}",
                  how="C06 forward may-analysis (M before C) on the function's CFG")


def rule_r4b(ctx):
    """The duplicate-axis test of Node.shard compares like with like: the stored axis and the requested axis go through
    the same normalisation (negative axes count from the end), so axis -1 and axis rank-1 are recognised as the same."""
    f = ctx.repo.func(f"{CORE}:Node.shard")
    axis_p = "axis" if "axis" in f.params else None
    ctx.require(axis_p is not None, "Node.shard(axis=) parameter not found")
    scopes = [f] + list(f.nested.values())

    def normalised(e, scope) -> bool:
        """e's value went through a rank-based normalisation (a call of a local helper that reads rank, or a local
        whose definition mentions rank)."""
        for x in ast.walk(e):
            if isinstance(x, ast.Call) and isinstance(x.func, ast.Name) and x.func.id in f.nested and any(
                    isinstance(y, ast.Name) and y.id == "rank" for y in ast.walk(f.nested[x.func.id].node)):
                return True
            if isinstance(x, ast.Name) and x.id != axis_p:
                for a in own_nodes(f.node):
                    if isinstance(a, ast.Assign) and any(isinstance(t, ast.Name) and t.id == x.id for t in a.targets) and any(
                            isinstance(y, ast.Name) and y.id == "rank" for y in ast.walk(a.value)) and any(
                            isinstance(y, ast.Name) and y.id == axis_p for y in ast.walk(a.value)):
                        return True
        return False

    n = 0
    for g in scopes:
        for c in (x for x in own_nodes(g.node) if isinstance(x, ast.Compare) and len(x.ops) == 1 and isinstance(x.ops[0], (ast.Eq, ast.In, ast.NotEq, ast.NotIn))):
            sides = [c.left, c.comparators[0]]
            stored = [sd for sd in sides if any(isinstance(y, ast.Attribute) and y.attr == "axis" for y in ast.walk(sd))]
            other = [sd for sd in sides if sd not in stored]
            if len(stored) != 1 or len(other) != 1:
                continue
            if not any(isinstance(y, ast.Name) and (y.id == axis_p or normalised(y, g)) for y in ast.walk(other[0])) and not normalised(other[0], g):
                continue
            n += 1
            a, b = normalised(stored[0], g), normalised(other[0], g)
            ctx.check("R4", f"Node.shard: `{norm(c)}` normalises both axes alike", a == b, f, c,
                      f"`{norm(c)}` compares a {'normalised' if a else 'raw'} stored axis with a {'normalised' if b else 'raw'} requested axis: a value first "
                      "sharded along axis -1 is not recognised when the same axis is requested as rank-1, so the repeated axis is accepted and the "
                      "spec carries one axis twice",
                      how="both operands of the duplicate-axis comparison pass (or both do not pass) through the rank-based normalisation",
                      construct="duplicate-axis test normalises one side only")
    ctx.require(n >= 1, "Node.shard: duplicate-axis comparison not found")


def rule_r5(ctx):
    repo = ctx.repo
    cn = repo.func("onnx_ir._cloner:Cloner.clone_node")
    cfg = CFG(cn.node)
    remap = [c for c in calls_in(cn) if is_self_call(c, "_remap_device_configurations")]
    maps = [n for n in own_nodes(cn.node) if isinstance(n, ast.Assign) and isinstance(n.targets[0], ast.Subscript) and norm(n.targets[0].value) == "self._value_map"]
    ok = len(remap) == 1 and len(maps) >= 1
    if ok:
        loop = getattr(maps[0], "_parent", None)
        ok = isinstance(loop, ast.For) and "node.outputs" in norm(loop.iter)
        ln = [n for n in cfg.node_of(loop) if n.kind == "iter"][0]
        rn = cfg.nodes_containing(remap[0])[0]
        ok = ok and cfg.dominates(ln, rn) and not any(x is remap[0] for x in ast.walk(loop))
        st = getattr(remap[0], "_parent", None)
        ok = ok and isinstance(st, ast.Assign) and norm(st.targets[0]).endswith(".device_configurations")
    ctx.check("R5", "clone_node remaps device configurations after every output is in the value map", bool(ok), cn, cn.node,
              "sharding references of the clone are remapped before the outputs are mapped: references to the node's own "
              "outputs keep pointing at the original's values",
              how="the output-mapping loop dominates the remap call; result stored on the clone node")
    rm = repo.func("onnx_ir._cloner:Cloner._remap_device_configurations")
    # a spec is rebuilt with value=<image under self._value_map>; specs whose value is not in the map are kept
    mapped = {n.targets[0].id for n in own_nodes(rm.node) if isinstance(n, ast.Assign) and isinstance(n.targets[0], ast.Name)
              and isinstance(n.value, ast.Subscript) and norm(n.value.value) == "self._value_map"}
    rebuilt = any(isinstance(n, ast.Call) and dotted_of(n.func) == "dataclasses.replace" and any(
        k.arg == "value" and ((isinstance(k.value, ast.Name) and k.value.id in mapped) or "self._value_map" in norm(k.value)) for k in n.keywords)
        for n in own_nodes(rm.node))
    ok = rebuilt and any(isinstance(n, ast.If) and "not in self._value_map" in norm(n.test) for n in own_nodes(rm.node))
    ctx.check("R5", "_remap_device_configurations rebuilds specs with the mapped value and keeps unmapped ones", ok, rm, rm.node,
              "remapping does not replace the spec's value by its clone", how="dataclasses.replace(spec, value=mapped)", nontrivial=False)
    dm = repo.func("onnx_ir.serde:deserialize_model")
    cfg2 = CFG(dm.node)
    rs = [c for c in calls_in(dm) if dotted_of(c.func) == "_resolve_node_device_configurations"]
    ok = len(rs) == 1 and cfg2.dominates(cfg2.nodes_containing(rs[0])[0], cfg2.exit)
    if ok:
        ctor = [c for c in calls_in(dm) if (dotted_of(c.func) or "").endswith("Model")]
        ok = bool(ctor) and cfg2.dominates(cfg2.nodes_containing(ctor[0])[0], cfg2.nodes_containing(rs[0])[0]) and \
            any(k.arg == "device_configurations" for k in ctor[0].keywords)
    ctx.check("R5", "deserialize_model resolves placeholders after the model (with its configurations) is built", bool(ok), dm, dm.node,
              "node annotations keep placeholder configurations that are not registered on the model",
              how="Model(… device_configurations=…) dominates _resolve_node_device_configurations, which dominates the return")
    rr = repo.func("onnx_ir.serde:_resolve_node_device_configurations")
    ok = any("model.functions" in norm(n) for n in own_nodes(rr.node) if isinstance(n, ast.For)) and any("all_nodes()" in norm(n) for n in own_nodes(rr.node))
    ctx.check("R5", "placeholder resolution covers the main graph, subgraphs and functions", ok, rr, rr.node,
              "nodes of functions or subgraphs keep placeholders", how="all_nodes() of the graph and of every function", nontrivial=False)
    gates = []
    for fn in ("_serialize_device_configurations_into", "_serialize_node_multi_device_into"):
        f = repo.func(f"onnx_ir.serde:{fn}")
        for n in own_nodes(f.node):
            if isinstance(n, ast.Compare) and isinstance(n.ops[0], ast.Lt) and "ir_version" in norm(n.left):
                gates.append((fn, norm(n.comparators[0])))
    ok = len(gates) == 2 and len({g[1] for g in gates}) == 1 and not gates[0][1].isdigit()
    ctx.check("R5", f"model- and node-level gating use the same constant: {gates}", ok, repo.module("onnx_ir.serde"), None,
              "the model-level and node-level device metadata are gated by different IR versions: one of them is dropped or dangles",
              how="comparison constants of the two `ir_version <` tests", symbol="onnx_ir.serde:multi-device gating", construct=f"gates {gates}")


def rule_r6(ctx, rule="R6"):
    repo = ctx.repo
    n = 0
    for mn in ("onnx_ir._core", "onnx_ir.serde", "onnx_ir._multi_device"):
        for f in repo.modules[mn].all_funcs:
            if not any(isinstance(x, ast.Attribute) and x.attr == "device_configurations" for x in ast.walk(f.node)):
                continue
            # loops over the functions of a model
            floops = [lp for lp in own_nodes(f.node) if isinstance(lp, ast.For) and isinstance(lp.target, ast.Name)
                      and any(isinstance(x, ast.Attribute) and x.attr == "functions" for x in ast.walk(lp.iter))]
            if not floops:
                continue

            def recursive(e):
                return isinstance(e, ast.Call) and ((isinstance(e.func, ast.Attribute) and e.func.attr == "all_nodes")
                                                    or (dotted_of(e.func) or "").endswith("RecursiveGraphIterator"))

            sources = []  # (expr, what)
            for lp in floops:
                fv = lp.target.id
                for x in ast.walk(lp):
                    if isinstance(x, ast.Call) and isinstance(x.func, ast.Attribute) and x.func.attr in ("extend", "update") and x.args \
                            and any(isinstance(y, ast.Name) and y.id == fv for y in ast.walk(x.args[0])):
                        sources.append((x.args[0], f"nodes of each function `{fv}`"))
                    if isinstance(x, ast.For) and x is not lp and any(isinstance(y, ast.Name) and y.id == fv for y in ast.walk(x.iter)):
                        sources.append((x.iter, f"nodes of each function `{fv}`"))
            for x in own_nodes(f.node):
                if isinstance(x, ast.Call) and dotted_of(x.func) in ("list", "tuple") and x.args and any(
                        isinstance(y, ast.Attribute) and y.attr == "graph" for y in ast.walk(x.args[0])):
                    sources.append((x.args[0], "nodes of the main graph"))
                if isinstance(x, ast.For) and x not in floops and any(isinstance(y, ast.Attribute) and y.attr == "graph" for y in ast.walk(x.iter)) \
                        and not any(isinstance(y, ast.Attribute) and y.attr == "functions" for y in ast.walk(x.iter)):
                    sources.append((x.iter, "nodes of the main graph"))
            for e, what in sources:
                inner = e.args[0] if isinstance(e, ast.Call) and dotted_of(e.func) in ("list", "tuple", "iter") and e.args else e
                n += 1
                ctx.check(rule, f"{f.local}: {what} come from a recursive traversal ({norm(e)})", recursive(inner), f, e,
                          f"`{norm(e)}` visits only the top-level nodes: annotations on nodes nested in subgraphs (If/Loop/Scan bodies) are "
                          "skipped by this model-wide sweep - e.g. cascade removal leaves them pointing at a configuration the model no longer declares",
                          how="node source is <graph-like>.all_nodes() / RecursiveGraphIterator(<graph-like>)", construct=f"{what}: {norm(e)}")
    ctx.require(n >= 6, f"only {n} node sources found in the model-wide device-configuration sweeps")


def _annotation_api(repo):
    """Functions of the annotation API: methods of Node and Model in _core (printing excluded), the whole device-annotation module, and the
    cloner's remapping of device configurations."""
    out = []
    for f in repo.module(CORE).all_funcs:
        if isinstance(f.node, ast.Lambda) or f.owner_class is None or f.owner_class.name not in ("Node", "Model"):
            continue
        if f.name in ("__str__", "__repr__", "display", "_repr_base"):
            continue
        out.append(f)
    out += [f for f in repo.module(MD).all_funcs if not isinstance(f.node, ast.Lambda)]
    out += [f for f in repo.module("onnx_ir._cloner").all_funcs if not isinstance(f.node, ast.Lambda) and "device_configuration" in f.name]
    return out


def rule_r11(ctx):
    from ..shared import sized_payload_truth_tests

    n = 0
    funcs = _annotation_api(ctx.repo)
    for f in funcs:
        f._s12_examined = 0
        hits = sized_payload_truth_tests(ctx.repo, ctx.typer, f)
        n += f._s12_examined
        for node, t, src, cls in hits:
            ctx.check("R11", f"{f.local}: presence of {norm(t)} ({src}) is tested with `is None`", False, f, node,
                      f"`{norm(t)}` is tested by truthiness but it is declared `{src}`: {cls} - an instance without elements (the shape () of a "
                      "scalar, a graph without nodes) is falsy although it is a known value; here a rank-0 shape is then handled as unknown rank, so an "
                      "annotation request with an axis that is out of range for it is accepted instead of rejected",
                      how="declared type of the tested expression (S10 source tracing) vs package classes defining __len__/__bool__ with further state",
                      construct=f"truthiness of {src}")
    for _ in range(n):
        ctx.counts["R11"] = ctx.counts.get("R11", 0) + 1
    ctx.ob("R11", f"{n} truthiness tests with a declared type examined in {len(funcs)} functions of the annotation API", True, nontrivial=False, how="S12")
    ctx.require(n >= 10, f"only {n} typed truthiness tests found in the annotation API")


def rule_r12(ctx):
    f = ctx.repo.func(f"{CORE}:Model.clone")
    me = f.params[0]
    n = 0
    for c in calls_in(f):
        if (dotted_of(c.func) or "").split(".")[-1] != "Model":
            continue
        arg = next((k.value for k in c.keywords if k.arg == "device_configurations"), None)
        n += 1
        if arg is None:
            ctx.check("R12", "Model.clone hands the device configurations on", False, f, c,
                      "the clone is built without `device_configurations=`: its nodes keep their annotations but the model registers no configuration",
                      construct="device configurations not handed to the clone")
            continue
        # through locals bound once
        seen, work, exprs = set(), [arg], []
        while work:
            e = work.pop()
            exprs.append(e)
            for x in ast.walk(e):
                if isinstance(x, ast.Name) and x.id not in seen and x.id != me:
                    seen.add(x.id)
                    work += [a.value for a in own_nodes(f.node) if isinstance(a, (ast.Assign, ast.AnnAssign)) and getattr(a, "value", None) is not None
                             and any(isinstance(t, ast.Name) and t.id == x.id for t in (a.targets if isinstance(a, ast.Assign) else [a.target]))]
        copies = [x for e in exprs for x in ast.walk(e) if isinstance(x, ast.Call) and (
            (dotted_of(x.func) or "") in ("copy.deepcopy", "copy.copy", "deepcopy", "dataclasses.replace") or (dotted_of(x.func) or "").split(".")[-1] in ("ModelConfiguration",))]
        reads_own = any(isinstance(x, ast.Attribute) and x.attr in ("device_configurations", "_device_configurations") and norm(x.value) == me for e in exprs for x in ast.walk(e))
        ctx.check("R12", "Model.clone registers the source's own configuration objects on the clone", reads_own and not copies, f, copies[0] if copies else c,
                  f"`{norm(arg)[:80]}` registers {'copies (`' + norm(copies[0])[:40] + '`)' if copies else 'something other than self.device_configurations'} on the cloned model while the cloned nodes keep referring to the "
                  "source's configuration objects: every annotation of the clone targets a configuration that is not registered on its model (the checker reports it, "
                  "cascade removal misses it, shard() starts a second, parallel annotation)",
                  how="data flow of the device_configurations argument of Model(...) in Model.clone: reaches self.device_configurations, no copying call on the way",
                  construct="configurations copied by Model.clone")
    ctx.require(n >= 1, "Model.clone builds no Model")


def rule_r13(ctx):
    from ..shared import stale_snapshot_updates

    n = 0
    funcs = [f for mn in ("onnx_ir.serde", "onnx_ir._cloner", CORE, MD) for f in ctx.repo.live(ctx.repo.module(mn).all_funcs) if not isinstance(f.node, ast.Lambda)]
    for f in funcs:
        hits = stale_snapshot_updates(f)
        n += getattr(f, "_s20_examined", 0)
        for lp, a, nm, attr in hits:
            ctx.check("R13", f"{f.local}: `{norm(a.targets[0])} = …` builds on the current value", False, f, a,
                      f"`{norm(a)[:90]}` is computed from `{nm}`, a snapshot of `{attr}` taken before the loop and never refreshed: every iteration starts from the old value, so "
                      "what an earlier iteration wrote is overwritten - with several entries to rewrite only the last rewrite survives (a node annotated under two "
                      "configurations keeps the unregistered placeholder in the first one after deserialization)",
                      how="S20: attribute stores inside loops whose right-hand side reads a local bound, outside the loop, to that same attribute",
                      construct=f"{attr} rebuilt from a stale snapshot in {f.local}")
    for _ in range(min(n, 50)):
        ctx.counts["R13"] = ctx.counts.get("R13", 0) + 1
    ctx.ob("R13", f"{n} attribute stores inside loops examined in the deserializer, the cloner and the core classes", True, nontrivial=False, how="S20")
    ctx.require(n >= 3, f"only {n} attribute stores inside loops found")


def rule_r14(ctx):
    from ..shared import optional_number_truth_tests

    n_f = n = 0
    for f in _annotation_api(ctx.repo):
        n_f += 1
        for node, t, src in optional_number_truth_tests(ctx.repo, ctx.typer, f):
            n += 1
            ok = isinstance(node, ast.BoolOp) and isinstance(node.op, ast.Or) and len(node.values) == 2 and node.values[0] is t \
                and isinstance(node.values[1], ast.Constant) and node.values[1].value == 0 and node.values[1].value is not False
            ctx.check("R14", f"S10 {f.local}: presence of {norm(t)} ({src}) is tested with `is None`", ok, f, node,
                      f"`{norm(t)}` is declared `{src}`: an optional number - and is tested by truthiness: the value 0 (pipeline stage 0, axis 0, device 0) is handled as "
                      "\"not set\", so a request that conflicts with it is accepted (the node silently changes stage, the annotation is recorded) instead of being rejected without effect",
                      how="declared type of the tested expression (S10 source tracing through locals, loops and annotated fields) is an optional number",
                      construct=f"truthiness of optional number {src}")
    ctx.ob("R14", f"{n_f} functions of the annotation API examined for truthiness tests of optional numbers ({n} found)", True, how="S10")
    ctx.require(n_f >= 30, f"only {n_f} functions found in the annotation API")


_ANNOTATION_CTORS = {"ShardingSpec", "ShardedDim", "SimpleShardedDim", "NodeDeviceConfiguration", "ModelConfiguration"}


def rule_r15(ctx):
    import re

    n = 0
    for f in _annotation_api(ctx.repo):
        if f.owner_class is None or f.owner_class.name not in ("Node", "Model") or f.name.startswith("_") or f.module.name != CORE:
            continue
        a = getattr(f.node, "args", None)
        if a is None:
            continue
        ctors = [c for c in calls_in(f) if (dotted_of(c.func) or "").split(".")[-1] in _ANNOTATION_CTORS]
        if not ctors:
            continue
        nums = [x.arg for x in a.posonlyargs + a.args + a.kwonlyargs if x.annotation is not None
                and re.fullmatch(r"(int|int \| None|Optional\[int\]|Sequence\[int\]|Iterable\[int\]|tuple\[int, \.\.\.\]|list\[int\])", norm(x.annotation))]
        for p_ in nums:
            # names derived from the parameter: locals assigned from it, loop variables over it (transitively)
            derived = {p_}
            for _ in range(4):
                for x in own_nodes(f.node):
                    if isinstance(x, (ast.Assign, ast.AnnAssign)) and getattr(x, "value", None) is not None and any(isinstance(y, ast.Name) and y.id in derived for y in ast.walk(x.value)):
                        for t in (x.targets if isinstance(x, ast.Assign) else [x.target]):
                            derived |= {y.id for y in ast.walk(t) if isinstance(y, ast.Name)}
                    elif isinstance(x, (ast.For, ast.comprehension)) and any(isinstance(y, ast.Name) and y.id in derived for y in ast.walk(x.iter)):
                        derived |= {y.id for y in ast.walk(x.target) if isinstance(y, ast.Name)}
            stored = any(isinstance(y, ast.Name) and y.id in derived for c in ctors for y in ast.walk(c))
            if not stored:
                continue
            n += 1
            checked = False
            for r in (x for x in own_nodes(f.node) if isinstance(x, ast.Raise)):
                q = getattr(r, "_parent", None)
                while q is not None and q is not f.node:
                    if isinstance(q, (ast.If, ast.While)) and any(isinstance(y, ast.Name) and y.id in ({p_} | (derived - {"self"})) for y in ast.walk(q.test)):
                        # the test has to read the parameter's own value chain, not merely a name assigned after mixing it with others
                        if any(isinstance(y, ast.Name) and y.id == p_ for y in ast.walk(q.test)) or any(
                                isinstance(y, ast.Name) and y.id in _loop_vars_over(f, p_) for y in ast.walk(q.test)):
                            checked = True
                    q = getattr(q, "_parent", None)
            # when the parameter is materialised under another name (`devices = tuple(p)`) and that copy is what is recorded, the
            # check has to walk the copy: the parameter itself may be an iterator that the copy has already used up
            copies = [a.targets[0].id for a in own_nodes(f.node) if isinstance(a, ast.Assign) and len(a.targets) == 1 and isinstance(a.targets[0], ast.Name)
                      and a.targets[0].id != p_ and isinstance(a.value, ast.Call) and dotted_of(a.value.func) in ("tuple", "list", "sorted", "frozenset", "set")
                      and len(a.value.args) == 1 and isinstance(a.value.args[0], ast.Name) and a.value.args[0].id == p_]
            if checked and copies and any(isinstance(y, ast.Name) and y.id in copies for c in ctors for y in ast.walk(c)):
                raw_loops = [lp for lp in own_nodes(f.node) if isinstance(lp, (ast.For, ast.comprehension)) and isinstance(lp.iter, ast.Name) and lp.iter.id == p_]
                copy_loops = [lp for lp in own_nodes(f.node) if isinstance(lp, ast.For) and isinstance(lp.iter, ast.Name) and lp.iter.id in copies
                              and any(isinstance(r, ast.Raise) for r in ast.walk(lp))]
                if any(any(isinstance(r, ast.Raise) for r in ast.walk(lp)) for lp in raw_loops if isinstance(lp, ast.For)) and not copy_loops:
                    checked = False
            ctx.check("R15", f"{f.local}: `{p_}` is checked before it is recorded", checked, f, f.node,
                      f"`{p_}` reaches the annotation that {f.local} records ({', '.join(sorted({(dotted_of(c.func) or '').split('.')[-1] for c in ctors}))}) and no test that governs a `raise` "
                      f"reads it: a request with a value the library's own device-configuration check rejects (a device index outside range(num_devices)) is accepted and recorded - the "
                      "check then reports the model although every annotation went through the public API",
                      how="numeric parameters that flow into a device-annotation constructor × tests enclosing the raise statements of the method (the parameter itself or the loop variable over it)",
                      construct=f"{p_} recorded unchecked")
    ctx.require(n >= 4, f"only {n} numeric parameters of annotation requests found")


def _loop_vars_over(f, p_):
    out = set()
    names = {p_}
    for _ in range(3):
        for x in own_nodes(f.node):
            if isinstance(x, ast.Assign) and any(isinstance(y, ast.Name) and y.id in names for y in ast.walk(x.value)) and isinstance(x.value, (ast.Name, ast.Call)) \
                    and (isinstance(x.value, ast.Name) or (dotted_of(x.value.func) in ("tuple", "list", "sorted", "set", "frozenset") and len(x.value.args) == 1)):
                names |= {t.id for t in x.targets if isinstance(t, ast.Name)}
            if isinstance(x, (ast.For, ast.comprehension)) and isinstance(x.iter, ast.Name) and x.iter.id in names:
                out |= {y.id for y in ast.walk(x.target) if isinstance(y, ast.Name)}
    return out


_ANNOTATION_VALUE_CLASSES = {"ModelConfiguration", "NodeDeviceConfiguration", "ShardingSpec", "ShardedDim", "SimpleShardedDim"}


def rule_r16(ctx):
    ty = ctx.typer
    n = 0
    for f in _annotation_api(ctx.repo):
        for c in own_nodes(f.node):
            if not (isinstance(c, ast.Compare) and len(c.ops) == 1):
                continue
            op = c.ops[0]
            l, r = c.left, c.comparators[0]

            def classes(e):
                try:
                    return {a[1].name for a in ty.type_of(f, e) if a[0] == "cls" and hasattr(a[1], "name")}
                except Exception:
                    return set()

            cl, cr = classes(l) & _ANNOTATION_VALUE_CLASSES, classes(r) & _ANNOTATION_VALUE_CLASSES
            coll = isinstance(op, (ast.In, ast.NotIn)) and any(isinstance(y, ast.Attribute) and y.attr in ("device_configurations", "sharding_specs") for y in ast.walk(r))
            if isinstance(op, (ast.Is, ast.IsNot)) and (cl or cr):
                n += 1
                ctx.ob("R16", f"{f.local}: `{norm(c)[:60]}` compares annotation objects by identity", True, how="typed operands; `is` / `is not`")
                continue
            # both sides are annotation objects (`c != target`), or an annotation object is looked up in a collection of them
            by_value = (isinstance(op, (ast.Eq, ast.NotEq)) and bool(cl) and bool(cr)) or (coll and bool(cl))
            if not by_value:
                continue
            n += 1
            ctx.check("R16", f"{f.local}: `{norm(c)[:60]}` tells configurations apart by identity", False, f, c,
                      f"`{norm(c)[:70]}` compares annotation objects by value: a configuration that only equals the registered one is treated as the registered one - it is removed from the "
                      "model although the annotations that refer to the registered object (matched by identity in the cascade) stay, so nodes end up annotated for a configuration "
                      "their model does not declare, and a request that should be rejected without effect goes through",
                      how="comparisons in the annotation API whose operands are typed as device-annotation value classes: `is` / `is not` and any(… is …) only",
                      construct=f"configurations compared by value: {norm(c)[:50]}")
    ctx.require(n >= 1, f"only {n} comparisons of annotation objects found in the annotation API")


def run(ctx):
    rule_r16(ctx)
    rule_r15(ctx)
    rule_r14(ctx)
    from ..shared import rule_s17

    rule_r13(ctx)
    rule_r12(ctx)
    rule_r11(ctx)

    rule_s17(ctx, "R10", lambda f: (f.owner_class is not None and f.owner_class.name == "Node" and f.module.name == "onnx_ir._core") or f.module.name == "onnx_ir._cloner",
             "sharding annotations of the other values keep targeting values that left the node")
    rule_r1(ctx)
    rule_r2(ctx)
    rule_r3(ctx)
    rule_r4(ctx)
    rule_r4b(ctx)
    rule_r5(ctx)
    rule_r6(ctx)
    from ..shared import scope_precedence_sites

    n7 = 0
    for f, node, form, winner in scope_precedence_sites(ctx.repo):
        n7 += 1
        ctx.check("R7", f"{f.local}: {form}", winner == "inner", f, node,
                  f"{form}: the OUTER scope's binding wins, so the tensor name of a sharding spec inside a subgraph resolves to an enclosing "
                  "graph's value of the same name - the spec then targets a value that is not an input or output of its node",
                  how="stack order is outer→inner; form of the scan classified (direction × first-hit/last-write)", construct=form)
    ctx.require(n7 >= 2, "scope stack scans of the deserializer not found")
    from . import c13

    c13.rule_s3(ctx, rule="R9", modules=("onnx_ir._cloner", "onnx_ir._core", "onnx_ir._multi_device"), mention="sharding_specs", floor=2)
    from ..shared import rule_s8

    rule_s8(ctx, "R8", ("onnx_ir.serde", "onnx_ir._multi_device", "onnx_ir._core"),
            "a sharding reference serialized after the value was renamed still carries the old tensor name, which is no input/output name of its node")
